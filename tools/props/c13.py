"""C13 - output is a deterministic function of sources and configuration.

Decided at the level of the real binary: every project is generated in several fresh processes
(fresh hash seeds), with and without --verbose / --visualize-deps, and under semantics-preserving
source transformations. Oracle (Gallina, extracted: Spec/C13Spec.v `rel`): two versions of a generated
file are token-identical / the same multiset of module items / different; bytes are compared first.
Model (Model/C13Order.v, following the code with C13-sort-before-use and the other accepted repairs):
`gen zod omega p` = the declarations of every generated file in order; it is proved independent of the
hash orders omega, is run under a random omega for every run of the binary, and must reproduce the
declaration order of every file of every run."""
import hashlib
import json
import os
import random
import re

from tools import vlib, projgen
from tools.vlib import Outcome, sx
from tools.props import c13_gen as G

MANIFEST = {
    "level_text": "Coq theorems (Properties/C13.v, 22, no axioms) about an executable skeleton of the pipeline in which every hash-based collection (AstCache, used_structs, the requested type set, every dependency set, resolved_types, dependencies) is a list in an explicit, universally quantified order omega which the code sorts by name before use, and in which a declaration carries its content as a function of the source item (field / variant / parameter / channel names in order, an id for the rest of a definition, the payload type of a listener): for all omega, omega' the declarations of every generated file and the content of the two visualisation files (entry points, types with depends-on lists, dependency chains, nodes, edges) are the same lists (C13_order_independent, C13_viz_independent, via isort_perm_invariant); the bindings are the same for all flags and the graph files appear exactly with --visualize-deps (C13_flags); added noise items change nothing (C13_noise) and noise-only files, any number at any position, change nothing at all - equality of every file and of both graph files, no premise (C13_noise_file, C13_noise_files, via monotonicity of ranks in the sorted path list and commutation of filter with the stable sort); any sequence of source transformations - reorder items of a file, move an item, split a file, merge files, relist, rename (inductive tstep/tsteps) - changes at most the order of declarations, never their content or the set, when no type name is defined twice and no event name is emitted with two payload types (C13_transformations, C13_move), and both exceptions are exhibited by computed witnesses (C13_move_dupdef_refuted, C13_move_dupevent_refuted); the run-time oracle rel on two versions of a file decides exactly same item list / same multiset / different multisets / unparsed (C13_oracle_exact). Tied to the code on every run: each generated project is run through the real binary in 8 (quick) / 32 (thorough) fresh processes with and without --verbose / --visualize-deps and under noise / reorder / move / split / merge transformations; files are compared byte for byte and through the extracted module parser; the model must reproduce, for every run, the declarations of every file in order with their member keys and listener payload types, and the lists of both graph files. Round 7: the sorted orders in closed form - the repaired file loop is the stable sort of the files by path, plain types.ts is the used types by name then the Params declarations in path order, commands.ts the wrappers in path order (C13_canonical_order); a text level (Model/C13Text.v) in which the ids of the skeleton are resolved by a content table to the items as written and the files are rendered by the text-level generator models Pipeline.v (tokens of plain types.ts / commands.ts), PipelineZod.v, Events.v, index.ts and the order-bearing lines of both graph files as text: the file text is independent of the hash orders (C13_text_order_independent, C13_viz_text_independent), unchanged by noise items and noise-only files (C13_text_noise, C13_text_noise_file), plain types.ts is its import line followed by one token block per declaration (C13_types_plain_blocks) and source transformations permute the blocks of types.ts / commands.ts without changing a block (C13_text_transformations); the oracle's canonical printer is injective (C13_oracle_printer_injective; the round-6 printer was not and was replaced), so same-items means equal s-expressions of the parsed items (C13_oracle_same_items); the two class predicates of the run-time matcher are reflected (C13_classes_exact: kf_dupdef p = false iff no type name is defined twice, kf_dupevent p = false iff equal event names carry equal payload ids). Text-level correspondence on every run: the depends-on, chain, node and edge lines of both graph files byte for byte, and the token blocks of every struct interface, Params interface and wrapper of plain types.ts / commands.ts inside the fragment of Pipeline.v against the lexed real files; in Zod mode the schema token blocks of every struct; events.ts line for line in plain mode.",
    "design_ref": "DESIGN.md section 5 C13",
    "level_note": "Not proved / outside the model after round 7: (1) the text level resolves the ids of the skeleton (t_body, c_name, e_name, e_pay) by a content table k that is universally quantified in the theorems and supplied by the python side at run time (the struct / fn item behind each id); that the skeleton (names, roots, dependency lists) is the abstraction of those items is not proved in Coq - it is the Skeleton class of c13_gen.py, checked by the correspondence of every run. (2) The text-level generator models are the shared Pipeline.v / PipelineZod.v / Events.v: structs only (no enum text), default naming configuration, no type mappings, and Pipeline.v predates C04-2 (ipc::Channel<T> is not a channel there); blocks outside that fragment (enums, mapped names, that spelling) are counted in the evidence (text_level.blocks_outside_fragment) and compared at the level of declaration labels and member keys only. The run-time text correspondence covers: plain mode struct / Params / wrapper token blocks, Zod mode the schema text of every struct (export const NSchema .. ; export type N .. as token blocks, structs without validator attributes), events.ts line for line in plain mode (blank lines ignored: Events.v predates C12-fix-dedup, whose template leaves additional blank lines; payload types without a mapping), and the graph-file lines byte for byte; Zod ParamsSchema / alias / wrapper text, Zod-mode events.ts and the import lines are in the model and theorems but are compared with the real files at label level only. The header lines, the command entry-point block and the summary of dependency-graph.txt and the command nodes / param edges of the .dot file carry file paths, line numbers and type strings and are not in the text model (their order is: v_cmds). (3) C13_oracle_same_items reduces same-items to equality of the lists of Spec/TsObs.sx_item values; injectivity of sx_item itself (a nested encoder over ty / ex / tk) is stated as C13_sx_item_injective_full_statement and not proved. (4) Comments, whitespace and --verbose output: below the model's input, run only (byte identity over fresh processes). The order of names in the model is numeric; the python side numbers paths in PathBuf (component-wise) order and names in byte order so that it coincides with the code's sort.",
    "technique": "Rocq/Coq proof over hand-written model + correspondence check (extracted OCaml vs the real CLI binary in fresh processes)"
}

RULE = ("multi-file projects (1..6 files; shapes multi / cmd1 / onefile / dup / dupev / dupcmd = command names defined more than once) x modes none, zod x fresh processes "
        "(quick 8, thorough 32 per project and mode, flags cycling through none / --verbose / --visualize-deps / both) "
        "plus noise variants and reorder / move / split / merge (reverse, movedef for the duplicate classes; adjdup = make two definitions of a repeated command name adjacent / non-adjacent) variants. "
        "One evaluation = one (project, mode, aspect) group of runs; non-trivial = the project has at least two files or at "
        "least two commands; distinct = distinct (project, mode, aspect, variant)")
TRUSTED = ["tools/props/c13.py content_tables: the struct / fn item behind each body id / command id handed to the text-level model, and the fragment predicate (which blocks are compared as text); cutting files at the keyword export is Gallina (Model/C13Text.v cut_export)",
           "Spec/TsModule.v parser and Spec/C13Spec.v rel/labels (extracted) are the run-time oracle on generated files",
           "python: parsing of dependency-graph.txt/.dot into the lists the model predicts; recovery of a listener's payload type by a regular expression",
           "tools/props/c13_gen.py Skeleton: the map from a project case to the model's input (custom type names per signature / field, the event parser's payload inference, numbering in sort order)"]
ASSUMPTIONS = ["fresh processes sample the hash orders (std RandomState is seeded per process)",
               "on the generator's type contexts the name harvest and the parsed type structure mention the same custom names (other contexts belong to C07)"]

TS = ("types.ts", "commands.ts", "events.ts", "index.ts")
VIZ = ("dependency-graph.txt", "dependency-graph.dot")
FLAGSETS = [(), ("--verbose",), ("--visualize-deps",), (), ("--verbose", "--visualize-deps"), (), ("--visualize-deps",), ()]


# ----------------------------------------------------------------------------- running the binary

def run_cli(job):
    case, mode, flags = job
    with vlib.Sandbox("c13") as sb:
        r = projgen.generate(sb, case, mode, extra=list(flags))
    return r


# ---- prior state of the output directory: a history of steps in ONE sandbox, one output directory
GEN_NAMES = ("types.ts", "commands.ts", "events.ts", "index.ts", ".typecache", "dependency-graph.txt", "dependency-graph.dot")
STALE_TAIL = "".join("// stale line %d left over from an earlier generation\nexport interface Stale%d { a: number; }\n" % (i, i) for i in range(60))


def mutate_out(sb, out, seed):
    """damage every generated file name in the output directory: append a long tail, cut the file in
    half, replace it by foreign text, delete it, or create it when it is missing"""
    rng = random.Random(seed)
    od = sb.path(out)
    os.makedirs(od, exist_ok=True)
    done = {}
    for n in GEN_NAMES:
        p = os.path.join(od, n)
        kind = rng.choice(["tail", "tail", "half", "foreign", "delete"]) if os.path.isfile(p) else rng.choice(["foreign", "none"])
        if kind == "tail":
            open(p, "a").write("\n" + STALE_TAIL)
        elif kind == "half":
            b = open(p, "rb").read()
            open(p, "wb").write(b[:len(b) // 2])
        elif kind == "foreign":
            open(p, "w").write("// not written by this tool\nexport const leftover = 1;\n" + STALE_TAIL * 2)
        elif kind == "delete":
            os.remove(p)
        done[n] = kind
    return done


def run_history(job):
    """steps: ("cli", case, mode, flags) | ("lib", case, mode, viz) | ("mutate", seed). Every generation is
    forced and goes to the same output directory; returns the observation of the last generation."""
    steps = job
    res, k, notes = None, 0, []
    with vlib.Sandbox("c13h") as sb:
        ngen = sum(1 for st in steps if st[0] != "mutate")
        for st in steps:
            if st[0] == "mutate":
                notes.append(mutate_out(sb, "out", st[1]))
                continue
            k += 1
            # the last generation reads the sources from the same relative path as a fresh run does
            # (paths are printed in dependency-graph.txt)
            under = "proj" if k == ngen else "prev%d" % k
            if st[0] == "cli":
                res = projgen.generate(sb, st[1], st[2], out="out", under=under, extra=list(st[3]))
            else:
                projgen.write_project(sb, st[1], under)
                os.makedirs(sb.path("out"), exist_ok=True)
                case = {"id": 0, "project": under, "out": "out", "mode": st[2], "viz": bool(st[3]),
                        "type_mappings": (st[1].get("config") or {}).get("typeMappings")}
                import subprocess
                r = subprocess.run([vlib.harness_bin("c13"), "lib"], input=json.dumps(case) + "\n", stdout=subprocess.PIPE,
                                   stderr=subprocess.DEVNULL, text=True, timeout=120, env=vlib.ENV, cwd=sb.root)
                try:
                    ans = json.loads(r.stdout.strip().split("\n")[-1])
                except Exception:
                    ans = {"ok": False, "error": "driver gave no answer (exit %s)" % r.returncode}
                files = {}
                for n in sorted(os.listdir(sb.path("out"))):
                    q = os.path.join(sb.path("out"), n)
                    if os.path.isfile(q):
                        files[n] = vlib.strip_generated_at(open(q, "rb").read()).decode("utf-8", "replace")
                res = {"status": 0 if ans.get("ok") else 1, "log": json.dumps(ans), "files": files}
    res = dict(res)
    res["mutations"] = notes
    return res


def read_out(sb, out="out"):
    files = {}
    od = sb.path(out)
    if os.path.isdir(od):
        for n in sorted(os.listdir(od)):
            q = os.path.join(od, n)
            if os.path.isfile(q):
                files[n] = vlib.strip_generated_at(open(q, "rb").read()).decode("utf-8", "replace")
    return files


ENTRY_POINTS = ("conf-only", "c-file", "lib", "build")


def run_entry(job):
    """the same sources and configuration through another entry point, into a fresh directory:
    conf-only = CLI with every setting in tauri.conf.json and no flags but --force; c-file = CLI -c <file>
    (standalone configuration file); lib = generate_from_config; build = BuildSystem::generate_at_build_time"""
    import subprocess
    kind, case, mode = job
    cfg = dict(case.get("config") or {})
    with vlib.Sandbox("c13e") as sb:
        sb.write_files(projgen.render_project(case), under="proj")
        status, log = 0, ""
        if kind in ("conf-only", "build"):
            sb.write("tauri.conf.json", json.dumps({"plugins": {"typegen": dict(cfg, projectPath="proj", outputPath="out",
                                                                              validationLibrary=mode, force=True)}}, indent=1))
            if kind == "conf-only":
                status, log = sb.cli(["generate", "--force"])
            else:
                r = subprocess.run([vlib.harness_bin("c13"), "build1"], cwd=sb.root, stdout=subprocess.PIPE, stderr=subprocess.PIPE,
                                   text=True, timeout=120, env=vlib.ENV)
                status, log = r.returncode, r.stderr[-400:]
        elif kind == "c-file":
            sb.write("typegen-settings.json", json.dumps({"project_path": "proj", "output_path": "out", "validation_library": mode,
                                                          "type_mappings": cfg.get("typeMappings"),
                                                          "exclude_patterns": cfg.get("excludePatterns")}))
            status, log = sb.cli(["generate", "--force", "-c", "typegen-settings.json"])
        else:
            req = {"id": 0, "project": "proj", "out": "out", "mode": mode, "viz": False, "type_mappings": cfg.get("typeMappings")}
            os.makedirs(sb.path("out"), exist_ok=True)
            r = subprocess.run([vlib.harness_bin("c13"), "lib"], input=json.dumps(req) + "\n", stdout=subprocess.PIPE,
                               stderr=subprocess.DEVNULL, text=True, timeout=120, env=vlib.ENV, cwd=sb.root)
            try:
                ans = json.loads(r.stdout.strip().split("\n")[-1])
            except Exception:
                ans = {"ok": False, "error": "driver gave no answer (exit %s)" % r.returncode}
            status, log = (0 if ans.get("ok") else 1), json.dumps(ans)
        return {"status": status, "log": log, "files": read_out(sb)}


def bigger_project(rng, case):
    """the project plus one more file with commands, types and events: every generated file of it is
    longer than the corresponding file of the project"""
    c = json.loads(json.dumps(case))
    app = {"name": "app", "ty": projgen.P("AppHandle", segs=["tauri"])}
    its = []
    for k in range(3):
        its.append({"kind": "struct", "name": "Extra%d" % k, "derives": ["Serialize", "Deserialize"], "serde": [],
                    "fields": [{"name": "field_%d" % j, "ty": projgen.P("String"), "serde": [], "validate": []} for j in range(6)]})
        its.append({"kind": "fn", "name": "extra_command_%d" % k, "attrs": [["tauri", "command"]], "async": False, "vis": "pub",
                    "params": [dict(app), {"name": "payload_value", "ty": projgen.P("Extra%d" % k)}, {"name": "n", "ty": projgen.P("u32")}],
                    "ret": projgen.P("Extra%d" % k), "body": [{"emit": "extra-event-%d" % k, "recv": "app", "payload": "payload_value"}]})
    c["files"]["src/zz_extra_%d.rs" % rng.randint(0, 9)] = its
    return c


def prior_scenarios(rng, case, mode):
    other = "zod" if mode == "none" else "none"
    big = bigger_project(rng, case)
    viz = ("--visualize-deps",)
    sc = [("after-bigger-zod", [("cli", big, "zod", viz), ("cli", case, mode, ())]),
          ("over-damaged-files", [("cli", case, mode, viz), ("mutate", rng.randrange(1 << 30)), ("cli", case, mode, viz)]),
          ("lib-fresh", [("lib", case, mode, True)]),
          ("lib-over-bigger-and-damaged", [("cli", big, "zod", viz), ("mutate", rng.randrange(1 << 30)), ("lib", case, mode, True)])]
    if rng.random() < 0.5:
        sc.append(("after-other-mode", [("cli", case, other, viz), ("cli", case, mode, ())]))
    else:
        sc.append(("over-foreign-files", [("mutate", rng.randrange(1 << 30)), ("cli", case, mode, viz)]))
    return [{"kind": k, "steps": st, "res": None} for k, st in sc]


def pascal(s):
    return "".join(w[:1].upper() + w[1:] for w in s.split("_") if w)


# ----------------------------------------------------------------------------- observation of one run

def camel(s):
    w = [x for x in s.split("_") if x]
    return (w[0] + "".join(x[:1].upper() + x[1:] for x in w[1:])) if w else s


def norm_labels(parsed, sk):
    """labels s-expression (from c13-labels) -> list of tuples, imports dropped; None if unparsed.
    Interfaces and object schemas carry their member keys in order."""
    if not parsed:
        return None
    out = []
    for l in parsed[0]:
        k = l[0]
        if k == "import":
            continue
        if k in ("interface", "const"):
            out.append((k, l[1], tuple(l[2])))
        elif k == "type":
            out.append(("type", l[1], ()))
        elif k in ("wrapper", "listener"):
            out.append((k, l[2]))
        elif k == "reexport":
            out.append(("reexport", l[1]))
        else:
            out.append((k, l[1]))
    return out


def expected_labels(out, sk, zod):
    """model output (parsed s-expression of c13-gen, one output) -> {file: [label tuples]}"""
    if not out:
        return None
    ty, cm, ev, ix = out[0]

    def tname(n):
        return sk.tys[int(n) - 1]

    def cname(c):
        return sk.cmds[int(c) - 1]

    def keys(ms, conv=lambda x: x):
        return tuple(conv(sk.members[int(m) - 1]) for m in ms)

    res = {"types.ts": [], "commands.ts": [], "index.ts": []}
    for d in ty:
        k = d[0]
        if k in ("type", "schema"):
            item = sk.bodies[int(d[2])][1]
            enum = item["kind"] == "enum"
            if k == "type":
                res["types.ts"].append(("type", tname(d[1]), ()) if enum else ("interface", tname(d[1]), keys(d[3])))
            else:
                res["types.ts"].append(("const", tname(d[1]) + "Schema", () if enum else keys(d[3])))
        elif k == "infer":
            res["types.ts"].append(("type", tname(d[1]), ()))
        elif k == "params":
            ps, cs = d[2], d[3]
            if zod and ps and not cs:
                res["types.ts"].append(("type", pascal(cname(d[1])) + "Params", ()))
            elif zod:
                res["types.ts"].append(("interface", pascal(cname(d[1])) + "Params", keys(cs, camel)))
            else:
                res["types.ts"].append(("interface", pascal(cname(d[1])) + "Params", keys(ps, camel) + keys(cs, camel)))
        elif k == "pschema":
            res["types.ts"].append(("const", pascal(cname(d[1])) + "ParamsSchema", keys(d[2], camel)))
    for d in cm:
        if d[0] == "hooks":
            res["commands.ts"].append(("interface", "CommandHooks", ("onValidationError", "onInvokeError", "onSuccess", "onSettled")))
        else:
            res["commands.ts"].append(("wrapper", cname(d[1])))
    if ev:
        res["events.ts"] = [("listener", sk.evs[int(d[1]) - 1],
                             sk.pays[int(d[2])] if (sk.pays[int(d[2])] in sk.tid and sk.pays[int(d[2])] not in sk.mapped) else None)
                            for d in ev[0]]
    for d in ix:
        res["index.ts"].append(("reexport", ["./types", "./commands", "./events"][int(d[1])]))
    return res


def parse_viz(txt, dot):
    """order-relevant content of the two visualisation files"""
    cmds, types, sect = [], [], None
    for line in txt.split("\n"):
        if "Command Entry Points" in line:
            sect = "cmd"
        elif "Discovered Types" in line:
            sect = "types"
        elif "Dependency Chains" in line:
            sect = "chains"
        elif sect == "cmd" and line.startswith("• "):
            cmds.append(line[2:].split(" (")[0])
        elif sect == "types" and line.startswith("• "):
            types.append([line[2:].split(" (")[0], []])
        elif sect == "types" and "depends on: " in line and types:
            types[-1][1] = [x.strip() for x in line.split("depends on: ", 1)[1].split(",")]
    chains, sect = [], None
    for line in txt.split("\n"):
        if "Dependency Chains" in line:
            sect = "chains"
        elif "Summary:" in line and "\u251c\u2500 " not in line:
            sect = None
        elif sect == "chains" and "\u251c\u2500 " in line:
            ind, nm = line.split("\u251c\u2500 ", 1)
            chains.append((len(ind) // 2, nm.strip()))
    nodes, edges, dcmds = [], [], []
    for line in dot.split("\n"):
        m = re.match(r'\s*"([^"]*)" \[color=green\];', line)
        if m:
            nodes.append(m.group(1))
        m = re.match(r'\s*"([^"]*)" \[color=blue', line)
        if m:
            dcmds.append(m.group(1))
        m = re.match(r'\s*"([^"]*)" -> "([^"]*)";', line)
        if m:
            edges.append((m.group(1), m.group(2)))
    return {"cmds": cmds, "types": types, "nodes": nodes, "edges": edges, "dot_cmds": dcmds, "chains": chains}


# ----------------------------------------------------------------------------- text level (round 7)

def viz_text_lines(txt, dot):
    """the order-bearing lines of the two graph files, verbatim"""
    depends, chains, sect, cur = [], [], None, None
    for line in txt.split("\n"):
        if "Command Entry Points" in line:
            sect = "cmd"
        elif "Discovered Types" in line:
            sect = "types"
        elif "Dependency Chains" in line:
            sect = "chains"
        elif "Summary:" in line and "\u251c\u2500 " not in line:
            sect = None
        elif sect == "types" and line.startswith("\u2022 "):
            cur = line[2:].split(" (")[0]
        elif sect == "types" and "depends on: " in line:
            depends.append([cur, line])
        elif sect == "chains" and "\u251c\u2500 " in line:
            chains.append(line)
    dl = dot.split("\n")
    return {"depends": depends, "chains": chains, "nodes": [l for l in dl if l.endswith("[color=green];")],
            "edges": [l for l in dl if re.match(r'\s*"[^"]*" -> "[^"]*";$', l)]}


def has_validate(it):
    return any(f.get("validate") for f in it.get("fields", []))


def content_tables(sk, case):
    """the items behind the ids of the skeleton in the syntax of Model/Pipeline.v, and which of them are inside
    the fragment that text-level model covers (structs, no type mapping involved)"""
    mapped = set(k.split("::")[-1] for k in sk.mapped)
    def names_of(t):
        return set(projgen.type_names(t))
    structs, s_ok = [], []
    for rel, it in sk.bodies:
        if it["kind"] == "struct" and not it.get("unit"):
            structs.append([it["name"], projgen.sx_serde(it.get("serde")),
                            [[f["name"], projgen.sx_type(f["ty"]), projgen.sx_serde(f.get("serde"))] for f in it.get("fields", [])]])
            s_ok.append(it["name"] not in mapped and not any(names_of(f["ty"]) & mapped for f in it.get("fields", []))
                        and all(f.get("vis", "pub") == "pub" for f in it.get("fields", [])))
        else:
            structs.append(["", [], []])
            s_ok.append(False)
    fns = {}
    for rel in sk.paths:
        for it in case["files"][rel]:
            if it["kind"] == "fn" and G.is_command(it):
                fns.setdefault(it["name"], it)
    cmds, c_ok = [], []
    for n in sk.cmds:
        x = projgen.sx_item(fns[n])
        cmds.append([x[1], x[2], x[4], x[5], x[6]])
        tys = [q["ty"] for q in fns[n].get("params", [])] + ([fns[n]["ret"]] if fns[n].get("ret") is not None else [])
        # Model/Pipeline.v (shared, read-only) predates C04-2: ipc::Channel<T> is not a channel there
        old_chan = any(q["ty"]["k"] == "path" and q["ty"]["name"] == "Channel" and q["ty"]["segs"] == ["ipc"] for q in fns[n].get("params", []))
        c_ok.append(not any(names_of(t) & mapped for t in tys) and not fns[n].get("attr_args") and not old_chan)
    # the table holds one fn per command id: definitions of a repeated name all have the same signature (c13_gen.add_dup_commands)
    return structs, s_ok, cmds, c_ok


TEXT_STATS = {}


class Run:
    __slots__ = ("tables", "mout", "case", "sk", "mode", "flags", "variant", "res", "labels", "omega", "model", "corr", "why")


def random_omega(run, salt):
    """some hash order for every collection (the model sorts before use, so any will do)"""
    sk = run.sk
    rng = random.Random(hashlib.sha1(("%s|%s|%s" % (salt, run.mode, run.variant)).encode()).hexdigest())
    def perm(n):
        l = list(range(1, n + 1))
        rng.shuffle(l)
        return l
    nt = len(sk.tys)
    return [perm(len(sk.paths)), perm(nt), perm(nt), [[n, perm(nt)] for n in perm(nt)], perm(nt), perm(nt)]


# ----------------------------------------------------------------------------- evaluation of run groups

def batch_labels(texts):
    texts = list(texts)
    res = vlib.run_runner("c13-labels", [sx(t) for t in texts])
    return dict(zip(texts, res))


def batch_rel(pairs):
    pairs = list(pairs)
    res = vlib.run_runner("c13-rel", [sx([a, b]) for a, b in pairs])
    return dict(zip(pairs, res))


def class_flags(sks):
    res = vlib.run_runner("c13-classes", [sx(sk.project) for sk in sks])
    keys = ("dupdef", "dupevent")
    return [dict(zip(keys, [x == "true" for x in r])) for r in res]


def evaluate(groups, tier):
    """groups: list of dicts {case, shape, mode, runs: [Run], variants: {name: (case, [Run])}}.
    Returns list of (stream, Outcome)."""
    # 1. labels of every distinct generated TypeScript text
    texts = set()
    allruns = []
    for g in groups:
        allruns.extend(g["runs"])
        for vname, (vcase, vruns) in g["variants"].items():
            allruns.extend(vruns)
    for r in allruns:
        for f in TS:
            if f in r.res["files"]:
                texts.add(r.res["files"][f])
    lab = batch_labels(texts)
    for r in allruns:
        r.labels = {}
        for f in TS:
            if f in r.res["files"]:
                nl = norm_labels(lab[r.res["files"][f]], r.sk)
                r.labels[f] = nl
        if r.labels.get("events.ts") is not None:
            pay = dict((n, t) for t, n in re.findall(r"listen<types\.(\w+)>\('([^']*)'", r.res["files"]["events.ts"]))
            r.labels["events.ts"] = [(l[0], l[1], pay.get(l[1]) if pay.get(l[1]) in r.sk.tid else None) if l[0] == "listener" else l
                                     for l in r.labels["events.ts"]]
    # 2. the model on every run, under some hash order
    jobs, jruns = [], []
    for i, r in enumerate(allruns):
        r.corr, r.why, r.model = True, None, None
        if r.res["status"] != 0 or "commands.ts" not in r.res["files"]:
            r.corr, r.why = False, "run failed or wrote no commands.ts (status %s)" % r.res["status"]
            continue
        if any(v is None for v in r.labels.values()):
            r.corr, r.why = False, "a generated file does not parse"
            continue
        r.omega = random_omega(r, i)
        jobs.append(sx([r.mode == "zod", r.omega, r.sk.project]))
        jruns.append(r)
    outs = vlib.run_runner("c13-gen", jobs)
    vjobs, vruns = [], []
    for r, o in zip(jruns, outs):
        if o and o[0] == "runner-error":
            raise vlib.BuildError("runner: %s" % o)
        exp = expected_labels(o[0], r.sk, r.mode == "zod")
        r.model = exp
        if exp is None:
            r.corr, r.why = False, "model generates nothing"
            continue
        for f in TS:
            if (f in exp) != (f in r.labels):
                r.corr, r.why = False, "file set: %s model=%s impl=%s" % (f, f in exp, f in r.labels)
            elif f in exp and exp[f] != r.labels[f]:
                r.corr, r.why = False, "declarations of %s: model %s, implementation %s" % (f, exp[f], r.labels[f])
        if "--visualize-deps" in r.flags and VIZ[0] in r.res["files"]:
            vjobs.append(sx([r.omega, r.sk.project]))
            vruns.append(r)
    vouts = vlib.run_runner("c13-viz", vjobs)
    for r, o in zip(vruns, vouts):
        v = parse_viz(r.res["files"][VIZ[0]], r.res["files"].get(VIZ[1], ""))
        sk = r.sk
        m_cmds = [sk.cmds[int(c) - 1] for c in o[0]]
        m_types = [[sk.tys[int(t[0]) - 1], [sk.tys[int(d) - 1] for d in t[1]]] for t in o[1]]
        m_nodes = [sk.tys[int(n) - 1] for n in o[2]]
        m_edges = [(sk.tys[int(e[0]) - 1], sk.tys[int(e[1]) - 1]) for e in o[3]]
        if m_cmds != v["cmds"] or m_cmds != v["dot_cmds"]:
            r.corr, r.why = False, "visualisation: command entry points %s vs model %s" % (v["cmds"], m_cmds)
        elif m_types != v["types"]:
            r.corr, r.why = False, "visualisation: discovered types %s vs model %s" % (v["types"], m_types)
        elif m_nodes != v["nodes"]:
            r.corr, r.why = False, "visualisation: dot nodes %s vs model %s" % (v["nodes"], m_nodes)
        elif m_edges != v["edges"]:
            r.corr, r.why = False, "visualisation: dot edges %s vs model %s" % (v["edges"], m_edges)
        elif [(int(c[0]), sk.tys[int(c[1]) - 1]) for c in o[4]] != v["chains"]:
            r.corr, r.why = False, "visualisation: dependency chains %s vs model %s" % (v["chains"], o[4])
    # 2b. text level (round 7): the order-bearing lines of the graph files as text, and the token blocks of plain
    # types.ts / commands.ts (Model/C13Text.v: Pipeline.v generators applied in the order the skeleton computes)
    TEXT_STATS.setdefault("viz_text_runs", 0)
    if vruns:
        touts = vlib.run_runner("c13-viztext", [sx([r.omega, r.sk.project, r.sk.tys]) for r in vruns])
        for r, o in zip(vruns, touts):
            if not r.corr:
                continue
            if o and o[0] == "runner-error":
                raise vlib.BuildError("runner: %s" % o)
            v = viz_text_lines(r.res["files"][VIZ[0]], r.res["files"].get(VIZ[1], ""))
            m = {"depends": [list(x) for x in o[0]], "chains": list(o[1]), "nodes": list(o[2]), "edges": list(o[3])}
            TEXT_STATS["viz_text_runs"] += 1
            for key in ("depends", "chains", "nodes", "edges"):
                if m[key] != v[key]:
                    r.corr, r.why = False, "visualisation text: %s lines %s vs model %s" % (key, v[key][:6], m[key][:6])
                    break
    seen, tjobs, truns = set(), [], []
    for r, o in zip(jruns, outs):
        if r.mode == "zod" or not r.corr or not o or not o[0]:
            continue
        key = (id(r.sk), r.res["files"].get("types.ts"), r.res["files"].get("commands.ts"))
        if key in seen:
            continue
        seen.add(key)
        r.tables = content_tables(r.sk, r.case)
        r.mout = o[0][0]
        tjobs.append(sx([False, r.omega, r.sk.project, r.tables[0], r.tables[2]]))
        truns.append(r)
    if truns:
        mouts = vlib.run_runner("c13-textblocks", tjobs)
        ftexts = sorted(set(r.res["files"][f] for r in truns for f in ("types.ts", "commands.ts")))
        fouts = dict(zip(ftexts, vlib.run_runner("c13-fileblocks", [sx(t) for t in ftexts])))
        for r, mo in zip(truns, mouts):
            if (mo and mo[0] == "runner-error") or not mo:
                raise vlib.BuildError("runner: %s" % (mo,))
            tb, cb = mo[0]
            structs, s_ok, cmds, c_ok = r.tables
            tdecl = [d for d in r.mout[0] if d[0] == "type"]
            wdecl = [d for d in r.mout[1] if d[0] == "wrapper"]
            oks = [s_ok[int(d[2])] for d in tdecl] + [c_ok[int(d[1]) - 1] for d in wdecl]
            if len(tb) != len(oks) or len(cb) != len(wdecl):
                r.corr, r.why = False, "text level: %d type blocks for %d declarations" % (len(tb), len(oks))
                continue
            for fname, blocks, flags in (("types.ts", tb, oks), ("commands.ts", cb, [c_ok[int(d[1]) - 1] for d in wdecl])):
                real = {}
                for b in fouts[r.res["files"][fname]]:
                    real.setdefault(json.dumps(b[:4]), b)
                for b, fl in zip(blocks, flags):
                    if not b or not fl:
                        TEXT_STATS["blocks_outside_fragment"] = TEXT_STATS.get("blocks_outside_fragment", 0) + (1 if b else 0)
                        continue
                    TEXT_STATS["blocks_compared"] = TEXT_STATS.get("blocks_compared", 0) + 1
                    rb = real.get(json.dumps(b[:4]))
                    if rb != b:
                        r.corr, r.why = False, "text level: %s block %s: model tokens %s, implementation %s" % (
                            fname, b[2:4], b, rb)
                        break
                if not r.corr:
                    break
    # Zod mode: the schema text of every struct of types.ts (Model/PipelineZod.v struct_schema_text), as token blocks
    seen, zjobs, zruns = set(), [], []
    for r, o in zip(jruns, outs):
        if r.mode != "zod" or not r.corr or not o or not o[0]:
            continue
        key = (id(r.sk), r.res["files"].get("types.ts"))
        if key in seen:
            continue
        seen.add(key)
        r.tables = content_tables(r.sk, r.case)
        r.mout = o[0][0]
        zjobs.append(sx([r.omega, r.sk.project, r.tables[0]]))
        zruns.append(r)
    if zruns:
        zouts = vlib.run_runner("c13-zodblocks", zjobs)
        ztexts = sorted(set(r.res["files"]["types.ts"] for r in zruns))
        zf = dict(zip(ztexts, vlib.run_runner("c13-fileblocks", [sx(t) for t in ztexts])))
        for r, zo in zip(zruns, zouts):
            if (zo and zo[0] == "runner-error") or not zo:
                raise vlib.BuildError("runner: %s" % (zo,))
            sdecl = [d for d in r.mout[0] if d[0] == "schema"]
            if len(zo[0]) != len(sdecl):
                r.corr, r.why = False, "text level: %d zod struct texts for %d schema declarations" % (len(zo[0]), len(sdecl))
                continue
            real = {}
            for b in zf[r.res["files"]["types.ts"]]:
                real.setdefault(json.dumps(b[:4]), b)
            for d, blocks in zip(sdecl, zo[0]):
                if not r.tables[1][int(d[2])] or has_validate(r.sk.bodies[int(d[2])][1]):
                    TEXT_STATS["zod_outside_fragment"] = TEXT_STATS.get("zod_outside_fragment", 0) + 1
                    continue
                for b in blocks:
                    TEXT_STATS["zod_blocks_compared"] = TEXT_STATS.get("zod_blocks_compared", 0) + 1
                    if real.get(json.dumps(b[:4])) != b:
                        r.corr, r.why = False, "text level: zod types.ts block %s: model tokens %s, implementation %s" % (
                            b[2:4], b, real.get(json.dumps(b[:4])))
                        break
                if not r.corr:
                    break
    # events.ts as text (Model/Events.v), plain mode, payload types without a type mapping
    seen, ejobs, eruns = set(), [], []
    for r, o in zip(jruns, outs):
        if r.mode == "zod" or not r.corr or not o or not o[0] or "events.ts" not in r.res["files"]:
            continue
        key = (id(r.sk), r.res["files"]["events.ts"])
        mapped = set(k.split("::")[-1] for k in r.sk.mapped)
        if key in seen or any(set(re.findall(r"\w+", t)) & mapped for t in r.sk.pays):
            continue
        seen.add(key)
        ejobs.append(sx([r.omega, r.sk.project, r.sk.evs, r.sk.pays]))
        eruns.append(r)
    if eruns:
        for r, o in zip(eruns, vlib.run_runner("c13-eventstext", ejobs)):
            if o and o[0] == "runner-error":
                raise vlib.BuildError("runner: %s" % o)
            real = r.res["files"]["events.ts"]
            real = real[real.index("import {"):] if "import {" in real else real
            TEXT_STATS["events_text_compared"] = TEXT_STATS.get("events_text_compared", 0) + 1
            # blank lines are ignored: Model/Events.v (shared, read-only) predates C12-fix-dedup, whose template leaves an
            # additional blank line at some listeners
            nb = lambda t: [l for l in t.split("\n") if l.strip()]
            if not o or nb(o[0]) != nb(real):
                r.corr, r.why = False, "text level: events.ts %r vs model %r" % (real[:400], (o[0] if o else None) and o[0][:400])
    # 3. classes
    sks = []
    for g in groups:
        sks.append(g["runs"][0].sk)
        for vname, (vcase, vruns) in g["variants"].items():
            sks.append(vruns[0].sk)
    cls = class_flags(sks)
    k = 0
    for g in groups:
        g["cls"] = cls[k]
        k += 1
        g["vcls"] = {}
        for vname in g["variants"]:
            g["vcls"][vname] = cls[k]
            k += 1
    # 4. relations between distinct versions of a file
    pairs = set()

    def versions(runs, f):
        vs = []
        for r in runs:
            t = r.res["files"].get(f)
            if t not in vs:
                vs.append(t)
        return vs

    for g in groups:
        pool = g["runs"] + [r for vn, (vc, vr) in g["variants"].items() if vn.startswith("noise") for r in vr]
        g["pool"] = pool
        for f in TS:
            vs = versions(pool, f)
            g.setdefault("versions", {})[f] = vs
            for t in vs[1:]:
                if t is not None and vs[0] is not None:
                    pairs.add((vs[0], t))
        for vn, (vc, vr) in g["variants"].items():
            if vn.startswith("noise"):
                continue
            for f in TS:
                vs = versions(vr, f)
                for t in vs[1:]:
                    if t is not None and vs[0] is not None:
                        pairs.add((vs[0], t))
                b = g["versions"][f][0]
                if b is not None and vs[0] is not None and b != vs[0]:
                    pairs.add((b, vs[0]))
    rel = batch_rel(pairs)

    def relation(a, b):
        if a == b:
            return "identical"
        if a is None or b is None:
            return "missing"
        return rel[(a, b)]

    results = []
    for g in groups:
        cl = g["cls"]
        case_id = {"project": g["case"], "mode": g["mode"], "shape": g["shape"]}
        nontriv = len(g["case"]["files"]) >= 2 or len(g["runs"][0].sk.cmds) >= 2
        # ---- aspect: identical sources (also with added noise, any flags) => identical files
        pool = g["pool"]
        fails, det = [], {}
        bad = [r for r in pool if r.res["status"] != 0]
        if bad:
            fails.append("run exits with status %s: %s" % (bad[0].res["status"], bad[0].res["log"][-300:]))
        for r in pool:
            want = {"types.ts", "commands.ts", "index.ts", ".typecache"} | ({"events.ts"} if r.sk.evs else set())
            if "--visualize-deps" in r.flags:
                want |= set(VIZ)
            have = set(r.res["files"])
            if r.res["status"] == 0 and have != want:
                fails.append("file set with flags %s is %s, expected %s" % (list(r.flags), sorted(have), sorted(want)))
                break
        for f in TS:
            vs = g["versions"][f]
            det[f] = len(vs)
            if len(vs) > 1:
                rels = sorted({relation(vs[0], t) for t in vs[1:]})
                which = "among runs on identical sources" if len(versions(g["runs"], f)) > 1 else "between runs on the sources and on the sources with added noise"
                fails.append("%s: %d versions %s, relations %s" % (f, len(vs), which, rels))
        for flag in (False, True):      # the cache key covers visualize_deps
            tc = versions([r for r in g["runs"] if ("--visualize-deps" in r.flags) == flag], ".typecache")
            det[".typecache" + (" (viz)" if flag else "")] = len(tc)
            if len(tc) > 1:
                fails.append(".typecache: %d versions among runs on identical sources and flags" % len(tc))
        corr = all(r.corr for r in pool)
        why = next((r.why for r in pool if not r.corr), None)
        detail = {"runs": len(pool), "distinct_versions": det, "classes": cl, "failures": fails[:4], "corr_break": why,
                  "tie_prone_pairs": G.tie_census(g["case"]),
                  "flags": sorted({" ".join(r.flags) for r in pool})}
        results.append(("determinism", Outcome(dict(case_id, aspect="determinism"), corr, not fails, None, detail, nontriv)))
        # ---- aspect: the two visualisation files
        vr = [r for r in g["runs"] if "--visualize-deps" in r.flags and r.res["status"] == 0]
        if vr:
            fails = []
            for f in VIZ:
                vs = versions(vr, f)
                if None in vs:
                    fails.append("%s missing in a --visualize-deps run" % f)
                elif len(vs) > 1:
                    fails.append("%s: %d versions among runs on identical sources" % (f, len(vs)))
            nv = [r for r in g["runs"] if "--visualize-deps" not in r.flags]
            if any(set(r.res["files"]) & set(VIZ) for r in nv):
                fails.append("a visualisation file was written without --visualize-deps")
            results.append(("viz", Outcome(dict(case_id, aspect="viz"), all(r.corr for r in vr), not fails, None,
                                           {"runs": len(vr), "failures": fails[:4],
                                            "distinct_versions": {f: len(versions(vr, f)) for f in VIZ}}, nontriv)))
        # ---- aspect: the same sources and configuration through every entry point
        if g.get("entries"):
            fails = []
            tc = versions([r for r in g["runs"] if "--visualize-deps" not in r.flags], ".typecache")
            ref = {f: g["versions"][f][0] for f in TS}
            ref[".typecache"] = tc[0] if tc else None
            for e in g["entries"]:
                r = e["res"]
                if r["status"] != 0:
                    fails.append("%s: generation fails (status %s): %s" % (e["kind"], r["status"], r["log"][-200:]))
                    continue
                # (the driver of the library entry sets Option fields the CLI leaves unset; the cache key is C08's subject)
                for f in list(TS) + ([".typecache"] if e["kind"] != "lib" else []):
                    if r["files"].get(f) != ref.get(f):
                        x = relation(ref.get(f), r["files"].get(f)) if (f in TS and (ref.get(f), r["files"].get(f)) in rel) else "different bytes"
                        fails.append("%s: %s differs from the CLI run with flags (%s)" % (e["kind"], f, x))
            results.append(("entry-points", Outcome(dict(case_id, aspect="entry-points"), True, not fails, None,
                                                    {"entry_points": list(ENTRY_POINTS), "failures": fails[:6],
                                                     "type_mappings": (g["case"].get("config") or {}).get("typeMappings")}, nontriv)))
        # ---- aspect: the prior state of the output directory must not matter
        if g.get("prior"):
            fails = []
            fresh = {f: g["versions"][f][0] for f in TS}
            for f in VIZ:
                vs = versions(vr, f) if vr else []
                fresh[f] = vs[0] if vs else None
            libfresh = next((sc["res"] for sc in g["prior"] if sc["kind"] == "lib-fresh"), None)
            lib_equals_cli = None
            if libfresh is not None and libfresh["status"] == 0:
                lib_equals_cli = all(libfresh["files"].get(f) == fresh[f] for f in TS)
            kinds = []
            for sc in g["prior"]:
                r = sc["res"]
                kinds.append(sc["kind"])
                if r["status"] != 0:
                    fails.append("%s: last generation fails (status %s): %s" % (sc["kind"], r["status"], r["log"][-200:]))
                    continue
                ref = dict(fresh)
                if sc["kind"].startswith("lib") and libfresh is not None and libfresh["status"] == 0:
                    ref = {f: libfresh["files"].get(f) for f in list(TS) + list(VIZ)}
                last = [st for st in sc["steps"] if st[0] != "mutate"][-1]
                want = list(TS) + (list(VIZ) if (last[0] == "lib" or "--visualize-deps" in last[3]) else [])
                for f in want:
                    if ref.get(f) is None:
                        continue        # not generated for this project (no events) or no fresh reference
                    got = r["files"].get(f)
                    if got != ref[f]:
                        how = "missing" if got is None else ("%d bytes instead of %d; the fresh content is %sa prefix" % (
                            len(got), len(ref[f]), "" if got.startswith(ref[f]) else "not "))
                        fails.append("%s: %s differs from the generation into a fresh directory (%s); damage applied: %s" % (
                            sc["kind"], f, how, r.get("mutations")))
            results.append(("prior-state", Outcome(dict(case_id, aspect="prior-state"), True, not fails, None,
                                                   {"scenarios": kinds, "failures": fails[:4], "lib_fresh_equals_cli_fresh": lib_equals_cli},
                                                   nontriv)))
        # ---- aspect: transformations that may only reorder declarations
        for vn, (vcase, vruns) in g["variants"].items():
            if vn.startswith("noise"):
                continue
            vcl = g["vcls"][vn]
            fails, kfs = [], set()
            bad = [r for r in vruns if r.res["status"] != 0]
            if bad:
                fails.append("run exits with status %s" % bad[0].res["status"])
            for f in TS:
                vs = versions(vruns, f)
                b = g["versions"][f][0]
                x = relation(b, vs[0])
                if x not in ("identical", "same-items", "same-multiset"):
                    if f == "types.ts" and (cl["dupdef"] or vcl["dupdef"]):
                        kfs.add("C13-2")
                    elif f == "events.ts" and cl["dupevent"]:
                        kfs.add("C13-4")
                    else:
                        fails.append("%s after %s: %s (the set or content of declarations changed)" % (f, vn, x))
                if len(vs) > 1:
                    fails.append("%s after %s: %d versions among runs on identical sources" % (f, vn, len(vs)))
            ok = not fails and not kfs
            kf = None
            if not fails and kfs:
                kf = "C13-2" if "C13-2" in kfs else "C13-4"
            results.append(("transform", Outcome(dict(case_id, aspect="transform", variant=vn, transformed=vcase),
                                                 all(r.corr for r in vruns), ok, kf,
                                                 {"failures": fails[:4], "classes": cl, "variant_classes": vcl,
                                                  "corr_break": next((r.why for r in vruns if not r.corr), None)}, nontriv)))
    return results


# ----------------------------------------------------------------------------- building the groups

def make_runs(case, mode, flagsets, variant):
    sk = G.Skeleton(case)
    runs = []
    for fl in flagsets:
        r = Run()
        r.case, r.sk, r.mode, r.flags, r.variant = case, sk, mode, tuple(fl), variant
        runs.append(r)
    return runs


def build_group(case, shape, mode, rng, nbase, nnoise, ntrans, transforms=None):
    g = {"case": case, "shape": shape, "mode": mode, "variants": {}}
    g["runs"] = make_runs(case, mode, [FLAGSETS[i % len(FLAGSETS)] for i in range(nbase)], "base")
    for k in range(nnoise):
        vc = G.t_noise(rng, case)
        g["variants"]["noise%d" % k] = (vc, make_runs(vc, mode, [()], "noise%d" % k))
    sk0 = G.Skeleton(case)
    dup, dupev = bool(sk0.dup_names()), bool(sk0.dup_events())
    dupcmd = bool(G.dup_command_names(case))
    default = ["reorder", "movedef"] if dup else (["reorder", "move", "split", "merge"] + (["reverse"] if dupev else []) +
                                                  (["adjdup"] if dupcmd else []))
    for name in (transforms if transforms is not None else default):
        if dup and name not in ("reorder", "movedef", "reverse", "adjdup"):
            continue            # merging two same-named definitions into one module is not valid Rust
        vc = G.TRANSFORMS[name](rng, case)
        if G.Skeleton(vc).dup_names() and not dup:
            continue
        g["variants"][name] = (vc, make_runs(vc, mode, [()] * ntrans, name))
    g["prior"] = prior_scenarios(rng, case, mode)
    g["entries"] = [{"kind": k, "res": None} for k in ENTRY_POINTS]
    return g


def execute(groups):
    jobs, runs = [], []
    for g in groups:
        for r in g["runs"]:
            jobs.append((r.case, r.mode, r.flags))
            runs.append(r)
        for vn, (vc, vr) in g["variants"].items():
            for r in vr:
                jobs.append((r.case, r.mode, r.flags))
                runs.append(r)
    res = vlib.pmap(run_cli, jobs, workers=min(32, 2 * vlib.NCPU))
    for r, x in zip(runs, res):
        r.res = x
    hist = [sc for g in groups for sc in g.get("prior", [])]
    hres = vlib.pmap(run_history, [sc["steps"] for sc in hist], workers=min(32, 2 * vlib.NCPU))
    for sc, x in zip(hist, hres):
        sc["res"] = x
    ent = [(g, e) for g in groups for e in g.get("entries", [])]
    eres = vlib.pmap(run_entry, [(e["kind"], g["case"], g["mode"]) for g, e in ent], workers=min(32, 2 * vlib.NCPU))
    for (g, e), x in zip(ent, eres):
        e["res"] = x
    return len(jobs) + sum(sum(1 for st in sc["steps"] if st[0] != "mutate") for sc in hist) + len(ent)


# ----------------------------------------------------------------------------- corpus

def load_corpus():
    d = os.path.join(vlib.VERIF, "corpus", "C13")
    out = []
    if os.path.isdir(d):
        for n in sorted(os.listdir(d)):
            if n.endswith(".json"):
                out.append((n, json.load(open(os.path.join(d, n)))))
    return out


def run(rep):
    vlib.build_repo_bin()
    vlib.build_harness("c13")
    vlib.build_runner("c13")
    rng = random.Random(rep.seed)
    quick = rep.tier == "quick"
    total_runs = 0
    # corpus first: known-finding witnesses in >= 32 fresh processes, regression cases
    groups = []
    for name, c in load_corpus():
        for mode in c.get("modes", ["none", "zod"]):
            groups.append(build_group(c["case"], c.get("shape", "corpus"), mode, random.Random(1), c.get("runs", 32), 1, 2,
                                      transforms=c.get("transforms", [])))
            groups[-1]["corpus"] = name
    total_runs += execute(groups)
    wit = {}
    for (stream, o), g in zip_results(evaluate(groups, rep.tier), groups):
        rep.add("corpus-" + stream, [o])
        if o.kf:
            wit.setdefault(o.kf, []).append({"corpus": g.get("corpus"), "mode": g["mode"], "runs": o.detail.get("runs"),
                                             "distinct_versions": o.detail.get("distinct_versions")})
    rep.extra["known_finding_witness_runs"] = wit
    for kf, l in wit.items():
        vlib.log("witness %s: %s" % (kf, json.dumps(l)))
    # generated projects
    nproj = 150 if quick else 1500
    nbase = 8 if quick else 32
    shapes = {}
    ties = []
    batch = 50
    done = 0
    while done < nproj:
        groups = []
        for _ in range(min(batch, nproj - done)):
            case, shape = G.gen_project(rng)
            shapes[shape] = shapes.get(shape, 0) + 1
            ties.append(G.tie_census(case))
            mode = "zod" if (done % 2) else "none"
            if not quick or rng.random() < 0.15:
                modes = ["none", "zod"]
            else:
                modes = [mode]
            for m in modes:
                groups.append(build_group(case, shape, m, rng, nbase, 2 if quick else 4, 2 if quick else 3))
            done += 1
        total_runs += execute(groups)
        for stream, o in evaluate(groups, rep.tier):
            rep.add(stream, [o])
    rep.extra["distribution"] = {"projects": nproj, "shapes": shapes, "cli_runs": total_runs,
                                 "base_runs_per_project_and_mode": nbase}
    # names that collide under a coarser key (case, underscores, trailing digit, prefix): pairs per project
    rep.extra["tie_prone_pairs_per_project"] = {
        k: {"min": min(t[k] for t in ties), "mean": round(sum(t[k] for t in ties) / len(ties), 2),
            "projects_with_a_pair": sum(1 for t in ties if t[k] > 0)} for k in ("types", "commands", "events", "fields", "files")}
    inside = sum(st["in_known_class"] for st in rep.streams.values())
    rep.extra["inside_known_class"] = inside
    rep.extra["outside_every_class"] = rep.outcomes - inside
    rep.extra["text_level"] = dict(TEXT_STATS)


def zip_results(results, groups):
    """pair each result with the group it came from (results are emitted group by group)"""
    out = []
    gi = 0
    key = lambda g: json.dumps([g["case"], g["mode"]], sort_keys=True)
    for stream, o in results:
        while gi < len(groups) and key(groups[gi]) != json.dumps([o.case["project"], o.case["mode"]], sort_keys=True):
            gi += 1
        out.append(((stream, o), groups[min(gi, len(groups) - 1)]))
    return out


def replay(rep, payload):
    vlib.build_repo_bin()
    vlib.build_harness("c13")
    vlib.build_runner("c13")
    items = payload.get("disagreeing_cases") or [payload]
    for it in items:
        c = it["case"]
        rng = random.Random(rep.seed)
        tr = [c["variant"]] if c.get("variant") in G.TRANSFORMS else ["reorder", "move", "split", "merge"]
        g = build_group(c["project"], c.get("shape", "replay"), c["mode"], rng, 32, 2, 3, transforms=tr)
        if c.get("transformed"):
            vn = c.get("variant", "given")
            g["variants"][vn] = (c["transformed"], make_runs(c["transformed"], c["mode"], [()] * 4, vn))
        execute([g])
        for stream, o in evaluate([g], rep.tier):
            rep.add(stream, [o])
