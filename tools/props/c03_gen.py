"""C03 case generator: directory layouts with item mixes, rendered (a) to files in a sandbox
directory and (b) to the s-expression the extracted model reads. A case is a JSON value:

  {"where": [dir, ...]      components of the project root below the sandbox directory
   "cwd": k                 the tool runs with cwd = sandbox/where[:k]
   "style": "abs" | "rel" | "dotrel" | "dot" | "dotslash"
   "trail": bool            spell the root with a trailing slash
   "tree": [node, ...]}     entries of the project root
  node  = {"t": "d", "name": s, "ch": [node, ...]}
        | {"t": "f", "name": s, "kind": "parsed", "items": [item, ...]}
        | {"t": "f", "name": s, "kind": "unparsable", "raw": text}
        | {"t": "f", "name": s, "kind": "notutf8", "hex": hex string}
        | {"t": "l", "name": s, "to": "file", "where": "outside" | "inside", ["rel": "a/b.rs",] + the kind/items/raw/hex
           fields of a file node}   symbolic link to a regular file with these contents: "outside" = the file
           is written to <sandbox case dir>/__ext/ (not below the project root), link target absolute;
           "inside" = the file is another node of the tree (same contents, by construction of the generator)
           at the relative path "rel" from the directory of the link, link target relative
        | {"t": "l", "name": s, "to": "dir", "where": "outside" | "self"}   link to a directory: outside one holding
           a decoy command in inner.rs, or "." (a loop for whoever follows it)
        | {"t": "l", "name": s, "to": "dangling"}
  item  = {"k": "fn", "name", "attrs": [{"segs": [...], "text": "#[...]"}], "doc": bool,
           "vis": "", "async": bool, "params": [[name, type text]], "ret": type | None, "recv": bool}
        | {"k": "impl", "ty": s, "fns": [fn items]}
        | {"k": "mod", "name": s, "items": [item, ...]}
        | {"k": "other", "src": text}
  type  = [name, [type, ...]] | ["(tuple)", [type, type, ...]] | "unit"
A function name may be a raw identifier (r#type): the model receives it as written and strips
the marker itself (C03RetType.unraw), the specification calls the result the Rust name.
"""
import os

# ----------------------------------------------------------------- rendering to Rust source


def ty_text(t):
    if t == "unit":
        return "()"
    name, args = t
    if name == "(tuple)":
        return "(%s)" % ", ".join(ty_text(a) for a in args)
    return name if not args else "%s<%s>" % (name, ", ".join(ty_text(a) for a in args))


def fn_text(f, indent=""):
    lines = []
    attrs = list(f["attrs"])
    if f.get("doc"):
        lines.append(indent + "/// Documentation of %s." % f["name"])
    for a in attrs:
        lines.append(indent + a["text"])
    params = ["%s: %s" % (n, t) for n, t in f.get("params", [])]
    if f.get("recv"):
        params = ["&self"] + params
    sg = f.get("sig") or {}
    quals = sg.get("quals", "")
    if f["async"] and ("extern" in quals or "const" in quals):
        quals = "unsafe " if "unsafe" in quals else ""       # async goes with unsafe only
    sig = "%s%s%sfn %s%s(%s)" % ((f["vis"] + " ") if f["vis"] else "", "async " if f["async"] else "", quals, f["name"],
                                 sg.get("generics", ""), ", ".join(params))
    if f["ret"] is not None:
        sig += " -> " + ty_text(f["ret"])
    sig += sg.get("where", "")
    lines.append(indent + sig + " {")
    lines.append(indent + "    " + f.get("body", "todo!()"))
    lines.append(indent + "}")
    return "\n".join(lines)


def item_text(it, indent=""):
    k = it["k"]
    if k == "fn":
        return fn_text(it, indent)
    if k == "impl":
        body = "\n".join(fn_text(f, indent + "    ") for f in it["fns"])
        return "%simpl %s {\n%s\n%s}" % (indent, it["ty"], body, indent)
    if k == "mod":
        body = "\n".join(item_text(x, indent + "    ") for x in it["items"])
        return "%smod %s {\n%s\n%s}" % (indent, it["name"], body, indent)
    return "\n".join(indent + l for l in it["src"].split("\n"))


PRO_TEXT = {
    "bom": ["\ufeff"],
    "shebang": ["#!/usr/bin/env run-cargo-script\n", "#!/bin/sh\n", "#! /usr/bin/env -S cargo +nightly -Zscript\n"],
    "inner": ["#![allow(dead_code)]\n", "#![cfg_attr(not(debug_assertions), windows_subsystem = \"windows\")]\n"],
    "docinner": ["//! Crate level documentation.\n", "/*! block doc */\n"],
    "blank": ["\n", "  \n\n"],
    "comment": ["// a comment\n", "/* a block\n   comment */\n"],
    "frontmatter": ["---\n[dependencies]\nserde = \"1\"\n---\n", "---cargo\npackage.edition = \"2021\"\n---\n"],
}


def file_bytes(n):
    if n["kind"] == "parsed":
        pro = "".join(PRO_TEXT[p][n.get("pro_variant", 0) % len(PRO_TEXT[p])] for p in n.get("pro", []))
        body = "\n\n".join(item_text(it) for it in n["items"])
        text = pro + body + ("\n" if body else "")
        if n.get("crlf"):
            text = text.replace("\n", "\r\n")
        return text.encode("utf-8")
    if n["kind"] == "unparsable":
        return n["raw"].encode("utf-8")
    return bytes.fromhex(n["hex"])


DECOY = "#[tauri::command]\npub fn reached_through_a_directory_link() -> String {\n    todo!()\n}\n"


def write_tree(base, tree, ext):
    """ext: a directory that is not below the project root; receives the targets of outside links."""
    os.makedirs(base, exist_ok=True)
    for n in tree:
        p = os.path.join(base, n["name"])
        if n["t"] == "d":
            write_tree(p, n["ch"], ext)
        elif n["t"] == "l":
            os.makedirs(ext, exist_ok=True)
            k = len(os.listdir(ext))
            if n["to"] == "file" and n["where"] == "outside":
                tgt = os.path.join(ext, "t%d_%s" % (k, n.get("tname", "shared.rs")))
                with open(tgt, "wb") as f:
                    f.write(file_bytes(n))
            elif n["to"] == "file":
                tgt = n["rel"]                      # relative to the directory of the link
            elif n["to"] == "dir" and n["where"] == "outside":
                tgt = os.path.join(ext, "d%d" % k)
                os.makedirs(tgt)
                with open(os.path.join(tgt, "inner.rs"), "w") as f:
                    f.write(DECOY)
            elif n["to"] == "dir":
                tgt = "."
            else:
                tgt = "nowhere/missing.rs"
            os.symlink(tgt, p)
        else:
            with open(p, "wb") as f:
                f.write(file_bytes(n))


def root_and_cwd(case, sandbox):
    """(root string exactly as passed to the tool, absolute cwd)."""
    where = case["where"]
    style = case["style"]
    if style == "abs":
        root, cwd = os.path.join(sandbox, *where), sandbox
    elif style in ("dot", "dotslash"):
        root, cwd = ("." if style == "dot" else "./"), os.path.join(sandbox, *where)
        return root, cwd
    else:
        k = case["cwd"]
        cwd = os.path.join(sandbox, *where[:k])
        root = "/".join(where[k:])
        if style == "dotrel":
            root = "./" + root
    if case.get("trail"):
        root += "/"
    return root, cwd


# ----------------------------------------------------------------- rendering to the model's syntax

def ty_sx(t):
    if t == "unit":
        return ["t", []]
    name, args = t
    if name == "(tuple)":
        return ["t", [ty_sx(a) for a in args]]
    return ["p", [], name, bool(args), [ty_sx(a) for a in args]]


def fn_sx(f):
    return [f["name"], [a["segs"] for a in f["attrs"]], f["async"], None if f["ret"] is None else [ty_sx(f["ret"])]]


def item_sx(it):
    k = it["k"]
    if k == "fn":
        return ["fn", fn_sx(it)]
    if k == "impl":
        return ["impl", [fn_sx(f) for f in it["fns"]]]
    if k == "mod":
        return ["mod", [item_sx(x) for x in it["items"]]]
    return ["other"]


def nm(name):
    """Directory entry names are byte strings. In a case they are python strings in which a byte
    that is not part of valid UTF-8 is a lone surrogate (os.fsdecode convention; json keeps it as
    \\udcXX); the file system calls take such strings as they are, the model gets the bytes."""
    return os.fsencode(name)


def content_sx(n):
    if n["kind"] == "parsed":
        if n.get("pro"):
            return ["source", list(n["pro"]), [item_sx(i) for i in n["items"]]]
        return ["parsed", [item_sx(i) for i in n["items"]]]
    return [n["kind"]]


def node_sx(n):
    if n["t"] == "d":
        return ["d", nm(n["name"]), [node_sx(c) for c in n["ch"]]]
    if n["t"] == "l":
        if n["to"] == "file":
            return ["l", nm(n["name"]), ["file", content_sx(n)]]
        return ["l", nm(n["name"]), [n["to"]]]
    return ["f", nm(n["name"]), content_sx(n)]


def tree_sx(tree):
    return [node_sx(n) for n in tree]


# ----------------------------------------------------------------- generators

CMD_ATTRS = [
    (["tauri", "command"], "#[tauri::command]"),
    (["tauri", "command"], "#[tauri::command]"),
    (["command"], "#[command]"),
    (["tauri", "command"], '#[tauri::command(rename_all = "snake_case")]'),
    (["tauri", "command"], "#[tauri::command(async)]"),
    (["tauri", "command"], "#[::tauri::command]"),
    (["tauri", "command"], "#[tauri :: command]"),
    (["command"], "#[command(async)]"),
]
OTHER_ATTRS = [
    (["inline"], "#[inline]"),
    (["allow"], "#[allow(dead_code)]"),
    (["cfg"], "#[cfg(not(test))]"),
    (["doc"], '#[doc = "attribute doc"]'),
    (["specta", "specta"], "#[specta::specta]"),
    (["tracing", "instrument"], "#[tracing::instrument(skip_all)]"),
    (["must_use"], "#[must_use]"),
]
NEAR_ATTRS = [                      # look like the command attribute, are not
    (["my", "command"], "#[my::command]"),
    (["tauri", "commands"], "#[tauri::commands]"),
    (["tauri", "command", "extra"], "#[tauri::command::extra]"),
    (["commands"], "#[commands]"),
    (["cfg_attr"], "#[cfg_attr(feature = \"x\", tauri::command)]"),
    (["tauri", "Command"], "#[tauri::Command]"),
    (["Command"], "#[Command]"),
    (["x", "tauri", "command"], "#[x::tauri::command]"),
    (["command", "tauri"], "#[command::tauri]"),
]
RET_LEAVES = [["String", []], ["bool", []], ["i32", []], ["u8", []], ["f64", []], "unit", ["User", []], ["Item", []]]
FN_NAMES = ["get_user", "save", "list_items", "ping", "load_config", "delete_item", "greet", "sync_all", "open2",
            "fetch_data", "x", "run_task", "close_window", "a1", "read_file", "update_user_name",
            # raw identifiers (since C01-raw-ident-strip the command is called type / match / move)
            "r#type", "r#match", "r#move"]
PARAM_SETS = [
    [], [], [],
    [["id", "i32"]],
    [["name", "String"], ["age", "Option<u32>"]],
    [["app", "tauri::AppHandle"]],
    [["on_ev", "Channel<String>"]],
    [["app", "AppHandle"], ["query", "String"], ["ch", "tauri::ipc::Channel<i32>"]],
    [["state", "State<'_, Db>"], ["flag", "bool"]],
]
# parameter types as a dimension of discovery: types that look like framework types but are not (or not quite), and
# odd but legal parameters; none may prevent the discovery of this or of any other command
ODD_PARAM_SETS = [
    [["ch", "Channel"]], [["ch", "ipc::Channel"]], [["ch", "tauri::ipc::Channel"]], [["ch", "tauri::Channel"]],
    [["ch", "crate::Channel"]], [["ch", "Channel<String, u8>"]], [["ch", "Option<Channel<String>>"]], [["ch", "&Channel<String>"]],
    [["ch", "Vec<Channel<i32>>"]], [["ch", "Channel<>"]], [["ch", "my::Channel<String>"]], [["ch", "Channel<Channel<u8>>"]],
    [["state", "State"]], [["state", "State<Db>"]], [["state", "tauri::State<'_, Db>"]], [["app", "AppHandle<R>"]],
    [["app", "tauri::AppHandle<R>"]], [["w", "Window"]], [["w", "tauri::Window<R>"]], [["w", "WebviewWindow"]], [["app", "crate::AppHandle"]],
    [["a", "i32"], ["ch", "Channel"], ["b", "String"]],
    [["cb", "impl Fn(String) -> bool"]], [["s", "&'a str"]], [["x", "[u8; 4]"]], [["t", "(i32, String)"]], [["f", "fn(i32) -> i32"]],
    [["d", "Box<dyn Handler>"]], [["p", "*const u8"]], [["(a, b)", "(i32, i32)"]], [["mut x", "i32"]], [["_", "String"]],
    [["_x", "i32"]], [["r#type", "String"]], [["m", "HashMap<String, Vec<Option<User>>>"]], [["n", "!"]], [["q", "<T as Trait>::Out"]],
    [["x", "i32"]] * 1 + [["y%d" % i, "u8"] for i in range(12)],
]
SIGS = [{"generics": "<R: Runtime>"}, {"generics": "<R>", "where": " where R: tauri::Runtime"}, {"generics": "<'a>"},
        {"generics": "<'a, T: Into<String> + 'a, const N: usize>"}, {"quals": "unsafe "}, {"quals": "extern \"C\" "},
        {"quals": "unsafe extern \"C\" "}, {"quals": "const "}, {"generics": "<R: Runtime>", "where": " where R: Send + Sync,"}]
OTHER_ITEMS = [
    "use std::collections::HashMap;",
    "#[derive(Debug, Clone, serde::Serialize, serde::Deserialize)]\npub struct User {\n    pub id: i32,\n    pub name: String,\n}",
    "#[derive(serde::Serialize)]\npub struct Item {\n    pub title: String,\n}",
    "pub const LIMIT: usize = 10;",
    "pub enum Mode { A, B }",
    "mod elsewhere;",
    "pub trait Service { fn call(&self); }",
    "// a comment mentioning #[tauri::command] fn commented_out() {}",
    "static NAME: &str = \"#[tauri::command] fn in_a_string() {}\";",
    "macro_rules! make { () => { #[tauri::command] fn from_macro() {} }; }",
]
UNPARSABLE = [
    "#[tauri::command]\nfn ghost() -> String {\n",
    "#[tauri::command]\nfn ghost( { }\n",
    "#[tauri::command]\nfn ghost() -> { }\n",
    "fn 123() {}\n#[tauri::command]\nfn ghost() {}\n",
    "#[tauri::command]\nfn ghost() {}\nstruct ;\n",
    "let x = 5;\n#[command]\nfn ghost() {}\n",
    "\"unterminated\n#[command] fn ghost() {}\n",
    "#[tauri::command]\npub fn ghost() -> String { String::new() }\n}\n",
    "#[tauri::command\nfn ghost() {}\n",
]
# the CONTENT of unparsable files as a dimension: non-ASCII identifiers / string literals / comments before the
# place where the parser gives up (character column != byte offset), errors at column 0, at the end of a line, on a
# last line without newline, far into a very long line, on line 1 after a byte order mark, NUL bytes, lexer errors.
# Each text holds a ghost command where the syntax allows: a text that parsed after all would show up as a wrapper.
UNPARSABLE_ODD = [
    "#[tauri::command]\npub fn begr\u00fc\u00dfe(name: String -> String { name }\n",
    "#[tauri::command]\nfn \u53d6\u5f97( {\n",
    "#[command]\nfn ghost() { let s = \"\u65e5\u672c\u8a9e\u306e\u30c6\u30ad\u30b9\u30c8\"; let = ; }\n",
    "#[command]\nfn ghost() { let s = \"\U0001f600\U0001f600\U0001f600\"; let = }\n",
    "// \u00dcberschrift \u00e4\u00f6\u00fc\n#[command] fn ghost() -> { }\n",
    "#[command] fn ghost() {}\n/* \u30b3\u30e1\u30f3\u30c8 */ struct ;",
    "#[command] fn ghost() {}\n) \u00e9\n",
    "#[command] fn ghost() {}\nconst \u00c4\u00d6: u8 = ",
    "#[command] fn ghost() {}\nconst \u00c4\u00d6: u8 =\n",
    "#[command] fn ghost() {} " + "/* \u00fc\u00fc */ " * 1500 + "struct ;\n",
    "\ufefffn \u00e9( {\n#[command] fn ghost() {}\n",
    "\ufeff#[command] fn ghost() {} /* \u00e9\u00e9\u00e9 */ }\n",
    "#[command] fn ghost() {}\n\x00\n",
    "fn a\x00\u00e9() {}\n#[command] fn ghost() {}\n",
    "#[command] fn ghost() { '\u00e9\u00e9 }\n",
    "\"\u65e5\u672c unterminated\n#[command] fn ghost() {}\n",
    "/* \u65e5\u672c unterminated\n#[command] fn ghost() {}\n",
    "#[command]\r\nfn gr\u00fc\u00df( {\r\n",
    "#[command] fn ghost() {}\nstruct S { \u540d\u524d: String, \u5e74\u9f62 u8 }\n",
    "#[command] fn ghost() -> Result<\u00c9tat, String { todo!() }\n",
    "\u00e9",
]
UNPARSABLE = UNPARSABLE + UNPARSABLE_ODD + UNPARSABLE_ODD
NOTUTF8 = [
    b"// caf\xe9\n#[tauri::command]\nfn ghost() {}\n",
    b"\xff\xfe#[tauri::command] fn ghost() {}\n",
    b"#[tauri::command]\nfn ghost() -> String { \"\xc3\x28\".into() }\n",
]
DIR_NAMES = ["src", "commands", "api", "nested", "target", "target", ".git", ".git", "targets", "xtarget", "target.d",
             ".github", "git", "y.rs", "utils", "Target", ".gitx", "debug", "hooks"]
RS_NAMES = ["main.rs", "lib.rs", "mod.rs", "commands.rs", "a.rs", "b.rs", "user.rs", "x.y.rs", "target.rs", ".git.rs",
            "..rs", "c.rs", "d.rs", "e.rs"]
NON_RS_NAMES = ["x.rs.bak", "notes.txt", "lib.rs~", "Cargo.toml", ".rs", "U.RS", "a.rsx", "rs", "mod.rs.orig", "a.Rs",
                "README", "a.rs.", "ars"]
# unusual but legal entry names: valid non-ASCII UTF-8, spaces, dots, leading dashes, shell and template
# characters, and names that are NOT valid UTF-8 (\udcXX = the byte XX, see nm)
ODD_DIR_NAMES = ["caf\u00e9", "\u65e5\u672c", "my dir", " lead", "-p", "--force", "a.b", "...", ".hidden", "it's", "a\"b", "a\\b",
                 "{{x}}", "#1", "m\udcfcll", "m\udcfcll", "\udcff\udcfe", "caf\udce9", "target\udce9", "\udce9target", "x\udcc3"]
ODD_RS_NAMES = ["caf\u00e9.rs", "\u65e5\u672c.rs", "my file.rs", " .rs", "-x.rs", "--help.rs", "a..rs", "....rs", "it's.rs", "a\"b.rs",
                "a\\b.rs", "{{x}}.rs", "%s.rs", "caf\udce9.rs", "caf\udce9.rs", "\udcff.rs", "b\udce4r.rs", "x\udcc3.rs", "\u00e9\udce9.rs",
                "a.rs\udce9.rs"]
ODD_NON_RS_NAMES = ["caf\u00e9.txt", "caf\udce9.rs.bak", "x.r\udce9s", "x.rs\udce9", "x.\udce9rs", "\udce9", "-rs", "my file.rs "]
ROOTS_PLAIN = [["proj"], ["proj", "src"], ["app", "src-tauri", "src"], ["xtarget", "p"], ["targets"], ["x", "target.d", "p"],
               ["a", ".gitx", "p"], ["target"], [".git"], ["target", "debug"]]
ROOTS_CLASS = [["x", "target", "proj"], ["w", ".git", "p", "src"], ["target", "debug"], ["target"], ["a", "b", ".git"]]


def gen_ret(rng, depth=0):
    """Return types over the leaves under Result/Option/Vec/HashMap/BTreeMap/tuples, depth <= 2.
    Since C05-2-3-top-level-commas every such type translates at the top-level commas, so types
    whose Ok arm or tuple element prints a comma (Result<Result<..>, E>, Result<HashMap<K, V>, E>,
    (HashMap<K, V>, bool)) are ordinary inputs; before that repair they were kept out
    (class kf_result_ok_has_comma of C05: commands.ts was not even a module)."""
    r = rng.random()
    if depth >= 2 or r < 0.40:
        return rng.choice(RET_LEAVES)
    if r < 0.58:
        return ["Result", [gen_ret(rng, depth + 1), ["String", []]]]
    if r < 0.70:
        return ["Option", [gen_ret(rng, depth + 1)]]
    if r < 0.82:
        return ["Vec", [gen_ret(rng, depth + 1)]]
    if r < 0.92:
        key = rng.choice([["String", []], ["String", []], ["i32", []], ["User", []], ["(tuple)", [["String", []], ["u8", []]]]])
        return [rng.choice(["HashMap", "HashMap", "BTreeMap"]), [key, gen_ret(rng, depth + 1)]]
    return ["(tuple)", [gen_ret(rng, depth + 1) for _ in range(rng.choice([2, 2, 3]))]]


def gen_fn(rng, name, command, method=False):
    attrs = []
    if command:
        segs, text = rng.choice(CMD_ATTRS)
        attrs.append({"segs": segs, "text": text})
    for _ in range(rng.choice([0, 0, 0, 1, 1, 2])):
        segs, text = rng.choice(OTHER_ATTRS)
        attrs.append({"segs": segs, "text": text})
    if not command and rng.random() < 0.35:
        segs, text = rng.choice(NEAR_ATTRS)
        attrs.append({"segs": segs, "text": text})
    rng.shuffle(attrs)
    ret = None
    if rng.random() < 0.8:
        ret = gen_ret(rng)
    return {"k": "fn", "name": name, "attrs": attrs, "doc": rng.random() < 0.3,
            "vis": rng.choice(["", "", "pub", "pub", "pub(crate)", "pub(super)"]),
            "async": rng.random() < 0.4, "params": [list(p) for p in rng.choice(ODD_PARAM_SETS if rng.random() < 0.3 else PARAM_SETS)],
            "ret": ret, "recv": method and rng.random() < 0.6, **({"sig": dict(rng.choice(SIGS))} if rng.random() < 0.15 else {})}


def gen_items(rng, names, depth=0):
    """names: iterator-like list popped for fresh function names (distinct inside one file)."""
    items = []
    for _ in range(rng.choice([0, 1, 1, 2, 2, 3, 4])):
        if not names:
            break
        r = rng.random()
        if r < 0.5:
            items.append(gen_fn(rng, names.pop(), True))
        elif r < 0.68:
            items.append(gen_fn(rng, names.pop(), False))
        elif r < 0.78:
            fns = [gen_fn(rng, names.pop(), rng.random() < 0.7, method=True) for _ in range(rng.choice([1, 2])) if names]
            if fns:
                items.append({"k": "impl", "ty": rng.choice(["User", "Item", "Db"]), "fns": fns})
        elif r < 0.88 and depth < 2:
            sub = gen_items(rng, names, depth + 1) or ([gen_fn(rng, names.pop(), True)] if names else [])
            items.append({"k": "mod", "name": rng.choice(["inner", "tests", "imp"]) + str(depth), "items": sub})
        else:
            items.append({"k": "other", "src": rng.choice(OTHER_ITEMS)})
    if rng.random() < 0.15:
        items.insert(0, {"k": "other", "src": "#![allow(unused)]"})
    return items


def gen_file(rng, name, malformed=False):
    r = rng.random()
    is_rs = name in RS_NAMES
    if is_rs and r < (0.45 if malformed else 0.12):
        return {"t": "f", "name": name, "kind": "unparsable", "raw": rng.choice(UNPARSABLE)}
    # non-UTF-8 contents: since the repair of C03-2 an ordinary input (the file is skipped)
    if r > (0.85 if malformed else 0.94):
        return {"t": "f", "name": name, "kind": "notutf8", "hex": rng.choice(NOTUTF8).hex()}
    names = list(FN_NAMES)
    rng.shuffle(names)
    names = names[:6]
    n = {"t": "f", "name": name, "kind": "parsed", "items": gen_items(rng, names)}
    if rng.random() < 0.25:
        n["pro"] = gen_prologue(rng)
        n["pro_variant"] = rng.randrange(6)
        if rng.random() < 0.08:
            n["items"] = []                      # a file that consists of its prologue only
    if rng.random() < 0.1:
        n["crlf"] = True
    return n


PROLOGUES = [["shebang"], ["shebang"], ["bom"], ["bom", "shebang"], ["shebang", "bom"], ["inner"], ["shebang", "inner"],
             ["blank", "shebang"], ["comment", "shebang"], ["inner", "shebang"], ["shebang", "shebang"], ["bom", "inner"],
             ["blank"], ["comment"], ["docinner"], ["docinner", "inner", "comment"], ["frontmatter"], ["shebang", "frontmatter"],
             ["bom", "blank", "comment"], ["comment", "bom"], ["bom", "shebang", "blank", "inner", "docinner", "comment"]]
PRO_PIECES = ["bom", "shebang", "inner", "docinner", "blank", "comment", "frontmatter"]


def gen_prologue(rng):
    """What stands before the items: sequences syn::parse_file accepts and sequences it rejects.
    Two byte order marks at the very start are outside the domain (content_ok)."""
    if rng.random() < 0.7:
        return list(rng.choice(PROLOGUES))
    while True:
        p = [rng.choice(PRO_PIECES) for _ in range(rng.randint(1, 4))]
        if p[:2] != ["bom", "bom"]:
            return p


def insert(tree, dirs, node):
    """Insert node below the directory path dirs; False when a sibling name is taken."""
    cur = tree
    for d in dirs:
        nxt = None
        for n in cur:
            if n["name"] == d:
                if n["t"] != "d":
                    return False
                nxt = n
        if nxt is None:
            nxt = {"t": "d", "name": d, "ch": []}
            cur.append(nxt)
        cur = nxt["ch"]
    if any(n["name"] == node["name"] for n in cur):
        return False
    cur.append(node)
    return True


def gen_root(rng, in_class_weight=0.12):
    if rng.random() < in_class_weight:
        where = list(rng.choice(ROOTS_CLASS))
        style = rng.choice(["abs", "abs", "dotrel", "rel"])
        cwd = rng.randrange(0, len(where)) if style != "abs" else 0
    else:
        where = list(rng.choice(ROOTS_PLAIN))
        style = rng.choice(["abs", "rel", "rel", "dotrel", "dot", "dotslash"])
        cwd = rng.randrange(0, len(where)) if style in ("rel", "dotrel") else 0
    return {"where": where, "cwd": cwd, "style": style, "trail": rng.random() < 0.25}


def gen_layout(rng, malformed=False, in_class_weight=0.12):
    case = gen_root(rng, in_class_weight)
    tree = []
    nfiles = rng.randint(1, 8)
    tries = 0
    placed = 0
    while placed < nfiles and tries < 40:
        tries += 1
        depth = rng.choice([0, 0, 1, 1, 1, 2, 2, 3])
        odd = rng.random() < 0.3          # this file lives among unusual names
        dirs = [rng.choice(ODD_DIR_NAMES) if odd and rng.random() < 0.6 else rng.choice(DIR_NAMES) for _ in range(depth)]
        if rng.random() < (0.5 if malformed else 0.72):
            name = rng.choice(ODD_RS_NAMES) if odd and rng.random() < 0.6 else rng.choice(RS_NAMES)
        else:
            name = rng.choice(ODD_NON_RS_NAMES) if odd and rng.random() < 0.6 else rng.choice(NON_RS_NAMES)
        if insert(tree, dirs, gen_file(rng, name, malformed)):
            placed += 1
    if rng.random() < 0.15:
        insert(tree, [rng.choice(DIR_NAMES) for _ in range(rng.randint(0, 2))], {"t": "d", "name": rng.choice(["empty", "y.rs", "target"]), "ch": []})
    if rng.random() < (0.5 if malformed else 0.35):
        for _ in range(rng.choice([1, 1, 2])):
            add_link(rng, tree, malformed)
    case["tree"] = tree
    return case


CONTENT_KEYS = ("kind", "items", "raw", "hex", "pro", "pro_variant", "crlf")
LINK_RS_NAMES = ["shared.rs", "common.rs", "link.rs", "x.y.rs", "target.rs"]


def add_link(rng, tree, malformed=False):
    """Insert one symbolic link (see the node grammar at the top of the file)."""
    dirs = [rng.choice(DIR_NAMES) for _ in range(rng.choice([0, 0, 1, 1, 2]))]
    r = rng.random()
    lname = rng.choice(LINK_RS_NAMES) if rng.random() < 0.8 else rng.choice(NON_RS_NAMES)
    if r < 0.45:            # regular file outside the project root (source shared between crates)
        tname = rng.choice(["shared.rs", "shared.rs", "lib.rs", "notes.txt", "noext"])
        f = gen_file(rng, "main.rs", malformed)           # contents as for an .rs file
        n = {"t": "l", "name": lname, "to": "file", "where": "outside", "tname": tname}
        n.update({k: f[k] for k in CONTENT_KEYS if k in f})
        return insert(tree, dirs, n)
    if r < 0.70:            # regular file inside the project root, possibly below target/
        sub = rng.choice([[], [], ["common"], ["target"], [".git"]])
        tname = rng.choice(["orig.rs", "orig.rs", "orig.txt", "gen.rs"])
        f = gen_file(rng, tname if tname.endswith(".rs") else "main.rs", malformed)
        f["name"] = tname
        if not insert(tree, dirs + sub, f):
            return False
        n = {"t": "l", "name": lname, "to": "file", "where": "inside", "rel": "/".join(sub + [tname])}
        n.update({k: f[k] for k in CONTENT_KEYS if k in f})
        return insert(tree, dirs, n)
    if r < 0.88:            # directory
        return insert(tree, dirs, {"t": "l", "name": rng.choice(["linked", "vendor", "x.rs", "loop.rs"]), "to": "dir",
                                   "where": rng.choice(["outside", "outside", "self"])})
    return insert(tree, dirs, {"t": "l", "name": rng.choice(LINK_RS_NAMES), "to": "dangling"})


def one_cmd_file(name, fname="probe"):
    return {"t": "f", "name": name, "kind": "parsed",
            "items": [{"k": "fn", "name": fname, "attrs": [{"segs": ["tauri", "command"], "text": "#[tauri::command]"}], "doc": False,
                       "vis": "pub", "async": False, "params": [], "ret": ["String", []], "recv": False}]}


def path_enumeration():
    """Exhaustive small scope: one command in one file at every directory path of length <= 2
    over a component alphabet x file names x root spellings."""
    comps = ["target", ".git", "src", "targets", "git"]
    files = ["a.rs", "a.rs.bak", ".rs", "target.rs"]
    roots = [
        {"where": ["proj"], "cwd": 0, "style": "abs", "trail": False},
        {"where": ["proj"], "cwd": 0, "style": "rel", "trail": True},
        {"where": ["proj"], "cwd": 0, "style": "dot", "trail": False},
        {"where": ["target"], "cwd": 0, "style": "rel", "trail": False},
        {"where": ["target"], "cwd": 0, "style": "dotrel", "trail": False},
        {"where": ["x", ".git", "p"], "cwd": 1, "style": "rel", "trail": False},
        {"where": ["x", ".git", "p"], "cwd": 0, "style": "abs", "trail": False},
    ]
    dirpaths = [[]] + [[a] for a in comps] + [[a, b] for a in comps for b in comps]
    cases = []
    for r in roots:
        for dp in dirpaths:
            for f in files:
                tree = []
                insert(tree, dp, one_cmd_file(f))
                # a second, always visible command next to the root keeps the output non-empty
                insert(tree, [], one_cmd_file("anchor.rs", "anchor"))
                c = dict(r)
                c["tree"] = tree
                cases.append(c)
    return cases


def multi(t):
    """the printed type contains a comma"""
    return t != "unit" and (len(t[1]) >= 2 or any(multi(a) for a in t[1]))


def ret_shape(f):
    t = f.get("ret")
    out = []
    if f["name"].startswith("r#"):
        out.append("fn_name:raw_identifier")
    if t is None or t == "unit":
        return out

    def walk(t):
        if t == "unit":
            return
        name, args = t
        if name == "Result" and args and multi(args[0]):
            out.append("ret:result_ok_prints_comma")
        if name == "(tuple)" and any(multi(a) for a in args):
            out.append("ret:tuple_element_prints_comma")
        if name == "Vec" and args and args[0] != "unit" and args[0][0] in ("Option", "Vec", "HashMap", "BTreeMap", "(tuple)"):
            out.append("ret:array_of_composite")
        for a in args:
            walk(a)
    walk(t)
    return sorted(set(out))


def name_shape(name):
    b = os.fsencode(name)
    out = []
    try:
        b.decode("utf-8")
        if any(c >= 128 for c in b):
            out.append("name:non_ascii_utf8")
    except UnicodeDecodeError:
        out.append("name:not_utf8")
    if b" " in b:
        out.append("name:space")
    if b.startswith(b"-"):
        out.append("name:leading_dash")
    if any(c in b"'\"\\{}#%" for c in b):
        out.append("name:shell_or_template_char")
    return out


def stats(case, acc):
    def walk(nodes, depth):
        for n in nodes:
            for key in name_shape(n["name"]):
                acc[key] = acc.get(key, 0) + 1
            if n["t"] == "d":
                acc["dir:" + ascii(n["name"])] = acc.get("dir:" + ascii(n["name"]), 0) + 1
                walk(n["ch"], depth + 1)
            elif n["t"] == "l":
                key = "link:" + n["to"] + (":" + n["where"] if "where" in n else "")
                if n["to"] == "file":
                    key += ":" + n["kind"] + (":rs_name" if n["name"].endswith(".rs") and len(n["name"]) > 3 else ":other_name")
                acc[key] = acc.get(key, 0) + 1
                if n["to"] == "file" and n["kind"] == "parsed":
                    items(n["items"], True)
            else:
                acc["file_kind:" + n["kind"]] = acc.get("file_kind:" + n["kind"], 0) + 1
                if n["kind"] == "unparsable":
                    k_ = "unparsable:non_ascii_text" if any(ord(ch) > 127 for ch in n["raw"]) else "unparsable:ascii_text"
                    acc[k_] = acc.get(k_, 0) + 1
                acc["file_depth:%d" % depth] = acc.get("file_depth:%d" % depth, 0) + 1
                ext = "rs" if n["name"].endswith(".rs") and len(n["name"]) > 3 else "other"
                acc["file_ext:" + ext] = acc.get("file_ext:" + ext, 0) + 1
                if n["kind"] == "parsed":
                    if n.get("pro"):
                        acc["prologue:" + "+".join(n["pro"])] = acc.get("prologue:" + "+".join(n["pro"]), 0) + 1
                    if n.get("crlf"):
                        acc["line_endings:crlf"] = acc.get("line_endings:crlf", 0) + 1
                    items(n["items"], True)

    def items(its, top):
        for it in its:
            acc["item:" + it["k"] + (":top" if top else ":nested")] = acc.get("item:" + it["k"] + (":top" if top else ":nested"), 0) + 1
            if it["k"] == "fn":
                for a in it["attrs"]:
                    acc["attr:" + a["text"]] = acc.get("attr:" + a["text"], 0) + 1
                for key in ret_shape(it):
                    acc[key] = acc.get(key, 0) + 1
                for _, ty in it.get("params", []):
                    if ty.split("<")[0].split("::")[-1] in ("Channel", "State", "AppHandle", "Window", "WebviewWindow"):
                        k_ = "param:framework_like:" + ("with_args" if "<" in ty else "bare")
                        acc[k_] = acc.get(k_, 0) + 1
                    elif "Channel" in ty:
                        acc["param:channel_nested"] = acc.get("param:channel_nested", 0) + 1
                if it.get("sig"):
                    acc["sig:" + "/".join(sorted(it["sig"]))] = acc.get("sig:" + "/".join(sorted(it["sig"])), 0) + 1
            elif it["k"] == "impl":
                for f in it["fns"]:
                    for a in f["attrs"]:
                        acc["attr_in_impl:" + a["text"]] = acc.get("attr_in_impl:" + a["text"], 0) + 1
            elif it["k"] == "mod":
                items(it["items"], False)
    acc["root_style:" + case["style"]] = acc.get("root_style:" + case["style"], 0) + 1
    walk(case["tree"], 0)
