"""C17 - a failed run is never remembered as up to date. Faults without hooks: a directory pre-created under
the name of the file to be written (EISDIR) for each write of the run, or a regular file where the output
directory should be; injected into a first run and into a run after an output-changing (hashed) edit, on
both entry points; then the obstacle is removed and two recovery runs follow. Every run is compared with the
extracted run/cache model (fault = index of the failing write in the plan); the oracle (c17_ok, extracted)
is applied to what the implementation did."""
import copy
import os
import random
import shutil

from tools import vlib
from tools.vlib import Outcome, sx
from tools.props import c08_common as C

MANIFEST = {
    "level_text": "Coq theorems (Properties/C17.v, no axioms) about the run/cache state machine of Model/C08Run.v (writes in the order types.ts, commands.ts, [events.ts], index.ts, [dependency-graph.txt, .dot], record last; a failing record write is a warning), faithful instance: for every state, discovery order and position k of the failing write, a non-forced run that reaches the writes reports Failure when a file of the plan cannot be written, leaves the record untouched and exactly the first k files written; when only the record cannot be written it reports Success with all files in place and no record; afterwards the record never vouches for the current inputs; the next non-forced run regenerates everything and records the current fingerprint; a run that changes the record has written every file first. Lift to histories (Model/C17History.v, Proofs/C17HistoryProofs.v): for every list of run steps - forced or not, fault-free or failing at any write k, each optionally preceded by an arbitrary edit - from the empty directory, the invariant Inv17 (a record on disk is the fingerprint of the generation that wrote it and, unless a failed run has written over the output since, every file of that generation is in place and complete) holds (C17_inv_init, C17_inv_step, C17_history, induction over fold_left), and after any such history a non-forced run that reports success leaves exactly the files of a fresh generation, one that reports up to date does so when the output is clean and outside C08's recorded class (C17_history_success_means_current). Tied to /repo by injecting write faults at open time (EISDIR, unusable output path) and after a successful open (file pre-created as a symbolic link to /dev/full; RLIMIT_FSIZE 0 - the failed write leaves no file behind since the repair C17-1) into first runs, runs after hashed edits and runs over a matching record after a lost file, through every entry point that generates - `generate`, the `init` subcommand, BuildSystem::generate_at_build_time (all compared step by step with the extracted model) and generate_from_config (no record; judged by the oracle and the write plan) - for small and > 8 KiB contents, followed by recovery runs. Round 7: faults after the open are a fault kind of the model (Model/C17Trunc.v, Proofs/C17TruncProofs.v): C17_fault_post (C17_fault for FPost k n rm_ok, every prefix length n, removal succeeding or failing: Failure, record untouched, first k files written, the k-th absent or cut to n units, no vouching, next run regenerates), C17_fault_recovery (after ANY failed run, forced or not, over any record, open or post-open fault, outside kf_C17_rmfail: the presence / record test refuses the hit and the next non-forced run regenerates everything), C17_rmfail_refuted (inside the class - removal failed over a matching record - the next run answers up to date over the cut file: known finding C17-2, confirmed on the real binary, CLI and build path), C17_inv_step_post / C17_history_post (Inv17 over histories with the refined faults). Run time: rmfail cases (forced / after an edit / after the loss of another file, CLI and build, none and zod) compared with the extracted run17_c (c17_post).",
    "design_ref": "DESIGN.md section 5 C08, C14, C17; section 11 fault_recovery",
    "level_note": "Post-open faults are inside the Gallina model since round 7 (Model/C17Trunc.v: FPost k n rm_ok = the k-th write fails after the target was truncated and n units were written, then write_or_remove removes it, rm_ok = false: the removal fails and the cut file stays; theorems for every k, every n, both rm_ok; cut is a parameter of the abstract section, the concrete cut_tree cuts the view, not the byte text). The fault streams of earlier rounds (fsize, fsize_graph, devfull, directory obstacles) are still compared with the whole-write fault of Model/C08Run.run (which equals FPost with rm_ok = true by definition of run17: C17_fault_post) and judged by the oracle; only the new rmfail cases (file size limit 0 + output directory without write permission, tool run as uid 65534 when the check runs as root) are compared field by field with the extracted run17_c (c17_post). Only n = 0 is exercised at run time (RLIMIT_FSIZE 0 leaves an empty file; fsize_graph cuts at 3072 bytes but with the removal succeeding); n > 0 with a failing removal is covered by theorem only. kf_C17_rmfail is wider than the defect: it contains [matching record, another file lost, removal failed], where the presence test still refuses the hit and the property holds (model and implementation agree: regenerated) - the class only matters for cases whose oracle fails. A crash of the process in the middle of a write (no removal attempted at all) is the same state as FPost k n false. Not modelled: a removal that succeeds on a path that is a symbolic link (the link goes, the cut target stays elsewhere - exercised by the linked stream, judged by the oracle); the unrestricted history statement (C17_history_full_statement, not asserted) is false on the model: C17_history_refuted is the computed witness [generate A (no events); edit to B (events) and fail at events.ts; revert to A; run] = up to date over B's types.ts/commands.ts - an edit (a revert to the recorded inputs) between fault and recovery, outside the property's quantifier; since C17-1 a revert is only dangerous when the failing file is not in the reverted plan (otherwise the removed file fails the presence test); a failing write of .typecache alone is reported as success with a warning (exit 0), which the check accepts because no binding is missing and no record is kept; recovery is claimed for orders with the same fingerprint (single-file projects in the check).",
    "technique": "Rocq/Coq proof over hand-written model + correspondence check (extracted OCaml vs real binary and Rust driver)"
}

RULE = ("fault kinds {directory under the file name, symlink to /dev/full, RLIMIT_FSIZE 0} x entries {cli, build, init; libgen separately} x small/large content; fault: {types.ts, commands.ts, events.ts, index.ts, dependency-graph.txt, dependency-graph.dot, .typecache, output path is a "
        "regular file} x {first run, run after a hashed output-changing edit, run over a matching record after the loss of that file and/or another one}; two consecutive faults at different writes;  x {CLI, build} x {none, zod} x {visualize_deps on/off where "
        "it matters} x 13 hashed edits; each followed by removal of the "
        "obstacle and two recovery runs. All cases are non-trivial; distinct = distinct case descriptions")
TRUSTED = ["fault injection by pre-created directories / a regular file at the output path (no hook in /repo)",
           "python renderer description -> Rust source / typegen.json / analysed data (tools/props/c08_common.py)"]
ASSUMPTIONS = ["a write fault is the failure of one fs::write call, before the open or after it (file truncated, a prefix written), followed by the removal attempt of write_or_remove, which may fail"]

TARGETS = ["types.ts", "commands.ts", "events.ts", "index.ts", "dependency-graph.txt", "dependency-graph.dot", C.CACHE, "<outdir>"]
EDITS_Q = ["param_type", "field_add", "cmd_add", "mode", "enum_variant"]
EDITS_T = EDITS_Q + ["ret_type", "channel", "field_type", "param_case", "field_case", "type_mapping", "serde_skip", "cmd_rename"]


def start_desc(case):
    d = C.base_project()
    d["cfg"]["validation_library"] = case["mode"]
    d["cfg"]["visualize_deps"] = bool(case.get("viz"))
    if case.get("no_events"):
        d["files"][0]["events"] = []
    if case.get("kind") == "fsize_graph":
        # dependency-graph.txt prints the file path of every command: a long file name makes it the largest output,
        # so a file size limit between the two lets every binding through and cuts the graph
        d["files"][0]["path"] = "m" + "x" * 150 + ".rs"
        for i in range(12):
            d["files"][0]["commands"].append({"name": "c%d" % i, "async": False, "rename_all": None, "params": [],
                                              "ret": "String", "channels": []})
    if case.get("large"):
        # types.ts and commands.ts well above the 8 KiB of a default BufWriter (index.ts and events.ts stay small)
        for i in range(70):
            d["files"][0]["commands"].append({"name": "bulk_command_number_%d" % i, "async": bool(i % 2), "rename_all": None,
                                              "params": [{"name": "first_argument", "type": "u32"},
                                                         {"name": "second_argument", "type": "Option<String>"}],
                                              "ret": "Result<User, String>", "channels": []})
    return d


def plan_of(desc):
    p = ["types.ts", "commands.ts"]
    if any(f["events"] for f in desc["files"]):
        p.append("events.ts")
    p.append("index.ts")
    if desc["cfg"]["visualize_deps"]:
        p += C.GRAPH_FILES
    return p


def place_obstacle(w, t, plan, steps, kind="dir"):
    """Make the write of t fail. kind dir: a directory stands where the file is to be written (open fails, EISDIR; the
    file, if any, is lost); t = <outdir>: a regular file stands where the output directory should be.
    kind devfull: a symbolic link to /dev/full stands there: the open succeeds, the write fails (ENOSPC).
    Returns (fault index, is binding)."""
    if kind == "devfull":
        os.makedirs(w.out(), exist_ok=True)
        if os.path.isfile(w.out(t)):
            os.remove(w.out(t))
            steps.append(["delete", C.model_file_name(t)])
        os.symlink("/dev/full", w.out(t))
        return (plan.index(t), True) if t in plan else (None, False)
    if t == "<outdir>":
        if os.path.isdir(w.out()):
            shutil.rmtree(w.out())
            for n in C.BINDING_FILES + C.GRAPH_FILES:
                steps.append(["delete", C.model_file_name(n)])
            steps.append(["dropcache"])
        open(w.out(), "w").write("not a directory")
        return 0, True
    os.makedirs(w.out(), exist_ok=True)
    if os.path.isfile(w.out(t)):
        os.remove(w.out(t))
        steps.append(["dropcache"] if t == C.CACHE else ["delete", C.model_file_name(t)])
    os.makedirs(w.out(t))
    if t == C.CACHE:
        return len(plan), False
    if t in plan:
        return plan.index(t), True
    return None, False                 # this file is not written under these inputs: no fault occurs


UNPRIV = 65534


class World17(C.World):
    """World whose tool runs can be made as an unprivileged user (uid set): the checks usually run as root, for whom a
    read-only directory is no obstacle; as nobody, a generated file in a directory without write permission can be opened
    and truncated but not removed."""
    uid = None

    def own(self):
        if os.geteuid() != 0:
            return
        self.uid = UNPRIV
        for d, _, fs in os.walk(self.sb.root):
            os.chown(d, UNPRIV, UNPRIV)
            for f in fs:
                os.chown(os.path.join(d, f), UNPRIV, UNPRIV)

    def _exec(self, argv, stdin=None, fsize0=False):
        if self.uid is None:
            return super()._exec(argv, stdin=stdin, fsize0=fsize0)
        import subprocess
        if fsize0:
            blocks = 0 if fsize0 is True else int(fsize0)
            argv = ["/bin/sh", "-c", "trap '' XFSZ; ulimit -f %d; exec \"$@\"" % blocks, "sh"] + list(argv)
        try:
            r = subprocess.run(argv, cwd=self.sb.root, input=stdin, stdout=subprocess.PIPE, stderr=subprocess.STDOUT,
                               text=True, env=vlib.ENV, timeout=120, user=self.uid, group=self.uid)
            return r.returncode, r.stdout
        except subprocess.TimeoutExpired:
            return -1, "TIMEOUT"


def remove_obstacle(w, t):
    """Take the obstacle away again, whatever the tool did to it (a run that deletes it must not crash the check)."""
    p = w.out() if t == "<outdir>" else w.out(t)
    if os.path.islink(p) or os.path.isfile(p):
        if t != "<outdir>" and not os.path.islink(p):
            return                      # the tool replaced the obstacle by a regular file
        os.remove(p)
    elif os.path.isdir(p) and t != "<outdir>":
        try:
            os.rmdir(p)
        except OSError:
            shutil.rmtree(p, ignore_errors=True)


def run_fault(case):
    """timing: first | after_edit (run; hashed edit) | after_loss (run; nothing edited: the record matches, the fault
    hits the regeneration the presence test asks for). lost: a further output file deleted before the faulty run.
    second: after the first faulty run the obstacle moves to this target and a second faulty run follows."""
    desc = start_desc(case)
    sched = [[0], [0] if desc["cfg"].get("type_mappings") else []]
    steps, obs = [], {}
    with vlib.Sandbox("c17") as sb:
        w = World17(sb, case["entry"])
        w.set_desc(desc)
        if case.get("rmfail"):
            w.own()
        if case["timing"] in ("after_edit", "after_loss", "forced"):
            r0 = w.run()
            steps.append(["run", sched, False, None])
            obs["first"] = r0["decision"]
        if case["timing"] == "after_edit":
            desc = C.apply_edit(desc, case["edit"])
            w.set_desc(desc)
            sched = [[0], [0] if desc["cfg"].get("type_mappings") else []]
            steps.append(["set", C.sx_project(desc), C.sx_cfg(desc["cfg"])])
        plan = plan_of(desc)
        t = case["target"]
        kind0 = case.get("kind", "dir")
        if case.get("linked"):
            # the generated file is a symbolic link to a regular file (moved elsewhere inside / outside the output
            # directory and linked back): same content, so nothing changes for the model
            lt = plan[0] if kind0 == "fsize" else t
            if os.path.isfile(w.out(lt)) and not os.path.islink(w.out(lt)):
                dest = w.out("moved_" + lt) if case["linked"] == "inside" else sb.path("elsewhere_" + lt)
                os.replace(w.out(lt), dest)
                os.symlink(dest, w.out(lt))
                obs["link_target"] = dest
        if case.get("lost") and os.path.isfile(w.out(case["lost"])):
            os.remove(w.out(case["lost"]))
            steps.append(["delete", C.model_file_name(case["lost"])])
        kind = case.get("kind", "dir")
        if kind == "fsize_graph":
            t = "dependency-graph.txt"
            k, binding = plan.index(t), True
        elif kind == "fsize":
            # no obstacle in the directory: the process runs with RLIMIT_FSIZE = 0, every write after an open fails
            # (EFBIG); the first write of the plan is the one that fails, and File::create has truncated the file
            t = plan[0]
            k, binding = 0, True
        else:
            k, binding = place_obstacle(w, t, plan, steps, kind)
        ref_entry = "cli" if case["entry"] in ("init", "libgen") else case["entry"]
        ref = C.reference(desc, ref_entry)
        ref_rec = reference_record(desc, ref_entry)

        def state(r):
            rec = w.cache_record()
            matches = bool(rec and ref_rec and rec.get("combined_hash") == ref_rec.get("combined_hash") and rec.get("version") == 1)
            # "the tool vouches": a non-forced run would answer up to date = matching record and every file of the plan a file
            vouches = matches and all(os.path.isfile(w.out(n)) for n in plan)
            mi, di, _ = C.stale_files(w, desc) if os.path.isdir(w.out()) else (sorted(ref["files"]), [], [])
            return {"decision": r["decision"], "rc": r["rc"], "missing": mi, "different": di, "vouches": vouches,
                    "record_matches": matches, "rewritten": r["rewritten"], "text": r["text"][-300:]}
        # ---- the faulty run(s)
        before_files = set(n for n, v in w.stat().items() if v != "dir")
        forced = case["timing"] == "forced"            # nothing edited: the run writes because it is forced
        if forced and case["entry"] != "cli":
            tmp = copy.deepcopy(desc)
            tmp["cfg"]["force"] = True
            w.set_desc(tmp)
            steps.append(["set", C.sx_project(tmp), C.sx_cfg(tmp["cfg"])])
        steps_before = list(steps)
        if case.get("rmfail"):
            # the removal of the truncated file is made to fail: the output directory loses its write permission (the
            # generated files keep theirs), so File::create truncates, the write fails (EFBIG), remove_file fails (EACCES)
            os.chmod(w.out(), 0o555)
        rf = w.run(force=(forced and case["entry"] == "cli"), fsize0={"fsize": True, "fsize_graph": 6}.get(kind, False))
        if case.get("rmfail"):
            os.chmod(w.out(), 0o755)
        steps.append(["run", sched, forced and case["entry"] == "cli", C.opt(k)])
        steps_between = []
        if forced and case["entry"] != "cli":
            w.set_desc(desc)
            steps.append(["set", C.sx_project(desc), C.sx_cfg(desc["cfg"])])
            steps_between.append(steps[-1])
        if case.get("rmfail"):
            left = os.path.isfile(w.out(t))
            if left:
                steps.append(["corrupt", C.model_file_name(t)])     # for the trace of the later runs only
            base0 = start_desc(case)
            obs["post_query"] = sx([C.sx_project(base0), C.sx_cfg(base0["cfg"]), steps_before, sched,
                                    forced and case["entry"] == "cli", k, 0, False, steps_between])
            obs["left"] = left
        obs["fault"] = state(rf)
        obs["record_matched_before"] = None
        if kind in ("fsize", "fsize_graph"):
            # what the failed write left: an empty file (the model records the truncation as a step of its own)
            truncated = rf["decision"] == "failed" and os.path.isfile(w.out(t)) and \
                w.files().get(t) != ref["files"].get(t)
            if obs.get("link_target"):
                obs["fault"]["link_left"] = os.path.islink(w.out(t))
                obs["fault"]["link_target_size"] = os.path.getsize(obs["link_target"]) if os.path.exists(obs["link_target"]) else None
            obs["fault"]["truncated"] = truncated
            obs["fault"]["existed_before"] = t in before_files
            # since the repair C17-1 nothing may be left under that name; an empty file here is the old behaviour and is
            # not mirrored in the model, so it shows as a disagreement and, after the recovery run, as a violation
        if case.get("second"):
            remove_obstacle(w, t)
            t = case["second"]
            k2, binding2 = place_obstacle(w, t, plan, steps)
            rf2 = w.run()
            steps.append(["run", sched, False, C.opt(k2)])
            obs["fault2"] = state(rf2)
            obs["binding2"] = binding2
        # ---- remove the obstacle, recover
        if kind not in ("fsize", "fsize_graph"):
            remove_obstacle(w, t)
        r1 = w.run()
        steps.append(["run", sched, False, None])
        mi1, di1, _ = C.stale_files(w, desc)
        rec1 = w.cache_record()
        obs["recovery"] = {"decision": r1["decision"], "missing": mi1, "different": di1,
                           "record_as_fresh": bool(rec1 and ref_rec and rec1 == ref_rec), "text": r1["text"][-200:]}
        r2 = w.run()
        steps.append(["run", sched, False, None])
        obs["recovery2"] = {"decision": r2["decision"]}
    base = start_desc(case)
    obs["binding"] = binding
    obs["k"] = k
    obs["kind"] = kind
    obs["target"] = t
    return sx([C.sx_project(base), C.sx_cfg(base["cfg"]), steps]), obs, desc


_rr = {}


def reference_record(desc, entry):
    """The .typecache a fresh generation of desc writes (deterministic: fixed SipHash keys, single file)."""
    key = (C.desc_hash(desc), entry)
    if key not in _rr:
        with vlib.Sandbox("c17ref") as sb:
            w = C.World(sb, entry)
            w.set_desc(desc)
            w.run()
            _rr[key] = w.cache_record()
    return _rr[key]


def dec(d):
    return d if d in ("no_commands", "up_to_date", "regenerated", "failed") else "failed"


def eval_fault(cases):
    res = vlib.pmap(run_fault, cases)
    tr = vlib.run_runner("c17-trace", [r[0] for r in res])
    q = []
    for _, o, _ in res:
        f, r = o["fault"], o["recovery"]
        q.append(sx([o["binding"], dec(f["decision"]), f["vouches"], not f["missing"] and not f["different"],
                     dec(r["decision"]), not r["missing"] and not r["different"], r["record_as_fresh"]]))
    orc = vlib.run_runner("c17-oracle", q)
    recq = []
    for _, o, _ in res:
        for key in ("fault", "fault2"):
            if key in o:
                recq.append(sx([dec(o[key]["decision"]), C.CACHE in o[key]["rewritten"]]))
    rec_it = iter(vlib.run_runner("c17-record", recq))
    post_it = iter(vlib.run_runner("c17-post", [o["post_query"] for _, o, _ in res if "post_query" in o]))
    outs = []
    for case, (_, o, desc), t, ok_s in zip(cases, res, tr, orc):
        rec_ok = all(next(rec_it) == "true" for key in ("fault", "fault2") if key in o)
        two = "fault2" in o
        runs = t[-4:] if two else t[-3:]
        mf, mr, mr2 = runs[0], runs[-2], runs[-1]
        f, r = o["fault"], o["recovery"]
        f_missing = set(C.model_file_name(n) for n in f["missing"])
        f_diff = set(C.model_file_name(n) for n in f["different"])
        corr = (f["decision"] == mf[0] and f_missing == set(mf[1]) and f_diff <= set(mf[2])
                and f["vouches"] == (mf[4] == "true")
                and r["decision"] == mr[0] and set(C.model_file_name(n) for n in r["missing"]) == set(mr[1])
                and set(C.model_file_name(n) for n in r["different"]) <= set(mr[2])
                and o["recovery2"]["decision"] == mr2[0])
        ok = ok_s == "true" and rec_ok and o["recovery2"]["decision"] == "up_to_date"
        kf = None
        if "post_query" in o:
            # post-open fault whose removal fails: judged against run17_c (Model/C17Trunc.v), the trace only supplies the
            # second recovery run
            po = next(post_it)
            cls, p_fault, p_left, p_complete, p_vouches, p_rec, p_cur = po
            corr = (f["decision"] == p_fault and o["left"] == (p_left == "true")
                    and bool(f.get("truncated")) == (p_left == "true" and p_complete != "true")
                    and f["vouches"] == (p_vouches == "true") and r["decision"] == p_rec
                    and (not r["missing"] and not r["different"]) == (p_cur == "true")
                    and o["recovery2"]["decision"] == mr2[0])
            if cls == "true":
                kf = "C17-2"
            detail_post = po
        if two:
            f2, m2 = o["fault2"], runs[1]
            corr = corr and f2["decision"] == m2[0] and sorted(C.model_file_name(n) for n in f2["missing"]) == sorted(m2[1]) \
                and f2["vouches"] == (m2[4] == "true")
            ok = ok and (f2["decision"] == "failed" or not o["binding2"]) and not (f2["vouches"] and (f2["missing"] or f2["different"]))
        detail = {"impl": o, "model": {"fault": mf, "recovery": mr, "recovery2": mr2}}
        if "post_query" in o:
            detail["model"]["post"] = detail_post
        if not (corr and ok):
            detail["sources"] = {fl["path"]: C.render_rs(fl) for fl in desc["files"]}
            detail["config"] = C.render_cfg(desc["cfg"])
        outs.append(Outcome(case, corr, ok, kf=kf, detail=detail, nontrivial=True))
    return outs


def fault_cases(tier, rng):
    cases = []
    edits = EDITS_T
    for entry in ("cli", "build"):
        for mode in ("none", "zod"):
            for t in TARGETS:
                vizs = (True,) if t.startswith("dependency-graph") else (False, True)
                for viz in vizs:
                    cases.append({"entry": entry, "mode": mode, "viz": viz, "target": t, "timing": "first"})
                    for e in edits:
                        if e == "mode" and mode == "zod" and tier == "quick":
                            continue
                        cases.append({"entry": entry, "mode": mode, "viz": viz, "target": t, "timing": "after_edit", "edit": e})
            # the record matches and a file is lost: the fault hits the regeneration the presence test asks for
            for t in TARGETS:
                for viz in ((True,) if t.startswith("dependency-graph") else (False, True)):
                    cases.append({"entry": entry, "mode": mode, "viz": viz, "target": t, "timing": "after_loss"})
                    for lost in ("index.ts", "events.ts", "types.ts"):
                        if lost != t:
                            cases.append({"entry": entry, "mode": mode, "viz": viz, "target": t, "timing": "after_loss", "lost": lost})
            # post-open fault whose removal fails too (output directory without write permission): the truncated file stays.
            # forced: the record matches = class C17-2; after_edit: the record test refuses; after_loss of another file: the
            # presence test refuses
            cases.append({"entry": entry, "mode": mode, "viz": False, "target": "types.ts", "timing": "forced", "kind": "fsize", "rmfail": True})
            cases.append({"entry": entry, "mode": mode, "viz": True, "target": "types.ts", "timing": "forced", "kind": "fsize", "rmfail": True})
            for e in ("field_add", "cmd_add"):
                cases.append({"entry": entry, "mode": mode, "viz": False, "target": "types.ts", "timing": "after_edit", "edit": e,
                              "kind": "fsize", "rmfail": True})
            cases.append({"entry": entry, "mode": mode, "viz": False, "target": "types.ts", "timing": "after_loss", "lost": "index.ts",
                          "kind": "fsize", "rmfail": True})
            # two consecutive faults at different writes
            for t, t2 in (("types.ts", "index.ts"), ("events.ts", "commands.ts"), ("index.ts", "dependency-graph.txt"),
                          ("dependency-graph.dot", "events.ts"), ("commands.ts", C.CACHE), (C.CACHE, "types.ts")):
                for timing in ("first", "after_edit", "after_loss"):
                    c = {"entry": entry, "mode": mode, "viz": True, "target": t, "second": t2, "timing": timing}
                    if timing == "after_edit":
                        c["edit"] = "field_add"
                    cases.append(c)
            # faults after a successful open: the file pre-created as a symbolic link to /dev/full (ENOSPC at the write)
            for t in TARGETS[:6]:
                viz = t.startswith("dependency-graph")
                for large in (False, True):
                    cases.append({"entry": entry, "mode": mode, "viz": viz, "target": t, "timing": "first", "kind": "devfull", "large": large})
                    cases.append({"entry": entry, "mode": mode, "viz": viz, "target": t, "timing": "after_edit", "edit": "field_add",
                                  "kind": "devfull", "large": large})
                for e in ("cmd_add", "param_type"):
                    cases.append({"entry": entry, "mode": mode, "viz": viz, "target": t, "timing": "after_edit", "edit": e, "kind": "devfull"})
                cases.append({"entry": entry, "mode": mode, "viz": viz, "target": t, "timing": "after_loss", "kind": "devfull"})
            # ... and RLIMIT_FSIZE = 0 (every write fails after File::create has truncated the file: a full disk)
            for large in (False, True):
                cases.append({"entry": entry, "mode": mode, "viz": False, "target": "types.ts", "timing": "first", "kind": "fsize", "large": large})
                for e in ("field_add", "cmd_add"):
                    cases.append({"entry": entry, "mode": mode, "viz": False, "target": "types.ts", "timing": "after_edit", "edit": e,
                                  "kind": "fsize", "large": large})
            for lost in ("types.ts", "index.ts", "events.ts", "commands.ts"):
                cases.append({"entry": entry, "mode": mode, "viz": False, "target": "types.ts", "timing": "after_loss", "kind": "fsize", "lost": lost})
            # a limit that lets the bindings through and cuts dependency-graph.txt
            if mode == "none":
                cases.append({"entry": entry, "mode": mode, "viz": True, "target": "dependency-graph.txt", "timing": "first", "kind": "fsize_graph"})
                cases.append({"entry": entry, "mode": mode, "viz": True, "target": "dependency-graph.txt", "timing": "after_edit",
                              "edit": "cmd_add", "kind": "fsize_graph"})
                for lost in ("dependency-graph.txt", "index.ts"):
                    cases.append({"entry": entry, "mode": mode, "viz": True, "target": "dependency-graph.txt", "timing": "after_loss",
                                  "kind": "fsize_graph", "lost": lost})
            # generated files that are symbolic links to regular files x faults after the open x [failed run; plain run]
            for linked in ("inside", "outside"):
                for timing in ("forced", "after_edit", "after_loss"):
                    c = {"entry": entry, "mode": mode, "viz": False, "target": "types.ts", "timing": timing, "kind": "fsize", "linked": linked}
                    if timing == "after_edit":
                        c["edit"] = "field_add"
                    if timing == "after_loss":
                        c["lost"] = "index.ts"
                    cases.append(c)
                    if mode == "none":
                        g = dict(c, viz=True, target="dependency-graph.txt", kind="fsize_graph")
                        cases.append(g)
            for timing in ("forced",):
                cases.append({"entry": entry, "mode": mode, "viz": False, "target": "types.ts", "timing": timing, "kind": "fsize"})
                for t in ("commands.ts", "index.ts"):
                    cases.append({"entry": entry, "mode": mode, "viz": False, "target": t, "timing": timing, "kind": "devfull"})
                    cases.append({"entry": entry, "mode": mode, "viz": False, "target": t, "timing": timing, "kind": "dir"})
            # a project without events: events.ts is not in the plan, the obstacle is harmless
            cases.append({"entry": entry, "mode": mode, "viz": False, "target": "events.ts", "timing": "first", "no_events": True})
    # the init subcommand runs a generation too (flags only: library, visualize_deps); every fault kind
    for mode in ("none", "zod"):
        for t in TARGETS:
            viz = t.startswith("dependency-graph")
            for kind in (("dir", "devfull") if t in TARGETS[:6] else ("dir",)):
                cases.append({"entry": "init", "mode": mode, "viz": viz, "target": t, "timing": "first", "kind": kind})
                cases.append({"entry": "init", "mode": mode, "viz": viz, "target": t, "timing": "after_loss", "kind": kind})
                for e in ("field_add", "cmd_add", "param_type", "enum_variant"):
                    cases.append({"entry": "init", "mode": mode, "viz": viz, "target": t, "timing": "after_edit", "edit": e, "kind": kind})
    return cases


def libgen_cases():
    cases = []
    for mode in ("none", "zod"):
        for large in (False, True):
            for timing in ("first", "after_edit"):
                for t in ("types.ts", "commands.ts", "events.ts", "index.ts"):
                    for kind in ("dir", "devfull"):
                        cases.append({"entry": "libgen", "mode": mode, "target": t, "kind": kind, "timing": timing, "large": large})
                cases.append({"entry": "libgen", "mode": mode, "target": "<outdir>", "kind": "dir", "timing": timing, "large": large})
                cases.append({"entry": "libgen", "mode": mode, "target": "types.ts", "kind": "fsize", "timing": timing, "large": large})
    return cases


def run_libgen(case):
    """generate_from_config: no record is read or written, every call generates; a failing write must come back as Err."""
    desc = start_desc(dict(case, viz=False))
    obs = {}
    with vlib.Sandbox("c17l") as sb:
        w = C.World(sb, "libgen")
        w.set_desc(desc)
        if case["timing"] == "after_edit":
            obs["first"] = w.run()["decision"]
            desc = C.apply_edit(desc, "field_add")
            w.set_desc(desc)
        plan = [n for n in plan_of(desc) if not n.startswith("dependency-graph")]
        t, kind = case["target"], case["kind"]
        if kind == "fsize":
            k = 0
        else:
            k, _ = place_obstacle(w, t, plan, [], kind)
        rf = w.run(fsize0=(kind == "fsize"))
        st = w.stat()
        present = [n for n in plan if st.get(n) not in (None, "dir") and len(st[n][2]) > 0]
        obs["fault"] = {"decision": rf["decision"], "rc": rf["rc"], "present_nonempty": present, "text": rf["text"][-200:]}
        if kind != "fsize":
            remove_obstacle(w, t)
        r1 = w.run()
        mi, di, _ = C.stale_files(w, desc)
        obs["recovery"] = {"decision": r1["decision"], "missing": mi, "different": di}
        obs["expected_present"] = plan[:k]
    return obs, desc


def eval_libgen(cases):
    res = vlib.pmap(run_libgen, cases)
    q = [sx([True, dec(o["fault"]["decision"]), False, True, dec(o["recovery"]["decision"]),
             not o["recovery"]["missing"] and not o["recovery"]["different"], True]) for o, _ in res]
    orc = vlib.run_runner("c17-oracle", q)
    outs = []
    for case, (o, desc), ok_s in zip(cases, res, orc):
        # expectation from the write plan (the state machine without a record): the first k files written, Err, then a
        # complete generation
        corr = (o["fault"]["decision"] == "failed" and o["recovery"]["decision"] == "regenerated"
                and set(o["expected_present"]) <= set(o["fault"]["present_nonempty"]) | set(["types.ts", "commands.ts", "events.ts", "index.ts"]) and
                (case["timing"] == "after_edit" or sorted(o["fault"]["present_nonempty"]) == sorted(o["expected_present"])))
        detail = {"impl": o}
        if not (corr and ok_s == "true"):
            detail["sources"] = {fl["path"]: C.render_rs(fl) for fl in desc["files"]}
        outs.append(Outcome(case, corr, ok_s == "true", detail=detail, nontrivial=True))
    return outs


def build_all():
    vlib.build_repo_bin()
    vlib.build_harness("c08")
    vlib.build_runner("c17")


def run(rep):
    build_all()
    rng = random.Random(rep.seed)
    from tools.props.c08 import regressions
    wit = []
    for e in vlib.load_known_findings("C17"):
        for c in e.get("witnesses", [e["witness"]]):
            wit.append(dict(c))
    rep.add("corpus", eval_fault(wit + regressions("C17")))
    cases = fault_cases(rep.tier, rng)
    dist = {}
    for c in cases:
        key = "%s/%s" % (c["target"], c["timing"])
        dist[key] = dist.get(key, 0) + 1
    rep.extra["fault_distribution"] = dist
    outs = eval_fault(cases)
    dd = {}
    for o in outs:
        f = o.detail["impl"]["fault"]
        key = "%s -> %s (exit %s)" % (o.case["target"], f["decision"], f["rc"])
        dd[key] = dd.get(key, 0) + 1
    rep.extra["fault_outcomes"] = dd
    rep.add("fault", outs)
    rep.add("libgen", eval_libgen(libgen_cases()))


def replay(rep, payload):
    build_all()
    items = payload.get("disagreeing_cases") or [payload]
    for it in items:
        if it.get("stream") == "libgen":
            rep.add("libgen", eval_libgen([dict(it["case"])]))
        else:
            rep.add(it.get("stream") or "fault", eval_fault([dict(it["case"])]))
