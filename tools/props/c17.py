"""C17 - a failed run is never remembered as up to date. Faults without hooks: a directory pre-created under
the name of the file to be written (EISDIR) for each write of the run, or a regular file where the output
directory should be; injected into a first run and into a run after an output-changing (hashed) edit, on
both entry points; then the obstacle is removed and two recovery runs follow. Every run is compared with the
extracted run/cache model (fault = index of the failing write in the plan); the oracle (c17_ok, extracted)
is applied to what the implementation did."""
import copy
import os
import random
import shutil

from tools import vlib
from tools.vlib import Outcome, sx
from tools.props import c08_common as C

MANIFEST = {
    "level_text": "Coq theorems (Properties/C17.v, no axioms) about the run/cache state machine of Model/C08Run.v (writes in the order types.ts, commands.ts, [events.ts], index.ts, [dependency-graph.txt, .dot], record last; a failing record write is a warning), faithful instance: for every state, discovery order and position k of the failing write, a non-forced run that reaches the writes reports Failure when a file of the plan cannot be written, leaves the record untouched and exactly the first k files written; when only the record cannot be written it reports Success with all files in place and no record; afterwards the record never vouches for the current inputs; the next non-forced run regenerates everything and records the current fingerprint; a run that changes the record has written every file first. Tied to /repo by injecting each write fault (EISDIR) and an unusable output path into first runs and runs after hashed edits through the real CLI binary and BuildSystem::generate_at_build_time, followed by recovery runs, every step compared with the extracted model.",
    "design_ref": "DESIGN.md section 5 C08, C14, C17; section 11 fault_recovery",
    "level_note": "Faults are whole-write failures (EISDIR, ENOTDIR/EEXIST on the output path): a crash or short write in the middle of one fs::write is not exercised and appears in the model only as 'the k-th write fails'; the history [run; edit; failing run; revert the edit; run] (an edit between fault and recovery) ends up to date over mixed files on the model and is outside the property's quantifier; a failing write of .typecache alone is reported as success with a warning (exit 0), which the check accepts because no binding is missing and no record is kept; recovery is claimed for orders with the same fingerprint (single-file projects in the check).",
    "technique": "Rocq/Coq proof over hand-written model + correspondence check (extracted OCaml vs real binary and Rust driver)"
}

RULE = ("fault: {types.ts, commands.ts, events.ts, index.ts, dependency-graph.txt, dependency-graph.dot, .typecache, output path is a "
        "regular file} x {first run, run after a hashed output-changing edit, run over a matching record after the loss of that file and/or another one}; two consecutive faults at different writes;  x {CLI, build} x {none, zod} x {visualize_deps on/off where "
        "it matters} x 13 hashed edits; each followed by removal of the "
        "obstacle and two recovery runs. All cases are non-trivial; distinct = distinct case descriptions")
TRUSTED = ["fault injection by pre-created directories / a regular file at the output path (no hook in /repo)",
           "python renderer description -> Rust source / typegen.json / analysed data (tools/props/c08_common.py)"]
ASSUMPTIONS = ["a write fault is the failure of one whole fs::write call"]

TARGETS = ["types.ts", "commands.ts", "events.ts", "index.ts", "dependency-graph.txt", "dependency-graph.dot", C.CACHE, "<outdir>"]
EDITS_Q = ["param_type", "field_add", "cmd_add", "mode", "enum_variant"]
EDITS_T = EDITS_Q + ["ret_type", "channel", "field_type", "param_case", "field_case", "type_mapping", "serde_skip", "cmd_rename"]


def start_desc(case):
    d = C.base_project()
    d["cfg"]["validation_library"] = case["mode"]
    d["cfg"]["visualize_deps"] = bool(case.get("viz"))
    if case.get("no_events"):
        d["files"][0]["events"] = []
    return d


def plan_of(desc):
    p = ["types.ts", "commands.ts"]
    if any(f["events"] for f in desc["files"]):
        p.append("events.ts")
    p.append("index.ts")
    if desc["cfg"]["visualize_deps"]:
        p += C.GRAPH_FILES
    return p


def place_obstacle(w, t, plan, steps):
    """Make the write of t fail: a directory stands where the file is to be written (the file, if any, is lost);
    t = <outdir>: a regular file stands where the output directory should be. Returns (fault index, is binding)."""
    if t == "<outdir>":
        if os.path.isdir(w.out()):
            shutil.rmtree(w.out())
            for n in C.BINDING_FILES + C.GRAPH_FILES:
                steps.append(["delete", C.model_file_name(n)])
            steps.append(["dropcache"])
        open(w.out(), "w").write("not a directory")
        return 0, True
    os.makedirs(w.out(), exist_ok=True)
    if os.path.isfile(w.out(t)):
        os.remove(w.out(t))
        steps.append(["dropcache"] if t == C.CACHE else ["delete", C.model_file_name(t)])
    os.makedirs(w.out(t))
    if t == C.CACHE:
        return len(plan), False
    if t in plan:
        return plan.index(t), True
    return None, False                 # this file is not written under these inputs: no fault occurs


def remove_obstacle(w, t):
    if t == "<outdir>":
        os.remove(w.out())
    else:
        os.rmdir(w.out(t))


def run_fault(case):
    """timing: first | after_edit (run; hashed edit) | after_loss (run; nothing edited: the record matches, the fault
    hits the regeneration the presence test asks for). lost: a further output file deleted before the faulty run.
    second: after the first faulty run the obstacle moves to this target and a second faulty run follows."""
    desc = start_desc(case)
    sched = [[0], [0] if desc["cfg"].get("type_mappings") else []]
    steps, obs = [], {}
    with vlib.Sandbox("c17") as sb:
        w = C.World(sb, case["entry"])
        w.set_desc(desc)
        if case["timing"] in ("after_edit", "after_loss"):
            r0 = w.run()
            steps.append(["run", sched, False, None])
            obs["first"] = r0["decision"]
        if case["timing"] == "after_edit":
            desc = C.apply_edit(desc, case["edit"])
            w.set_desc(desc)
            sched = [[0], [0] if desc["cfg"].get("type_mappings") else []]
            steps.append(["set", C.sx_project(desc), C.sx_cfg(desc["cfg"])])
        plan = plan_of(desc)
        t = case["target"]
        if case.get("lost") and os.path.isfile(w.out(case["lost"])):
            os.remove(w.out(case["lost"]))
            steps.append(["delete", C.model_file_name(case["lost"])])
        k, binding = place_obstacle(w, t, plan, steps)
        ref = C.reference(desc, case["entry"])
        ref_rec = reference_record(desc, case["entry"])

        def state(r):
            rec = w.cache_record()
            matches = bool(rec and ref_rec and rec.get("combined_hash") == ref_rec.get("combined_hash") and rec.get("version") == 1)
            # "the tool vouches": a non-forced run would answer up to date = matching record and every file of the plan a file
            vouches = matches and all(os.path.isfile(w.out(n)) for n in plan)
            mi, di, _ = C.stale_files(w, desc) if os.path.isdir(w.out()) else (sorted(ref["files"]), [], [])
            return {"decision": r["decision"], "rc": r["rc"], "missing": mi, "different": di, "vouches": vouches,
                    "record_matches": matches, "rewritten": r["rewritten"], "text": r["text"][-300:]}
        # ---- the faulty run(s)
        rf = w.run()
        steps.append(["run", sched, False, C.opt(k)])
        obs["fault"] = state(rf)
        if case.get("second"):
            remove_obstacle(w, t)
            t = case["second"]
            k2, binding2 = place_obstacle(w, t, plan, steps)
            rf2 = w.run()
            steps.append(["run", sched, False, C.opt(k2)])
            obs["fault2"] = state(rf2)
            obs["binding2"] = binding2
        # ---- remove the obstacle, recover
        remove_obstacle(w, t)
        r1 = w.run()
        steps.append(["run", sched, False, None])
        mi1, di1, _ = C.stale_files(w, desc)
        rec1 = w.cache_record()
        obs["recovery"] = {"decision": r1["decision"], "missing": mi1, "different": di1,
                           "record_as_fresh": bool(rec1 and ref_rec and rec1 == ref_rec), "text": r1["text"][-200:]}
        r2 = w.run()
        steps.append(["run", sched, False, None])
        obs["recovery2"] = {"decision": r2["decision"]}
    base = start_desc(case)
    obs["binding"] = binding
    obs["k"] = k
    return sx([C.sx_project(base), C.sx_cfg(base["cfg"]), steps]), obs, desc


_rr = {}


def reference_record(desc, entry):
    """The .typecache a fresh generation of desc writes (deterministic: fixed SipHash keys, single file)."""
    key = (C.desc_hash(desc), entry)
    if key not in _rr:
        with vlib.Sandbox("c17ref") as sb:
            w = C.World(sb, entry)
            w.set_desc(desc)
            w.run()
            _rr[key] = w.cache_record()
    return _rr[key]


def dec(d):
    return d if d in ("no_commands", "up_to_date", "regenerated", "failed") else "failed"


def eval_fault(cases):
    res = vlib.pmap(run_fault, cases)
    tr = vlib.run_runner("c17-trace", [r[0] for r in res])
    q = []
    for _, o, _ in res:
        f, r = o["fault"], o["recovery"]
        q.append(sx([o["binding"], dec(f["decision"]), f["vouches"], not f["missing"] and not f["different"],
                     dec(r["decision"]), not r["missing"] and not r["different"], r["record_as_fresh"]]))
    orc = vlib.run_runner("c17-oracle", q)
    outs = []
    for case, (_, o, desc), t, ok_s in zip(cases, res, tr, orc):
        two = "fault2" in o
        runs = t[-4:] if two else t[-3:]
        mf, mr, mr2 = runs[0], runs[-2], runs[-1]
        f, r = o["fault"], o["recovery"]
        corr = (f["decision"] == mf[0] and sorted(C.model_file_name(n) for n in f["missing"]) == sorted(mf[1])
                and set(C.model_file_name(n) for n in f["different"]) <= set(mf[2])
                and f["vouches"] == (mf[4] == "true")
                and r["decision"] == mr[0] and not mr[1] and not mr[2] and not r["missing"] and not r["different"]
                and o["recovery2"]["decision"] == mr2[0])
        ok = ok_s == "true" and o["recovery2"]["decision"] == "up_to_date"
        if two:
            f2, m2 = o["fault2"], runs[1]
            corr = corr and f2["decision"] == m2[0] and sorted(C.model_file_name(n) for n in f2["missing"]) == sorted(m2[1]) \
                and f2["vouches"] == (m2[4] == "true")
            ok = ok and (f2["decision"] == "failed" or not o["binding2"]) and not (f2["vouches"] and (f2["missing"] or f2["different"]))
        detail = {"impl": o, "model": {"fault": mf, "recovery": mr, "recovery2": mr2}}
        if not (corr and ok):
            detail["sources"] = {fl["path"]: C.render_rs(fl) for fl in desc["files"]}
            detail["config"] = C.render_cfg(desc["cfg"])
        outs.append(Outcome(case, corr, ok, detail=detail, nontrivial=True))
    return outs


def fault_cases(tier, rng):
    cases = []
    edits = EDITS_T
    for entry in ("cli", "build"):
        for mode in ("none", "zod"):
            for t in TARGETS:
                vizs = (True,) if t.startswith("dependency-graph") else (False, True)
                for viz in vizs:
                    cases.append({"entry": entry, "mode": mode, "viz": viz, "target": t, "timing": "first"})
                    for e in edits:
                        if e == "mode" and mode == "zod" and tier == "quick":
                            continue
                        cases.append({"entry": entry, "mode": mode, "viz": viz, "target": t, "timing": "after_edit", "edit": e})
            # the record matches and a file is lost: the fault hits the regeneration the presence test asks for
            for t in TARGETS:
                for viz in ((True,) if t.startswith("dependency-graph") else (False, True)):
                    cases.append({"entry": entry, "mode": mode, "viz": viz, "target": t, "timing": "after_loss"})
                    for lost in ("index.ts", "events.ts", "types.ts"):
                        if lost != t:
                            cases.append({"entry": entry, "mode": mode, "viz": viz, "target": t, "timing": "after_loss", "lost": lost})
            # two consecutive faults at different writes
            for t, t2 in (("types.ts", "index.ts"), ("events.ts", "commands.ts"), ("index.ts", "dependency-graph.txt"),
                          ("dependency-graph.dot", "events.ts"), ("commands.ts", C.CACHE), (C.CACHE, "types.ts")):
                for timing in ("first", "after_edit", "after_loss"):
                    c = {"entry": entry, "mode": mode, "viz": True, "target": t, "second": t2, "timing": timing}
                    if timing == "after_edit":
                        c["edit"] = "field_add"
                    cases.append(c)
            # a project without events: events.ts is not in the plan, the obstacle is harmless
            cases.append({"entry": entry, "mode": mode, "viz": False, "target": "events.ts", "timing": "first", "no_events": True})
    return cases


def build_all():
    vlib.build_repo_bin()
    vlib.build_harness("c08")
    vlib.build_runner("c17")


def run(rep):
    build_all()
    rng = random.Random(rep.seed)
    from tools.props.c08 import regressions
    rep.add("corpus", eval_fault(regressions("C17")))
    cases = fault_cases(rep.tier, rng)
    dist = {}
    for c in cases:
        key = "%s/%s" % (c["target"], c["timing"])
        dist[key] = dist.get(key, 0) + 1
    rep.extra["fault_distribution"] = dist
    outs = eval_fault(cases)
    dd = {}
    for o in outs:
        f = o.detail["impl"]["fault"]
        key = "%s -> %s (exit %s)" % (o.case["target"], f["decision"], f["rc"])
        dd[key] = dd.get(key, 0) + 1
    rep.extra["fault_outcomes"] = dd
    rep.add("fault", outs)


def replay(rep, payload):
    build_all()
    items = payload.get("disagreeing_cases") or [payload]
    rep.add("fault", eval_fault([dict(it["case"]) for it in items]))
