"""C12 case representation: rendering of a case to Rust source and to the model's
s-expression, and the generators (structured in-domain bodies, enumerations, malformed stream).

A case is {"files": [{"name", "fns": [fn..]}], "zod": bool}
fn   = {"name", "cmd": bool, "wrap": None|"impl"|"mod", "params": [[name|None, pattern_text|None, qty]], "body": [stmt..]}
qty  = ["path", [segs], name, angle, [args]] | ["ref", t] | ["tuple", [ts]]
expr = ["method", recv, m, [args]] | ["path", [segs]] | ["field", base, n] | ["lit", kind(, value)] | ["struct", [segs]]
     | ["ref", e] | ["call", f, [args]] | ["tuple", [es]] | ["block", [ss]] | ["if", [ss], else|None] | ["match", [arms]]
     | ["loop", [ss]] | ["while", [ss]] | ["for", [ss]] | ["await", e] | ["try", e] | ["other", rust_text]
stmt = ["expr", e] | ["let", pat, init|None] | ["other", rust_text]
pat  = ["ident", n, mut] | ["typed", n, qty] | ["other", rust_text]
Functions with wrap != None are rendered inside an impl / inline module: they are not top-level
functions, so they are not part of the model's project."""
from tools.vlib import sx

BLOCKLIKE = ("block", "if", "match", "loop", "while", "for")


# ------------------------------------------------------------------ Rust rendering
def r_qty(t):
    k = t[0]
    if k == "path":
        _, segs, name, angle, args = t
        last = name + ("<" + ", ".join(r_qty(a) for a in args) + ">" if angle else "")
        return "::".join(list(segs) + [last])
    if k == "ref":
        return (t[2] if len(t) > 2 else "&") + r_qty(t[1])     # optional spelling of the reference: "&mut ", "&'a "
    if k == "opaque":
        return t[1]                                            # impl Trait / dyn Trait / lifetime argument: Rust text
    if k == "tuple":
        ts = t[1]
        if not ts:
            return "()"
        if len(ts) == 1:
            return "(" + r_qty(ts[0]) + ",)"
        return "(" + ", ".join(r_qty(x) for x in ts) + ")"
    raise ValueError(t)


def r_lit(e):
    kind = e[1]
    if kind == "str":
        return '"' + e[2].replace("\\", "\\\\").replace('"', '\\"') + '"'
    return {"int": "42", "float": "1.5", "bool": "true", "other": "'c'"}[kind]


def r_expr(e):
    k = e[0]
    if k == "method":
        return "%s.%s(%s)" % (r_expr(e[1]), e[2], ", ".join(r_expr(a) for a in e[3]))
    if k == "path":
        return "::".join(e[1])
    if k == "field":
        return "%s.%s" % (r_expr(e[1]), e[2])
    if k == "lit":
        return r_lit(e)
    if k == "struct":
        return "::".join(e[1]) + " { id: 1 }"
    if k == "ref":
        return "&" + r_expr(e[1])
    if k == "call":
        return "%s(%s)" % (r_expr(e[1]), ", ".join(r_expr(a) for a in e[2]))
    if k == "tuple":
        es = e[1]
        if len(es) == 1:
            return "(" + r_expr(es[0]) + ",)"
        return "(" + ", ".join(r_expr(x) for x in es) + ")"
    if k == "block":
        return "{ " + r_stmts(e[1]) + " }"
    if k == "if":
        s = "if ready { " + r_stmts(e[1]) + " }"
        if e[2] is not None:
            s += " else " + r_expr(e[2])
        return s
    if k == "match":
        arms = e[1]
        out = []
        for i, a in enumerate(arms):
            p = "_" if i == len(arms) - 1 else str(i)
            out.append("%s => %s," % (p, r_expr(a)))
        return "match sel { " + " ".join(out) + " }"
    if k == "loop":
        return "loop { " + r_stmts(e[1]) + " }"
    if k == "while":
        return "while running { " + r_stmts(e[1]) + " }"
    if k == "for":
        return "for i in 0..3 { " + r_stmts(e[1]) + " }"
    if k == "await":
        return r_expr(e[1]) + ".await"
    if k == "try":
        return r_expr(e[1]) + "?"
    if k == "other":
        return e[1]
    raise ValueError(e)


def r_pat(p):
    if p[0] == "ident":
        return ("mut " if len(p) > 2 and p[2] else "") + p[1]
    if p[0] == "typed":
        return "%s: %s" % (p[1], r_qty(p[2]))
    return p[1]


def r_stmt(s):
    if s[0] == "expr":
        e = s[1]
        return r_expr(e) + ("" if e[0] in BLOCKLIKE else ";")
    if s[0] == "let":
        els = (" " + s[3]) if len(s) > 3 else ""       # let-else: the diverging block is not part of the model
        return "let %s%s%s;" % (r_pat(s[1]), "" if s[2] is None else " = " + r_expr(s[2]), els)
    return s[1]


def r_stmts(ss):
    return " ".join(r_stmt(s) for s in ss)


def r_fn(f):
    """optional shape fields: attrs [text], vis, quals (async / unsafe / const ..), generics, ret"""
    ps = []
    for name, ptxt, t in f["params"]:
        ps.append("%s: %s" % (ptxt if ptxt is not None else name, r_qty(t)))
    body = "\n    ".join(r_stmt(s) for s in f["body"])
    attrs = "".join(a + "\n" for a in f.get("attrs", []))
    sig = " ".join(x for x in (f.get("vis"), f.get("quals"), "fn") if x)
    ret = ((" -> " + f["ret"]) if f.get("ret") else "") + ((" where " + f["where"]) if f.get("where") else "")
    head = (attrs + ("#[tauri::command]\n" if f.get("cmd") else "") +
            "%s %s%s(%s)%s {\n    %s\n}\n" % (sig, f["name"], f.get("generics", ""), ", ".join(ps), ret, body))
    if f.get("wrap") == "impl":
        return "struct Holder;\nimpl Holder {\n%s}\n" % head
    if f.get("wrap") == "mod":
        return "mod inner {\n%s}\n" % head
    return head


def rust_files(case):
    return [{"name": f["name"], "src": (f.get("prelude", "") + "\n".join(r_fn(fn) for fn in f["fns"])) or "// empty\n"} for f in case["files"]]


def has_command(case):
    return any(fn.get("cmd") and not fn.get("wrap") for f in case["files"] for fn in f["fns"])


# ------------------------------------------------------------------ s-expression for the model
OPAQUE_Q = ["tuple", [["path", [], "Opaque", False, []]]]   # the model's stand-in for a type extract_type_name calls `unknown`


def m_qty(t):
    if t[0] == "opaque":
        return OPAQUE_Q
    if t[0] == "path":
        return ["path", list(t[1]), t[2], bool(t[3]), [m_qty(a) for a in t[4]]]
    if t[0] == "ref":
        return ["ref", m_qty(t[1])]
    return ["tuple", [m_qty(x) for x in t[1]]]


class Tag(str):
    """bare atom"""


def m_expr(e):
    k = e[0]
    if k == "method":
        return ["method", m_expr(e[1]), S(e[2]), [m_expr(a) for a in e[3]]]
    if k == "path":
        return ["path", [S(x) for x in e[1]]]
    if k == "field":
        return ["field", m_expr(e[1]), S(e[2])]
    if k == "lit":
        return ["lit", "str", S(e[2])] if e[1] == "str" else ["lit", e[1]]
    if k == "struct":
        return ["struct", [S(x) for x in e[1]]]
    if k == "ref":
        return ["ref", m_expr(e[1])]
    if k == "call":
        return ["call", m_expr(e[1]), [m_expr(a) for a in e[2]]]
    if k == "tuple":
        return ["tuple", [m_expr(x) for x in e[1]]]
    if k in ("block", "loop", "while", "for"):
        return [k, [m_stmt(s) for s in e[1]]]
    if k == "if":
        return ["if", [m_stmt(s) for s in e[1]], None if e[2] is None else [m_expr(e[2])]]
    if k == "match":
        return ["match", [m_expr(a) for a in e[1]]]
    if k in ("await", "try"):
        return [k, m_expr(e[1])]
    if k == "other":
        return ["other"]
    raise ValueError(e)


def S(x):
    return Q(x)


class Q(str):
    """quoted string atom"""


def m_pat(p):
    if p[0] == "ident":
        return ["ident", S(p[1])]
    if p[0] == "typed":
        return ["typed", S(p[1]), m_qty_q(p[2])]
    return ["other"]


def m_qty_q(t):
    if t[0] == "opaque":       # impl Trait, dyn Trait, lifetimes: neither reference nor path -> `unknown`, as a non-empty tuple in the model
        return ["tuple", [["path", [], S("Opaque"), False, []]]]
    if t[0] == "path":
        return ["path", [S(x) for x in t[1]], S(t[2]), bool(t[3]), [m_qty_q(a) for a in t[4]]]
    if t[0] == "ref":
        return ["ref", m_qty_q(t[1])]
    return ["tuple", [m_qty_q(x) for x in t[1]]]


def m_stmt(s):
    if s[0] == "expr":
        return ["expr", m_expr(s[1])]
    if s[0] == "let":
        return ["let", m_pat(s[1]), None if s[2] is None else [m_expr(s[2])]]
    return ["other"]


def enc(v):
    """like vlib.sx but bare python str = tag atom, Q = quoted atom"""
    if v is None:
        return "()"
    if isinstance(v, bool):
        return "true" if v else "false"
    if isinstance(v, Q):
        return sx(str(v))
    if isinstance(v, str):
        return v
    if isinstance(v, int):
        return str(v)
    return "(" + " ".join(enc(x) for x in v) + ")"


def m_project(case):
    files = []
    for f in case["files"]:
        fns = []
        for fn in f["fns"]:
            if fn.get("wrap"):
                continue
            params = [[None if n is None else [S(n)], m_qty_q(t)] for n, _, t in fn["params"]]
            fns.append([params, [m_stmt(s) for s in fn["body"]]])
        files.append(fns)
    return [files, has_command(case), [[S(k), S(v)] for k, v in sorted(case.get("mappings", {}).items())]]


def case_sexp(case, events_ts, index_ts):
    return enc([m_project(case), None if events_ts is None else [Q(events_ts)], None if index_ts is None else [Q(index_ts)]])


# ------------------------------------------------------------------ building blocks
def P(*segs):
    return ["path", list(segs)]


def V(n):
    return ["path", [n]]


def TY(name, *args, segs=()):
    return ["path", list(segs), name, bool(args), list(args)]


def SL(v):
    return ["lit", "str", v]


def M(recv, m, *args):
    return ["method", recv, m, list(args)]


def EMIT(recv, name, payload):
    return M(recv, "emit", SL(name), payload)


def EMIT_TO(recv, name, payload, target=None):
    return M(recv, "emit_to", target or SL("main"), SL(name), payload)


APP_T = TY("AppHandle", segs=["tauri"])
WIN_T = TY("Window", segs=["tauri"])
WV_T = TY("WebviewWindow", segs=["tauri"])

STD_PARAMS = [["app", None, APP_T], ["window", None, WIN_T], ["webview", None, WV_T],
              ["state", None, TY("State", TY("Ctx"), segs=["tauri"])],
              ["user", None, TY("User")], ["count", None, TY("u32")], ["label", None, ["ref", TY("str")]],
              ["ratio", None, TY("f64")], ["flag", None, TY("bool")], ["title", None, TY("String")],
              ["profile", None, ["ref", TY("Profile", segs=["models"])]]]
# name -> is its type simple (tool and property agree)
SIMPLE_VARS = ["user", "count", "label", "ratio", "flag", "title", "profile"]

DOC_RECEIVERS = [
    V("app"), V("window"), V("webview"),
    ["field", V("state"), "app"], ["field", V("state"), "window"], ["field", ["field", V("state"), "inner"], "webview"],
    M(V("app"), "handle"), M(M(V("app"), "get_webview_window", SL("main")), "unwrap"),
    M(V("state"), "app_handle"), M(M(V("window"), "app_handle"), "clone"),
]
NON_RECEIVERS = [
    V("emitter"), V("application"), V("win"), ["field", V("state"), "bus"], ["field", V("state"), "apps"],
    ["call", V("get_handle"), []], ["call", P("handles", "main"), []],
]
UNDOC_RECEIVERS = [P("tauri", "AppHandle"), P("tauri", "Window"), P("crate", "AppHandle"), P("ui", "WebviewWindow"), P("ui", "Panel"),
                   ["other", "(app)"], ["other", "(*app)"]]

LEAF_TYPES = [TY("String"), ["ref", TY("str")], TY("i32"), TY("u8"), TY("u64"), TY("i64"), TY("usize"), TY("f32"), TY("f64"),
              TY("bool"), TY("User"), TY("Progress", segs=["models"]), ["ref", TY("Settings")], ["ref", ["ref", TY("u16")]]]
COMPOSITE_TYPES = ([TY(c, t) for c in ("Vec", "Option", "HashSet", "BTreeSet") for t in (TY("String"), TY("u32"), TY("User"))] +
                   [TY(c, TY("String"), t) for c in ("HashMap", "BTreeMap") for t in (TY("i32"), TY("User"))] +
                   [["tuple", [TY("String"), TY("i32")]], ["tuple", []], ["tuple", [TY("User"), TY("bool"), TY("f64")]],
                    ["ref", TY("Vec", TY("User"))], TY("Result", TY("User"), TY("String")), TY("Vec", TY("Vec", TY("u8"))),
                    TY("Option", TY("Vec", TY("User"))), TY("Vec", TY("Option", TY("String")))])

NAME_POOL = ["progress", "user-updated", "file_saved", "download-progress", "app_ready", "tick", "sync-done", "Loaded",
             "v2-update", "item_3_changed", "UPPER", "mixedCase-evt", "x", "job_9"]


def rand_name(rng, alphabet="abcdefgxyzABXZ019_-", maxlen=10):
    n = rng.randint(1, maxlen)
    return "".join(rng.choice(alphabet) for _ in range(n))


# ------------------------------------------------------------------ structured generator
class Gen:
    """Builds one function body statement by statement, keeping track of what is in scope."""

    def __init__(self, rng, dirty, pool, scope=None, receivers=None):
        self.receivers = receivers
        self.rng = rng
        self.dirty = dirty              # may use constructs inside the recorded classes
        self.pool = pool                # event names used so far in this case
        self.fresh = 0
        self.scope = list(SIMPLE_VARS if scope is None else scope)  # variables whose type the tool and the property agree on

    def new_var(self, prefix="v"):
        self.fresh += 1
        return "%s%d" % (prefix, self.fresh)

    def name(self):
        rng = self.rng
        x = rng.random()
        if self.dirty:
            if self.pool and x < 0.18:
                return rng.choice(self.pool)                       # repeated name
            if self.pool and x < 0.28:
                n = rng.choice(self.pool)                          # colliding variant
                return (n.replace("-", rng.choice("_:/")) if "-" in n else n.replace("_", rng.choice("-:/")) if "_" in n
                        else n[:1].swapcase() + n[1:])
            if x < 0.40:
                return rand_name(rng, "abcXY01_-:/", 8)
        for _ in range(20):
            n = rng.choice(NAME_POOL) if x < 0.75 else rand_name(rng)
            if not any(ident(n) == ident(m) for m in self.pool):
                return n
        return "evt%d" % len(self.pool)

    def receiver(self):
        rng = self.rng
        if rng.random() < 0.12:
            return rng.choice(NON_RECEIVERS), False
        return rng.choice(self.receivers or DOC_RECEIVERS), True

    def payload(self, pre):
        """returns a payload expression; may append preparatory let statements to pre"""
        rng = self.rng
        x = rng.random()
        wrap = lambda e: e
        w = rng.random()
        if w < 0.2:
            wrap = lambda e: ["ref", e]
        elif w < 0.4:
            wrap = lambda e: M(e, "clone")
        elif w < 0.45:
            wrap = lambda e: ["ref", M(e, "clone")]
        if x < 0.22:
            return rng.choice([SL("done"), ["lit", "int"], ["lit", "float"], ["lit", "bool"], ["tuple", []], ["lit", "other"]])
        if x < 0.36:
            return wrap(["struct", rng.choice([["User"], ["Progress"], ["models", "Progress"], ["crate", "events", "Tick"]])])
        if x < 0.56 and self.scope:
            return wrap(V(rng.choice(self.scope)))
        if x < 0.70:
            v = self.new_var()
            t = rng.choice(LEAF_TYPES)
            pre.append(["let", ["typed", v, t], ["call", V("make"), []] if rng.random() < 0.8 else None])
            self.scope.append(v)
            return wrap(V(v))
        if x < 0.78 and self.scope:
            v = self.new_var()
            init = rng.choice([["struct", ["User"]], V(rng.choice(self.scope)), ["ref", V(rng.choice(self.scope))], ["ref", ["struct", ["Progress"]]]])
            pre.append(["let", ["ident", v, rng.random() < 0.3], init])
            self.scope.append(v)
            return wrap(V(v))
        if x < 0.90 or not self.dirty:
            return rng.choice([["call", V("compute"), []], M(V("user"), "to_string"), ["field", V("user"), "id"],
                               ["call", P("User", "new"), []], M(M(V("title"), "trim"), "to_owned"), ["other", "count + 1"],
                               ["other", "vec![1, 2]"], ["other", "format!(\"{}\", count)"], ["other", "count as u64"]])
        # inside the recorded classes
        y = rng.random()
        if y < 0.18:
            return wrap(["tuple", [V("count"), SL("x")] if rng.random() < 0.7 else [V("user")]])
        if y < 0.36:
            return wrap(P(*rng.choice([("Status", "Active"), ("models", "Status", "Done"), ("Self", "DEFAULT"), ("LIMITS", "MAX")])))
        if y < 0.54:
            if rng.random() < 0.5:
                return wrap(V(rng.choice(["DEFAULT_PAYLOAD", "unbound", "CONFIG"])))
            v = self.new_var("d")
            pre.append(["let", ["ident", v, False], rng.choice([["call", V("compute"), []], ["lit", "int"], M(V("user"), "clone"), SL("s")])])
            return wrap(V(v))
        if y < 0.76:
            v = self.new_var("c")
            pre.append(["let", ["typed", v, rng.choice(COMPOSITE_TYPES)], ["call", V("make"), []]])
            return wrap(V(v))
        if y < 0.88:
            v = self.new_var("k")
            pre.append(["let", ["ident", v, False], ["call", P(*rng.choice([("Vec", "new"), ("User", "default"), ("std", "env", "args"), ("String", "from")])), []]])
            return wrap(V(v))
        # stale / leaking symbol table entries
        v = rng.choice(["user", "count"])
        z = rng.random()
        if z < 0.5:
            pre.append(["let", ["ident", v, False], ["call", V("compute"), []]])           # shadowed by something opaque
        else:
            pre.append(["expr", ["block", [["let", ["typed", v, TY("Inner")], ["call", V("make"), []]]]]])   # block-local binding leaks
        return wrap(V(v))

    def emit_stmts(self):
        """one emit site, wrapped and placed; returns a list of statements"""
        rng = self.rng
        pre = []
        recv, _ = self.receiver()
        n = self.name()
        self.pool.append(n)
        p = self.payload(pre)
        e = EMIT(recv, n, p) if rng.random() < 0.7 else EMIT_TO(recv, n, p, SL("main") if rng.random() < 0.7 else V("label"))
        w = rng.random()
        if w < 0.2:
            e = M(e, "unwrap")
        elif w < 0.4:
            e = M(e, "ok")
        elif w < 0.5:
            e = ["try", e]
        elif w < 0.58:
            e = ["await", e]
        elif w < 0.66:
            e = ["try", ["await", e]]
        elif w < 0.72:
            e = M(e, "expect", SL("emit failed"))
        elif w < 0.78:
            e = ["try", M(e, "map_err", ["other", "|e| e.to_string()"])]
        elif w < 0.82:
            e = M(M(e, "ok"), "unwrap_or_default")
        s = rng.random()
        if s < 0.70:
            st = ["expr", e]
        elif s < 0.85:
            st = ["let", ["ident", self.new_var("_r"), False], e]
        elif s < 0.93:
            st = ["let", ["other", "_"], e]
        else:
            st = ["let", ["typed", self.new_var("res"), TY("Result", ["tuple", []], TY("Error", segs=["tauri"]))], e]
        return pre + [st]

    def nest(self, stmts, depth):
        rng = self.rng
        if depth <= 0:
            return stmts
        k = rng.random()
        filler = [["expr", ["call", V("log"), [SL("step")]]], ["other", "println!(\"tick\");"], ["let", ["ident", "tmp", False], ["lit", "int"]]]
        other = [rng.choice(filler)] if rng.random() < 0.4 else []
        if k < 0.18:
            e = ["if", stmts, None]
        elif k < 0.34:
            e = ["if", other, ["block", stmts]]
        elif k < 0.42:
            e = ["if", other, ["if", stmts, ["block", other]]]
        elif k < 0.56:
            arms = [["block", stmts], rng.choice([["block", other], ["tuple", []], ["call", V("noop"), []]])]
            if rng.random() < 0.5:
                arms.reverse()
            if len(stmts) == 1 and stmts[0][0] == "expr" and stmts[0][1][0] not in BLOCKLIKE and rng.random() < 0.5:
                arms = [stmts[0][1], ["block", other]]
            e = ["match", arms]
        elif k < 0.66:
            e = ["loop", stmts + [["other", "break;"]]]
        elif k < 0.76:
            e = ["while", stmts]
        elif k < 0.86:
            e = ["for", stmts]
        else:
            e = ["block", stmts]
        return self.nest([["expr", e]], depth - 1)


def ident(n):
    """event_name_to_function, for the generator's bookkeeping only"""
    out, cap = [], True
    for c in n:
        if not (c.isascii() and c.isalnum()):
            cap = True
        elif cap:
            out.append(c.upper())
            cap = False
        else:
            out.append(c)
    return "on" + "".join(out)


PRELUDE = ("use std::sync::OnceLock;\nuse tauri::{AppHandle, Emitter};\n"
           "static APP: OnceLock<AppHandle> = OnceLock::new();\nstatic GLOBALS: Globals = Globals::new();\n\n")
STATIC_APP = M(M(V("APP"), "get"), "unwrap")
# receivers that need no parameter: method-call results on a global, fields of a global value
FREE_RECEIVERS = [STATIC_APP, M(STATIC_APP, "clone"), M(["call", V("handle"), []], "clone"), M(P("crate", "APP"), "get_unchecked"),
                  ["field", V("GLOBALS"), "window"], ["field", ["call", V("globals"), []], "app"],
                  M(M(V("GLOBALS"), "windows"), "main")]
ATTRS = [[], [], ["#[allow(dead_code)]"], ["/// emits progress"], ["#[inline]", "#[must_use]"], ["#[cfg(test)]"], ["#[tokio::main]"], ["#[test]"]]
VIS = [None, None, "pub", "pub(crate)"]
QUALS = [None, None, "async", "unsafe", "const", "pub(super) async" ]
NONHANDLE_PARAMS = [["user", None, TY("User")], ["count", None, TY("u32")], ["title", None, TY("String")]]


def fn_shape(rng, kind=None):
    """shape of the enclosing function: where the handle comes from, parameters, qualifiers.
    Returns fn fields plus the generator's scope (typed variables) and usable receivers."""
    kind = kind or rng.choice(["std", "std", "std", "none-static", "none-local", "nonhandle-static", "nonhandle-local", "only-handle", "typed-handle"])
    sh = {"cmd": rng.random() < 0.4, "attrs": list(rng.choice(ATTRS)), "vis": rng.choice(VIS), "quals": rng.choice(QUALS),
          "ret": rng.choice([None, None, "Result<(), String>", "tauri::Result<()>"]), "body": [], "receivers": None}
    if sh["quals"] and sh["quals"].startswith("pub"):
        sh["vis"] = None
    if kind == "std":
        sh["params"], sh["scope"] = [list(p) for p in STD_PARAMS], list(SIMPLE_VARS)
        if rng.random() < 0.2:
            sh["params"].append([None, "(a, b)", ["tuple", [TY("i32"), TY("i32")]]])
    elif kind == "typed-handle":       # the handle is a variable with a declared / inferred type of any kind (handle_decls)
        h = rng.choice(["app", "window", "webview"])
        decls = handle_decls(h)
        d = decls[rng.choice(sorted(decls))]
        sh["params"] = [list(q) for q in d["params"]] + [list(p) for p in NONHANDLE_PARAMS]
        sh["scope"] = ["user", "count", "title"]
        sh["body"] = list(d["pre"])
        sh["generics"], sh["where"] = d.get("generics", ""), d.get("where")
        sh["receivers"] = [V(h), V(h), M(V(h), "clone")]
    elif kind == "only-handle":
        sh["params"], sh["scope"] = [["app", "mut app" if rng.random() < 0.3 else None, rng.choice([APP_T, ["ref", APP_T]])]], []
        sh["receivers"] = [V("app"), M(V("app"), "handle"), M(V("app"), "clone")]
    else:
        sh["params"] = [] if kind.startswith("none") else [list(p) for p in NONHANDLE_PARAMS]
        sh["scope"] = [] if kind.startswith("none") else ["user", "count", "title"]
        if kind.endswith("static"):
            sh["receivers"] = list(FREE_RECEIVERS)
        else:
            local = rng.choice(["app", "window", "webview"])
            sh["body"] = [["let", ["ident", local, rng.random() < 0.2], rng.choice([M(STATIC_APP, "clone"), ["call", V("handle"), []], STATIC_APP])]]
            sh["receivers"] = [V(local), M(V(local), "clone"), V(local)]
        if kind.startswith("none") and sh["cmd"] and rng.random() < 0.5:
            sh["cmd"] = False
    return sh


def command_fn(i):
    return {"name": "ping_%d" % i, "cmd": True, "wrap": None, "params": [], "body": []}


def structured_case(rng, dirty):
    nfiles = rng.choice([1, 1, 1, 2, 3])
    pool = []
    files = []
    total_sites = rng.randint(1, 6)
    nfns = rng.randint(1, max(1, min(3, total_sites)))
    per_fn = [[] for _ in range(nfns)]
    shapes = [fn_shape(rng) for _ in range(nfns)]
    gens = [Gen(rng, dirty, pool, scope=sh.pop("scope"), receivers=sh.pop("receivers")) for sh in shapes]
    for s in range(total_sites):
        k = rng.randrange(nfns)
        g = gens[k]
        st = g.emit_stmts()
        # preparatory lets stay in front of the nest so that bindings are in scope
        pre, last = st[:-1], st[-1:]
        per_fn[k].extend(pre + g.nest(last, rng.choice([0, 0, 1, 1, 2, 3])))
    fns = []
    for k in range(nfns):
        fns.append(dict(shapes[k], name="work_%d" % k, wrap=None, body=shapes[k]["body"] + per_fn[k]))
    for i in range(nfiles):
        files.append({"name": "src/%s.rs" % ["lib", "events", "jobs/worker"][i], "fns": []})
    for k, fn in enumerate(fns):
        files[rng.randrange(nfiles)]["fns"].append(fn)
    if dirty and rng.random() < 0.06:
        for f in files:
            for fn in f["fns"]:
                fn["cmd"] = False
    elif not any(fn["cmd"] for f in files for fn in f["fns"]):
        files[0]["fns"].append(command_fn(0))
    for f in files:
        f["prelude"] = PRELUDE
    c = {"files": files, "zod": rng.random() < 0.3}
    if rng.random() < 0.25:
        c["mappings"] = rng.choice([{"User": "string"}, {"Progress": "number", "Tick": "boolean"}, {"Settings": "Prefs"}, {"Heartbeat": "string", "User": "number"}])
    return c


def single(body, zod=False, params=None, cmd=True, extra=None):
    fns = [{"name": "work", "cmd": False, "wrap": None, "params": params if params is not None else [list(p) for p in STD_PARAMS], "body": body}]
    if extra:
        fns += extra
    if cmd:
        fns.append(command_fn(0))
    return {"files": [{"name": "src/lib.rs", "fns": fns}], "zod": zod}


# ------------------------------------------------------------------ enumerations
def placements(e):
    """every documented placement of the expression e (a method-call expression)"""
    S_ = lambda x: [["expr", x]]
    out = {
        "stmt": S_(e), "stmt-unwrap": S_(M(e, "unwrap")), "stmt-ok": S_(M(e, "ok")), "try": S_(["try", e]), "await": S_(["await", e]),
        "await-try": S_(["try", ["await", e]]), "let-init": [["let", ["ident", "_r", False], e]],
        "let-typed-init": [["let", ["typed", "r", TY("bool")], M(M(e, "ok"), "is_some")]],
        "if-then": S_(["if", S_(M(e, "ok")), None]), "if-else": S_(["if", [], ["block", S_(M(e, "ok"))]]),
        "else-if-then": S_(["if", [], ["if", S_(M(e, "ok")), None]]),
        "else-if-else": S_(["if", [], ["if", [], ["block", S_(M(e, "ok"))]]]),
        "match-arm-block": S_(["match", [["block", S_(M(e, "ok"))], ["tuple", []]]]),
        "match-arm-expr": S_(["match", [["tuple", []], M(e, "unwrap")]]),
        "loop": S_(["loop", S_(M(e, "ok")) + [["other", "break;"]]]), "while": S_(["while", S_(M(e, "ok"))]), "for": S_(["for", S_(M(e, "ok"))]),
        "nested-block": S_(["block", S_(["block", S_(M(e, "ok"))])]),
        "for-in-if-in-loop": S_(["loop", S_(["if", S_(["for", S_(["try", e])]), None])]),
        "tail-expr": [["expr", ["call", V("log"), []]], ["expr", M(e, "ok")]],
        "match-in-let": [["let", ["ident", "m", False], ["match", [["block", S_(M(e, "ok"))], ["block", []]]]]],
        "recv-chain": S_(M(M(M(e, "ok"), "map", ["other", "|_| 1"]), "unwrap_or", ["lit", "int"])),
    }
    return out


def enum_placements():
    cases = []
    recvs = [("doc", r) for r in DOC_RECEIVERS] + [("non", r) for r in NON_RECEIVERS]
    i = 0
    for kind, r in recvs:
        for to in (False, True):
            for pname in placements(V("x")):
                i += 1
                bare = i % 3 == 1            # every third case: the enclosing function takes no parameters at all
                pay = ["struct", ["User"]] if bare else V("user")
                e = EMIT_TO(r, "evt-name", pay) if to else EMIT(r, "evt-name", pay)
                cases.append(single(placements(e)[pname], zod=(i % 7 == 0), params=[] if bare else None))
    return cases


def enum_fnshapes():
    """the enclosing function: no parameters / only non-handle parameters / handle from a static, a local
    let, a method call, a field of a global value / a parameter; sync, async, unsafe, const; visibility;
    attributes; command or not - crossed with receiver forms that fit and a few placements"""
    cases = []
    shapes = [
        ("none", [], []), ("nonhandle", [list(p) for p in NONHANDLE_PARAMS], []),
        ("only-handle", [["app", None, ["ref", APP_T]]], []),
        ("local-app", [], [["let", ["ident", "app", False], M(STATIC_APP, "clone")]]),
        ("local-window", [], [["let", ["ident", "window", True], ["call", V("main_window"), []]]]),
        ("local-typed", [], [["let", ["typed", "webview", WV_T], ["call", V("webview"), []]]]),
        ("nonhandle-local", [["count", None, TY("u32")]], [["let", ["ident", "app", False], ["ref", STATIC_APP]]]),
    ]
    free = {"static-chain": STATIC_APP, "static-clone": M(STATIC_APP, "clone"), "call-clone": M(["call", V("handle"), []], "clone"),
            "global-field": ["field", V("GLOBALS"), "window"], "call-field": ["field", ["call", V("globals"), []], "app"],
            "plain-call (must not count)": ["call", V("handle"), []], "static itself (must not count)": V("APP")}
    deco = [(a, v, q, c) for a in ([], ["#[allow(dead_code)]"], ["#[cfg(test)]"]) for v in (None, "pub") for q in (None, "async") for c in (False, True)]
    deco += [(["#[tokio::main]"], None, "async", False), ([], "pub(crate)", "unsafe", False), ([], None, "const", False),
             (["/// doc", "#[inline]"], "pub", None, False), (["#[test]"], None, None, False)]
    i = 0
    for sname, params, pre in shapes:
        if sname in ("none", "nonhandle"):
            recvs = list(free.values())
        else:
            local = "app" if "app" in str(pre) or sname == "only-handle" else ("window" if "window" in str(pre) else "webview")
            recvs = [V(local), M(V(local), "clone"), ["field", V("GLOBALS"), "app"]]
        for r in recvs:
            for (attrs, vis, quals, cmd) in deco:
                i += 1
                e = EMIT_TO(r, "shape-evt", ["struct", ["Heartbeat"]]) if i % 3 == 0 else EMIT(r, "shape-evt", ["struct", ["Heartbeat"]])
                pl = list(placements(e).values())
                body = pre + pl[i % len(pl)]
                fn = {"name": "emitter", "cmd": cmd, "wrap": None, "params": [list(q) for q in params], "body": body,
                      "attrs": attrs, "vis": vis, "quals": quals, "ret": "Result<(), String>" if i % 4 == 0 else None}
                fns = [fn] + ([] if cmd and i % 2 else [command_fn(0)])
                cases.append({"files": [{"name": "src/lib.rs", "prelude": PRELUDE, "fns": fns}], "zod": i % 5 == 0})
    # the seeded demo: control with a parameter, two parameterless emitters, four names
    hb = {"name": "heartbeat", "cmd": False, "wrap": None, "params": [], "vis": "pub",
          "body": [["expr", M(EMIT(STATIC_APP, "worker-heartbeat", ["struct", ["Heartbeat"]]), "ok")]]}
    sd = {"name": "shutdown", "cmd": False, "wrap": None, "params": [], "vis": "pub",
          "body": [["let", ["ident", "app", False], M(STATIC_APP, "clone")],
                   ["expr", ["if", [["expr", M(EMIT(V("app"), "worker-failed", SL("flush failed")), "ok")]],
                             ["block", [["expr", M(EMIT_TO(V("app"), "worker-stopped", ["lit", "int"]), "ok")]]]]]]}
    ns = {"name": "notify_started", "cmd": False, "wrap": None, "params": [["app", None, ["ref", TY("AppHandle")]]], "vis": "pub",
          "body": [["expr", M(EMIT(V("app"), "worker-started", ["lit", "bool"]), "unwrap")]]}
    cases.append({"files": [{"name": "src/main.rs", "prelude": PRELUDE, "fns": [command_fn(0), ns, hb, sd]}], "zod": False})
    cases.append({"files": [{"name": "src/main.rs", "prelude": PRELUDE, "fns": [command_fn(0), hb]}], "zod": True})
    return cases


# ------------------------------------------------------------------ compositions of placements
DOC_WRAPPERS = ["recv-ok", "recv-args", "await", "try", "block", "if-then", "if-else", "else-if", "match-arm", "match-arm-block",
                "loop", "while", "for", "let-in-block", "let-else-in-block"]
UNDOC_WRAPPERS = ["paren", "ref", "unary", "cast", "call-arg", "method-arg", "field", "index", "closure-call", "return", "break-value",
                  "macro-arg", "tuple", "closure-body", "unsafe-block", "async-block", "cond", "scrutinee"]
POSTFIX = ("recv-ok", "recv-args", "await", "try", "field", "cast")


def wrap(kind, e):
    """one wrapper around the expression e; undocumented wrappers the model cannot represent become
    opaque text (the model sees XOther, the real walker an expression kind it does not enter)"""
    S_ = lambda x: [["expr", x]]
    t = r_expr(e)
    return {
        "recv-ok": lambda: M(e, "ok"), "recv-args": lambda: M(e, "map_err", ["other", "|e| e.to_string()"]),
        "await": lambda: ["await", e], "try": lambda: ["try", e], "block": lambda: ["block", S_(e)],
        "if-then": lambda: ["if", S_(e), None], "if-else": lambda: ["if", [], ["block", S_(e)]],
        "else-if": lambda: ["if", [], ["if", S_(e), None]], "match-arm": lambda: ["match", [e, ["tuple", []]]],
        "match-arm-block": lambda: ["match", [["tuple", []], ["block", S_(e)]]],
        "loop": lambda: ["loop", S_(e) + [["other", "break;"]]], "while": lambda: ["while", S_(e)], "for": lambda: ["for", S_(e)],
        "let-in-block": lambda: ["block", [["let", ["ident", "_w", False], e]]],
        # a let-else initialiser must not end with a closing brace: plain let pattern there
        "let-else-in-block": lambda: ["block", [["let", ["other", "Ok(_w)"], e] + ([] if r_expr(e).rstrip().endswith("}") else ["else { return; }"])]],
        "paren": lambda: ["other", "(%s)" % t], "ref": lambda: ["ref", e], "unary": lambda: ["other", "!%s" % t],
        "cast": lambda: ["other", "(%s as u8)" % t], "call-arg": lambda: ["call", V("wrap"), [e]],
        "method-arg": lambda: M(V("sink"), "push", e), "field": lambda: ["field", e, "len"], "index": lambda: ["other", "table[%s]" % t],
        "closure-call": lambda: ["other", "(|| %s)()" % t], "return": lambda: ["other", "return %s" % t],
        "break-value": lambda: ["other", "loop { break %s; }" % t], "macro-arg": lambda: ["other", "dbg!(%s)" % t],
        "tuple": lambda: ["tuple", [e, ["lit", "int"]]], "closure-body": lambda: ["other", "move || { %s; }" % t],
        "unsafe-block": lambda: ["other", "unsafe { %s }" % t], "async-block": lambda: ["other", "async move { %s }" % t],
        "cond": lambda: ["other", "if %s.is_ok() { }" % t], "scrutinee": lambda: ["other", "match %s { _ => {} }" % t],
    }[kind]()


def compose_case(kinds, idx, recv=None, to=False):
    """wrappers applied innermost first around one emit; placed as a let initialiser (always
    syntactically safe) and, when no postfix wrapper sits on a block-like expression, also as an
    expression statement in a second function"""
    name = "cmp-%d" % idx
    r = recv if recv is not None else V("app")
    e = EMIT_TO(r, name, ["struct", ["Heartbeat"]]) if to else EMIT(r, name, ["struct", ["Heartbeat"]])
    safe_stmt = True
    for k in kinds:
        if k in POSTFIX and (e[0] in BLOCKLIKE or (e[0] == "other" and e[1].lstrip()[:1] in "{(ilmua!")):
            safe_stmt = False
        e = wrap(k, e)
    if e[0] == "other" and not e[1].rstrip().endswith("}"):
        pass
    body = [["let", ["ident", "_c", False], e]]
    fns = [{"name": "composed", "cmd": False, "wrap": None, "params": [list(p) for p in STD_PARAMS], "body": body}]
    if safe_stmt and idx % 2 == 0:
        e2 = EMIT(V("window"), name + "-s", ["lit", "int"])
        for k in kinds:
            e2 = wrap(k, e2)
        st = ["other", r_expr(e2) + ";"] if e2[0] == "other" else ["expr", e2]
        fns.append({"name": "composed_stmt", "cmd": False, "wrap": None, "params": [], "body": [st]})
    fns.append(command_fn(0))
    return {"files": [{"name": "src/lib.rs", "fns": fns}], "zod": idx % 9 == 0}


def enum_compositions(rng, n_triples):
    """every ordered pair of wrappers (documented and undocumented), sampled triples"""
    allw = DOC_WRAPPERS + UNDOC_WRAPPERS
    cases = []
    i = 0
    for inner in allw:
        for outer in allw:
            i += 1
            cases.append(compose_case([inner, outer], i, recv=DOC_RECEIVERS[i % len(DOC_RECEIVERS)], to=(i % 4 == 0)))
    for _ in range(n_triples):
        i += 1
        ks = [rng.choice(DOC_WRAPPERS if rng.random() < 0.75 else UNDOC_WRAPPERS) for _ in range(3)]
        cases.append(compose_case(ks, i, recv=rng.choice(DOC_RECEIVERS), to=rng.random() < 0.3))
    return cases


def enum_mappings():
    """payload forms x configuration: type_mappings with primitive (and one non-primitive) targets; mapped names at
    top level (typed parameter / let, struct expression, alias, &x, x.clone()) and nested in Vec / Option / map payload
    types; unmapped controls; keys that are Rust primitives (ignored by the tool); both modes"""
    cases = []
    mapsets = [{"Uuid": "string"}, {"Uuid": "string", "Stamp": "number", "Flag": "boolean"}, {"Money": "Decimal", "Uuid": "string"},
               {"String": "number", "i32": "string", "Uuid": "number"}, {"Other": "string"}, {}]
    tys = [TY("Uuid"), ["ref", TY("Uuid")], TY("Uuid", segs=["uuid"]), TY("Stamp"), TY("Flag"), TY("Money"), TY("User"), TY("String"), TY("i32"),
           TY("Vec", TY("Uuid")), TY("Option", TY("Stamp")), TY("HashMap", TY("String"), TY("Uuid")), ["tuple", [TY("Uuid"), TY("i32")]]]
    i = 0
    for ms in mapsets:
        for t in tys:
            for how in ("param", "let", "alias", "struct", "clone"):
                i += 1
                params = [["app", None, APP_T]]
                body = []
                if how == "param":
                    params.append(["x", None, t]); p = V("x")
                elif how == "let":
                    body.append(["let", ["typed", "x", t], ["call", V("make"), []]]); p = ["ref", V("x")]
                elif how == "alias":
                    params.append(["x", None, t]); body.append(["let", ["ident", "y", False], V("x")]); p = V("y")
                elif how == "clone":
                    params.append(["x", None, t]); p = M(V("x"), "clone")
                else:
                    if t[0] != "path" or t[4]:
                        continue
                    p = ["struct", list(t[1]) + [t[2]]]
                body.append(["expr", M(EMIT(V("app"), "mapped-evt", p), "ok")])
                body.append(["expr", M(EMIT_TO(V("app"), "literal-evt", ["lit", "int"]), "ok")])
                c = single(body, zod=(i % 2 == 0), params=params)
                c["mappings"] = dict(ms)
                cases.append(c)
    return cases


RAW_NAMES = ["r#type", "r#match", "r#final", "r#async", "r#in"]


def enum_raw_idents():
    """raw identifiers as payload variable names (typed parameter, typed / untyped let, alias, unbound -> name
    fall-back, field of a struct value), through x / &x / x.clone(), and as names of the functions hosting emits"""
    cases = []
    i = 0
    for rn in RAW_NAMES:
        for t in (TY("Progress"), ["ref", TY("Settings")], TY("u32"), TY("Vec", TY("Progress"))):
            for how in ("param", "let", "let-struct", "alias", "shadow-plain", "unbound", "field"):
                for wrapk in ("x", "&x", "x.clone()"):
                    i += 1
                    params = [["app", None, APP_T]]
                    body = []
                    v = V(rn)
                    if how == "param":
                        params.append([rn, None, t])
                    elif how == "let":
                        body.append(["let", ["typed", rn, t], ["call", V("make"), []]])
                    elif how == "let-struct":
                        body.append(["let", ["ident", rn, False], ["struct", ["Progress"]]])
                    elif how == "alias":
                        params.append(["src", None, t]); body.append(["let", ["ident", rn, i % 2 == 0], V("src")])
                    elif how == "shadow-plain":      # the same name without the prefix is a different key for the tool
                        params.append([rn[2:] + "_", None, t]); params.append([rn, None, TY("Other")])
                    elif how == "field":
                        params.append(["cfg", None, TY("Cfg")]); v = ["field", V("cfg"), rn]
                    p = {"x": v, "&x": ["ref", v], "x.clone()": M(v, "clone")}[wrapk]
                    body.append(["expr", M(EMIT(V("app"), "raw-evt", p), "ok")])
                    c = single(body, zod=(i % 3 == 0), params=params)
                    c["files"][0]["fns"][0]["name"] = RAW_NAMES[i % len(RAW_NAMES)] if i % 2 else "work"
                    cases.append(c)
    return cases



# ------------------------------------------------------------------ declared type of the emitting receiver (round 7)
def OQ(text):
    return ["opaque", text]


def handle_decls(h):
    """how the variable h that the emit is called on got its (declared / inferred / absent) type: name -> fn fields
    {params, pre (leading statements), generics, where}. The tool's receiver test looks at the NAME only; whatever
    the symbol table records for h (last path segment, first segment of an associated call, a copied entry,
    `unknown`, nothing) must not change which emits count."""
    T = TY

    def Pm(t, **kw):
        return dict({"params": [[h, None, t]], "pre": []}, **kw)

    def Lt(pre, params=(), **kw):
        return dict({"params": [list(q) for q in params], "pre": pre}, **kw)

    let = lambda init, mut=False: ["let", ["ident", h, mut], init]
    tlet = lambda t, init=None: ["let", ["typed", h, t], init if init is not None else ["call", V("make"), []]]
    src = lambda t: [["src", None, t]]
    return {
        # the handle types themselves, plain / referenced / qualified / with a runtime parameter
        "AppHandle": Pm(T("AppHandle")), "&AppHandle": Pm(["ref", T("AppHandle")]),
        "tauri::AppHandle<R>": Pm(T("AppHandle", T("R"), segs=["tauri"]), generics="<R: tauri::Runtime>"),
        "&tauri::Window": Pm(["ref", WIN_T]), "&mut WebviewWindow": Pm(["ref", T("WebviewWindow"), "&mut "]),
        "tauri::Webview": Pm(T("Webview", segs=["tauri"])), "&mut tauri::App": Pm(["ref", T("App", segs=["tauri"]), "&mut "]),
        "&'static AppHandle": Pm(["ref", T("AppHandle"), "&'static "]),
        # generic parameters and trait objects
        "&E, E: Emitter<R>": Pm(["ref", T("E")], generics="<R: Runtime, E: Emitter<R>>"),
        "H where H: Emitter": Pm(T("H"), generics="<H>", where="H: Emitter"),
        "&'a T": Pm(["ref", T("T"), "&'a "], generics="<'a, T: Emitter + Sync>"),
        "M: Manager": Pm(["ref", T("M")], generics="<R: Runtime, M: Manager<R> + Emitter<R>>"),
        "impl Emitter": Pm(OQ("impl Emitter")), "&impl Emitter<R>": Pm(["ref", OQ("impl Emitter<R>")], generics="<R: Runtime>"),
        "&dyn Emitter": Pm(["ref", OQ("dyn Emitter")]), "&mut dyn Emitter": Pm(["ref", OQ("dyn Emitter"), "&mut "]),
        # wrappers
        "Arc<tauri::WebviewWindow>": Pm(T("Arc", WV_T)), "std::sync::Arc<AppHandle>": Pm(T("Arc", T("AppHandle"), segs=["std", "sync"])),
        "Box<dyn Emitter>": Pm(T("Box", OQ("dyn Emitter"))), "Rc<Window>": Pm(T("Rc", T("Window"))), "&Arc<AppHandle>": Pm(["ref", T("Arc", T("AppHandle"))]),
        "tauri::State<'_, AppHandle>": Pm(T("State", OQ("'_"), T("AppHandle"), segs=["tauri"])),
        "MutexGuard<'_, Window>": Pm(T("MutexGuard", OQ("'_"), T("Window"))), "Option<AppHandle>": Pm(T("Option", T("AppHandle"))),
        "Cow<'_, AppHandle>": Pm(T("Cow", OQ("'_"), T("AppHandle"))),
        # other names: alias-like, application types, qualified
        "AppRef": Pm(T("AppRef")), "Win": Pm(["ref", T("Win")]), "SharedApp": Pm(T("SharedApp")), "Handle": Pm(T("Handle")),
        "crate::handles::MainWindow": Pm(T("MainWindow", segs=["crate", "handles"])), "window::Handle": Pm(["ref", T("Handle", segs=["window"])]),
        "AppState": Pm(T("AppState")), "WindowConfig": Pm(["ref", T("WindowConfig")]), "Self": Pm(T("Self")),
        "tuple": Pm(["tuple", [T("AppHandle"), T("u32")]]), "unknown (a type of that name)": Pm(T("unknown")),
        # let-bound handles: what infer_type_from_init makes of the initialiser
        "let = tauri::Builder::default()": Lt([let(["call", P("tauri", "Builder", "default"), []])]),
        "let = AppHandle::clone(&src)": Lt([let(["call", P("AppHandle", "clone"), [["ref", V("src")]]])], src(APP_T)),
        "let = Wrapper::new(src)": Lt([let(["call", P("Wrapper", "new"), [V("src")]], True)], src(APP_T)),
        "let = MainWindow { .. }": Lt([let(["struct", ["MainWindow"]])]), "let = &ui::Shell { .. }": Lt([let(["ref", ["struct", ["ui", "Shell"]]])]),
        "let = src (src: Handle)": Lt([let(V("src"))], src(T("Handle"))), "let = &src (src: &E)": Lt([let(["ref", V("src")])], src(["ref", T("E")]), generics="<E: Emitter>"),
        "let = src (src: impl Emitter)": Lt([let(V("src"))], src(OQ("impl Emitter"))),
        "let = src.clone()": Lt([let(M(V("src"), "clone"), True)], src(T("Handle"))), "let = build()": Lt([let(["call", V("build"), []])]),
        "let = src.get_webview_window().unwrap()": Lt([let(M(M(V("src"), "get_webview_window", SL("main")), "unwrap"))], src(APP_T)),
        "let: MyHandle": Lt([tlet(T("MyHandle"))]), "let: Arc<AppHandle>": Lt([tlet(T("Arc", T("AppHandle")))]),
        "let: &E = src": Lt([tlet(["ref", T("E")], V("src"))], src(["ref", T("E")]), generics="<E: Emitter>"),
        "let: impl-like opaque": Lt([tlet(["ref", OQ("dyn Emitter")])]), "let: tauri::WebviewWindow": Lt([tlet(WV_T)]),
        "let without init": Lt([["let", ["typed", h, T("Proxy")], None], ["other", "%s = make();" % h]]),
        # shadowing and leaking entries
        "param shadowed by Wrapper::new": Lt([let(["call", P("Wrapper", "new"), [V(h)]])], [[h, None, APP_T]]),
        "typed non-handle param shadowed opaquely": Lt([let(["call", V("make"), []])], [[h, None, T("Cfg")]]),
        "block-local typed let leaks": Lt([["expr", ["block", [["let", ["typed", h, T("Inner")], ["call", V("make"), []]]]]]], [[h, None, APP_T]]),
        "re-typed twice": Lt([tlet(T("First")), tlet(["ref", T("Second")])]),
    }


def enum_receiver_types():
    """declared TYPE of the emitting receiver x receiver name x receiver form x emit / emit_to x rotating placement and payload;
    non-handle names with the same declarations must still not count"""
    cases = []
    i = 0
    pays = [["struct", ["Heartbeat"]], V("user"), ["lit", "int"], ["ref", V("user")]]
    for h in ("app", "window", "webview", "emitter"):
        decls = handle_decls(h)
        for dn in decls:
            d = decls[dn]
            for recv in ([V(h)] if h == "emitter" else [V(h), M(V(h), "clone")]):
                for to in ((False,) if (h == "emitter" or recv[0] == "method") else (False, True)):
                    i += 1
                    pay = pays[i % len(pays)]
                    e = EMIT_TO(recv, "typed-recv", pay) if to else EMIT(recv, "typed-recv", pay)
                    pl = list(placements(e).values())
                    fn = {"name": "report", "cmd": False, "wrap": None, "params": [list(q) for q in d["params"]] + [["user", None, TY("User")]],
                          "body": list(d["pre"]) + pl[i % len(pl)], "generics": d.get("generics", ""), "where": d.get("where"),
                          "vis": "pub" if i % 2 else None, "quals": "async" if i % 5 == 0 else None}
                    cases.append({"files": [{"name": "src/lib.rs", "fns": [fn, command_fn(0)]}], "zod": i % 6 == 0})
    cases.append(seed_generic_handles())
    return cases


def seed_generic_handles():
    """the round-7 demonstration project: one command with a plain AppHandle, helpers generic over the emitter, an Arc-wrapped
    window, a handle taken from a builder call - four events, four listeners"""
    fn = lambda name, params, body, **kw: dict({"name": name, "cmd": False, "wrap": None, "params": params, "body": body, "vis": "pub"}, **kw)
    start = fn("start", [["app", None, TY("AppHandle")], ["total", None, TY("u32")]],
               [["expr", M(EMIT(V("app"), "job-started", V("total")), "ok")], ["expr", ["call", V("report"), [["ref", V("app")], ["struct", ["Progress"]]]]]], cmd=True)
    report = fn("report", [["app", None, ["ref", TY("E")]], ["progress", None, TY("Progress")]],
                [["expr", M(EMIT(V("app"), "job-progress", V("progress")), "ok")]], generics="<R: Runtime, E: Emitter<R>>")
    finish = fn("finish", [["window", None, TY("Arc", WV_T)], ["done", None, TY("u32")]], [["expr", M(EMIT_TO(V("window"), "job-finished", V("done")), "ok")]])
    announce = fn("announce", [["webview", None, TY("H")]], [["let", ["other", "_"], EMIT(V("webview"), "job:announced", ["lit", "bool"])]], generics="<H>", where="H: Emitter")
    boot = fn("boot", [], [["let", ["ident", "app", False], ["call", P("tauri", "Builder", "default"), []]], ["expr", ["try", EMIT(V("app"), "job-booted", ["tuple", []])]]],
              ret="tauri::Result<()>")
    return {"files": [{"name": "src/lib.rs", "fns": [start, report, finish, announce, boot]}], "zod": False}


# ------------------------------------------------------------------ event names beyond ASCII (round 7)
UNI_CLASSES = {
    # ECMAScript identifier letters of the scripts listed in Spec/C01Wf.v (a tool that kept them would print legal identifiers)
    "letter": ["é", "ß", "Ø", "Ω", "λ", "ж", "Ж", "更", "新", "か", "カ", "한", "ا", "क", "Ⅻ"],
    # letters with special case mappings (PascalCase would change their length or pick a title-case form)
    "letter-casing": ["ǆ", "ŉ", "ı", "İ", "ſ", "ﬁ"],
    # letters of scripts outside the explicit table of the spec (dropped by the tool today)
    "letter-other-script": ["ก", "א", "ა"],
    # Alphabetic for Rust, not ID_Continue for ECMAScript: circled / parenthesised / squared letters
    "enclosed": ["Ⓐ", "Ⓩ", "ⓐ", "ⓩ", "⒜", "\U0001f130", "\U0001f150", "\U0001f170", "\U0001f189", "①", "⑴", "㊀", "㋐"],
    "symbol": ["→", "★", "©", "€", "°", "✓", "♥", "\U0001f680", "∞", "×", "™"],
    "digit": ["٣", "३", "３", "৩", "²", "½", "₂", "Ⅷ"],
    "mark": ["é", "́", "a⃝", "̈", "‍", "‌", "ि", "️"],
    "punct-space": [" ", "«", "…", "・", "‿", "·", "　", "—", "－", "＿"],
}
UNI_TEMPLATES = ["grade-%s-awarded", "%s", "%s-ready", "item-%s", "grade%sawarded", "a_%s_b", "%s%s", "ns:%s/evt", "X%s", "job-%s9"]


def enum_unicode_names():
    """event names with non-ASCII characters of several Unicode classes at the start / between separators / inside a word / at the end /
    alone / doubled. Outside the theorem's name alphabet: the cases are judged by the oracle alone (one listener, subscribed to
    exactly that name, legal identifier incl. the ECMAScript code-point table of Spec/C12Uni.v) and by the correspondence."""
    cases = []
    i = 0
    recvs = [V("app"), V("window"), M(V("app"), "handle"), ["field", V("state"), "webview"]]
    for cls in sorted(UNI_CLASSES):
        for ch in UNI_CLASSES[cls]:
            for k, tpl in enumerate(UNI_TEMPLATES):
                if (k + i) % (2 if cls in ("enclosed", "letter") else 3):      # the two classes a naming change is most likely to split: all templates
                    continue
                i += 1
                n = tpl % ((ch,) * tpl.count("%s"))
                r = recvs[i % len(recvs)]
                e = EMIT_TO(r, n, ["lit", "int"]) if i % 4 == 0 else EMIT(r, n, ["struct", ["Heartbeat"]])
                cases.append(single([["expr", M(e, "ok")]], zod=(i % 5 == 0)))
    two = lambda m, n: single([["expr", M(EMIT(V("app"), m, ["lit", "int"]), "ok")], ["expr", M(EMIT(V("window"), n, SL("s")), "ok")]])
    # several names in one module: distinct ASCII parts (no collision), and names that differ only outside ASCII (inside kf_collision)
    cases.append(two("grade-Ⓐ-awarded", "grade-Ⓑ-revoked"))
    cases.append(two("更新-done", "完了-started"))
    cases.append(two("café-open", "cafe-closed"))
    cases.append(two("更新", "完了"))
    cases.append(two("a-Ⓐ", "a-Ⓑ"))
    cases.append(two("gré", "grè"))
    cases.append(single([["expr", M(EMIT(V("app"), "grade-Ⓐ-awarded", ["lit", "int"]), "ok")], ["expr", M(EMIT(V("app"), "更新", ["lit", "int"]), "ok")],
                         ["expr", M(EMIT_TO(V("webview"), "gréé-changed", ["struct", ["User"]]), "ok")]]))
    return cases


# ------------------------------------------------------------------ run histories
PAYS = {"User": ["struct", ["User"]], "Progress": ["struct", ["Progress"]], "Tick": ["struct", ["models", "Tick"]],
        "int": ["lit", "int"], "str": ["lit", "str", "s"], "bool": ["lit", "bool"], "unit": ["tuple", []]}
HFILES = ["src/a_first.rs", "src/lib.rs", "src/z_last.rs"]


def sites_case(sites, zod=False, mappings=None):
    """sites: [{"file": 0..2, "name": event, "pay": key of PAYS, "to": bool}], in source order per file"""
    files = []
    for fi, fname in enumerate(HFILES):
        body = []
        for s_ in sites:
            if s_["file"] == fi:
                e = EMIT_TO(V("app"), s_["name"], PAYS[s_["pay"]]) if s_.get("to") else EMIT(V("app"), s_["name"], PAYS[s_["pay"]])
                body.append(["expr", M(e, "ok")])
        fns = [{"name": "emitter_%d" % fi, "cmd": False, "wrap": None, "params": [["app", None, APP_T]], "body": body}]
        if fi == 1:
            fns.append(command_fn(0))
        files.append({"name": fname, "fns": fns})
    c = {"files": files, "zod": zod}
    if mappings:
        c["mappings"] = mappings
    return c


def hist_edits():
    """edit name -> function on the site list (returns a new list)"""
    import copy

    def chg(pos):
        def f(sites, rng):
            ss = copy.deepcopy(sites)
            multi = [n for n in {s_["name"] for s_ in ss} if sum(1 for t in ss if t["name"] == n) >= 2] or [ss[0]["name"]] if ss else []
            if not ss:
                return ss
            n = rng.choice(sorted(multi))
            idx = [i for i, t in enumerate(ordered(ss)) if t[1]["name"] == n]
            k = {"first": idx[0], "middle": idx[len(idx) // 2], "last": idx[-1]}[pos]
            tgt = ordered(ss)[k][0]
            ss[tgt]["pay"] = rng.choice([p for p in sorted(PAYS) if p != ss[tgt]["pay"]])
            return ss
        return f

    def ordered(ss):
        return sorted(enumerate(ss), key=lambda it: (HFILES[it[1]["file"]].split("/"), it[0]))

    def rename_all(ss, rng):
        ss = copy.deepcopy(ss)
        if ss:
            n = rng.choice(sorted({t["name"] for t in ss}))
            for t in ss:
                if t["name"] == n:
                    t["name"] = n + "-v2"
        return ss

    def rename_one(ss, rng):
        ss = copy.deepcopy(ss)
        if ss:
            rng.choice(ss)["name"] += "-x"
        return ss

    def add_new(ss, rng):
        return copy.deepcopy(ss) + [{"file": rng.randrange(3), "name": "added-%d" % len(ss), "pay": rng.choice(sorted(PAYS))}]

    def add_existing(ss, rng):
        ss = copy.deepcopy(ss)
        if ss:
            ss.insert(rng.randrange(len(ss) + 1), {"file": rng.randrange(3), "name": rng.choice(ss)["name"], "pay": rng.choice(sorted(PAYS))})
        return ss

    def remove_one(ss, rng):
        ss = copy.deepcopy(ss)
        if ss:
            ss.pop(rng.randrange(len(ss)))
        return ss

    def move_file(ss, rng):
        ss = copy.deepcopy(ss)
        if ss:
            t = rng.choice(ss)
            t["file"] = rng.choice([f for f in range(3) if f != t["file"]])
        return ss

    def swap_order(ss, rng):
        ss = copy.deepcopy(ss)
        if len(ss) >= 2:
            i = rng.randrange(len(ss) - 1)
            ss[i], ss[i + 1] = ss[i + 1], ss[i]
        return ss

    return {"unchanged": lambda ss, rng: copy.deepcopy(ss), "payload-first-site": chg("first"), "payload-middle-site": chg("middle"),
            "payload-last-site": chg("last"), "rename-event": rename_all, "rename-one-site": rename_one, "add-new-event": add_new,
            "add-site-of-existing": add_existing, "remove-emit": remove_one, "move-emit-to-other-file": move_file,
            "swap-emits": swap_order, "emit-to-toggle": lambda ss, rng: [dict(t, to=not t.get("to")) for t in ss],
            "remove-all": lambda ss, rng: []}


def enum_histories(rng, n_random):
    """every single edit after a base run (then an unchanged re-run), through the CLI and through the build-script entry
    point, plus random histories of 2-4 runs; all runs unforced into one output directory"""
    edits = hist_edits()
    bases = [
        [{"file": 0, "name": "tick", "pay": "int"}, {"file": 1, "name": "tick", "pay": "str"}, {"file": 2, "name": "tick", "pay": "User"},
         {"file": 1, "name": "job-done", "pay": "Progress"}],
        [{"file": 1, "name": "status", "pay": "User"}, {"file": 1, "name": "status", "pay": "bool", "to": True}, {"file": 1, "name": "solo", "pay": "unit"}],
        [{"file": 2, "name": "only", "pay": "Tick"}],
    ]
    hists = []
    i = 0
    for base in bases:
        for en in sorted(edits):
            for entry in ("cli", "build"):
                i += 1
                zod = i % 3 == 0
                v1 = edits[en](base, rng)
                steps = [sites_case(base, zod), sites_case(v1, zod), sites_case(v1, zod)]
                hists.append({"entry": entry, "edits": [en, "unchanged"], "steps": steps})
    names = sorted(edits)
    for _ in range(n_random):
        i += 1
        ss = [{"file": rng.randrange(3), "name": rng.choice(["tick", "tick", "sync", "user-updated"]), "pay": rng.choice(sorted(PAYS)),
               "to": rng.random() < 0.2} for _ in range(rng.randint(1, 5))]
        zod = rng.random() < 0.3
        mp = {"User": "string"} if rng.random() < 0.2 else None
        steps, eds = [sites_case(ss, zod, mp)], []
        for _ in range(rng.randint(1, 3)):
            en = rng.choice(names)
            ss = edits[en](ss, rng)
            eds.append(en)
            steps.append(sites_case(ss, zod, mp))
        hists.append({"entry": rng.choice(["cli", "build"]), "edits": eds, "steps": steps})
    return hists


def payload_forms():
    forms = {
        "str": SL("hello"), "int": ["lit", "int"], "float": ["lit", "float"], "bool": ["lit", "bool"], "unit": ["tuple", []],
        "char": ["lit", "other"], "struct": ["struct", ["User"]], "struct-qualified": ["struct", ["models", "User"]],
        "ref-struct": ["ref", ["struct", ["User"]]], "struct-clone": M(["struct", ["User"]], "clone"),
        "call": ["call", V("compute"), []], "assoc-call": ["call", P("User", "new"), []], "method": M(V("user"), "summary"),
        "field": ["field", V("user"), "id"], "macro": ["other", "vec![1]"], "binary": ["other", "count + 1"], "cast": ["other", "count as u64"],
        "closure-call": ["other", "(|| 1)()"], "index": ["other", "items[0]"], "paren-var": ["other", "(user)"],
        "tuple2": ["tuple", [V("count"), V("flag")]], "tuple1": ["tuple", [V("user")]], "ref-tuple": ["ref", ["tuple", [V("count"), V("flag")]]],
        "enum-path": P("Status", "Active"), "enum-path3": P("models", "Status", "Active"), "const": V("DEFAULT_USER"),
        "ref-enum": ["ref", P("Status", "Active")],
    }
    return forms


def enum_payloads():
    cases = []
    for name, p in payload_forms().items():
        cases.append(single([["expr", M(EMIT(V("app"), "evt", p), "ok")]]))
    # typed parameter / typed let / untyped let of every leaf and composite type, through x, &x, x.clone()
    for t in LEAF_TYPES + COMPOSITE_TYPES:
        for how in ("param", "let", "let-noinit", "alias", "alias-ref"):
            for wrapk in ("x", "&x", "x.clone()", "&x.clone()", "&&x"):
                x = V("x") if how in ("param", "let", "let-noinit") else V("y")
                p = {"x": x, "&x": ["ref", x], "x.clone()": M(x, "clone"), "&x.clone()": ["ref", M(x, "clone")], "&&x": ["ref", ["ref", x]]}[wrapk]
                body = []
                params = [list(q) for q in STD_PARAMS]
                if how == "param":
                    params.append(["x", None, t])
                elif how == "let":
                    body.append(["let", ["typed", "x", t], ["call", V("make"), []]])
                elif how == "let-noinit":
                    body.append(["let", ["typed", "x", t], None])
                elif how == "alias":
                    params.append(["x", None, t])
                    body.append(["let", ["ident", "y", False], V("x")])
                else:
                    params.append(["x", None, t])
                    body.append(["let", ["ident", "y", True], ["ref", V("x")]])
                if how in ("alias", "alias-ref", "let-noinit") and wrapk not in ("x", "x.clone()"):
                    continue
                body.append(["expr", M(EMIT(V("window"), "typed-evt", p), "ok")])
                cases.append(single(body, params=params))
    # untyped bindings and the symbol table's blind spots
    inits = [["struct", ["User"]], ["ref", ["struct", ["User"]]], ["call", P("User", "new"), []], ["call", P("Vec", "new"), []],
             ["call", P("std", "env", "args"), []], ["call", V("compute"), []], ["lit", "int"], SL("s"), M(V("user"), "clone"),
             ["tuple", []], ["field", V("user"), "id"], ["other", "count + 1"], ["await", ["call", V("fetch"), []]], ["try", ["call", V("load"), []]]]
    for init in inits:
        for shadow in (None, "user"):
            v = shadow or "data"
            cases.append(single([["let", ["ident", v, False], init], ["expr", M(EMIT(V("app"), "untyped", V(v)), "ok")]]))
    # scoping
    cases.append(single([["expr", ["block", [["let", ["typed", "user", TY("Inner")], ["call", V("make"), []]]]]],
                         ["expr", M(EMIT(V("app"), "after-block", V("user")), "ok")]]))
    cases.append(single([["expr", ["if", [["let", ["typed", "count", TY("String")], ["call", V("make"), []]]], None]],
                         ["expr", M(EMIT(V("app"), "after-if", V("count")), "ok")]]))
    cases.append(single([["let", ["typed", "user", TY("Admin")], ["block", [["expr", M(EMIT(V("app"), "in-init", V("user")), "ok")], ["expr", ["call", V("make"), []]]]]]]))
    cases.append(single([["let", ["other", "(a, b)"], ["call", V("pair"), []]], ["expr", M(EMIT(V("app"), "destructured", V("a")), "ok")]]))
    cases.append(single([["expr", M(EMIT(V("app"), "tuple-param", V("a")), "ok")]],
                        params=[["app", None, APP_T], [None, "(a, b)", ["tuple", [TY("i32"), TY("i32")]]]]))
    cases.append(single([["expr", M(EMIT(V("app"), "mut-param", V("m")), "ok")]], params=[["app", None, APP_T], ["m", "mut m", TY("User")]]))
    return cases


def enum_names():
    cases = []
    alpha = "aB1_-:/"
    names = [a for a in alpha] + [a + b for a in alpha for b in alpha] + ["a-b-c", "a__b", "-a", "a-", "_a_", "1st", "a1-b2", "user:created/now",
                                                                          "a//b", "ns:evt", "path/to/evt", "Z", "on", "onX", "types", "listen"]
    for n in names:
        cases.append(single([["expr", M(EMIT(V("app"), n, ["lit", "int"]), "ok")]]))
    small = [a for a in "aA_-"] + [a + b for a in "aA_-" for b in "aA_-"]
    pairs = [(m, n) for i, m in enumerate(small) for n in small[i + 1:]]
    for m, n in pairs:
        cases.append(single([["expr", M(EMIT(V("app"), m, ["lit", "int"]), "ok")], ["expr", M(EMIT(V("app"), n, SL("s")), "ok")]]))
    for m, n in [("a-b", "a_b"), ("user-updated", "user_updated"), ("ab", "Ab"), ("a_b", "aB"), ("x-1", "x_1"), ("a--b", "a-b"), ("_x", "x"),
                 ("a:b", "a-b"), ("a/b", "a_b"), ("ns:evt", "ns/evt"), ("ns:evt", "nsEvt"), ("a:b", "a:c"), ("user:created/now", "user-created-now")]:
        cases.append(single([["expr", M(EMIT(V("app"), m, ["lit", "int"]), "ok")], ["expr", M(EMIT(V("window"), n, ["lit", "int"]), "ok")]]))
    return cases


def enum_repeats():
    """one name from several sites / functions / files, equal and different payloads; no events at all"""
    cases = []
    e1 = ["expr", M(EMIT(V("app"), "tick", ["lit", "int"]), "ok")]
    e2 = ["expr", M(EMIT_TO(V("window"), "tick", ["lit", "int"]), "ok")]
    e3 = ["expr", M(EMIT(V("app"), "tick", SL("s")), "ok")]
    cases.append(single([e1, e1]))
    cases.append(single([e1, e2]))
    cases.append(single([e1, e3]))
    cases.append(single([e1, ["expr", ["if", [e1], ["block", [e1]]]]]))
    fn = lambda name, body, cmd=False: {"name": name, "cmd": cmd, "wrap": None, "params": [list(p) for p in STD_PARAMS], "body": body}
    cases.append({"files": [{"name": "src/lib.rs", "fns": [fn("a", [e1]), fn("b", [e1]), command_fn(0)]}], "zod": False})
    cases.append({"files": [{"name": "src/lib.rs", "fns": [fn("a", [e1]), command_fn(0)]}, {"name": "src/other.rs", "fns": [fn("b", [e2])]}], "zod": False})
    cases.append({"files": [{"name": "src/lib.rs", "fns": [fn("a", [e1]), command_fn(0)]}, {"name": "src/other.rs", "fns": [fn("b", [e3])]},
                            {"name": "src/deep/third.rs", "fns": [fn("c", [e1], True)]}], "zod": True})
    # no events
    cases.append(single([]))
    cases.append(single([["expr", ["call", V("log"), [SL("emit")]]]], zod=True))
    cases.append(single([["expr", M(EMIT(V("emitter"), "not-counted", ["lit", "int"]), "ok")]]))
    cases.append(single([["expr", M(M(V("app"), "emit", V("name"), ["lit", "int"]), "ok")]]))            # non-literal name
    cases.append(single([["expr", M(M(V("app"), "emit", SL("one-arg")), "ok")]]))
    cases.append(single([["expr", M(M(V("app"), "emit_to", SL("main"), SL("two-args")), "ok")]]))
    cases.append(single([["expr", M(M(V("app"), "emit_all", SL("x"), ["lit", "int"]), "ok")]]))
    cases.append(single([["expr", M(M(V("app"), "emit_filter", SL("x"), ["lit", "int"], ["other", "|_| true"]), "ok")]]))
    # events but no command at all
    cases.append(single([e1], cmd=False))
    cases.append(single([], cmd=False))
    # a command that itself emits
    cases.append({"files": [{"name": "src/lib.rs", "fns": [fn("start", [e1], True)]}], "zod": False})
    return cases


# ------------------------------------------------------------------ malformed / out-of-domain stream
def malformed_cases(rng, n):
    cases = []
    E = lambda nm="hidden": EMIT(V("app"), nm, ["lit", "int"])
    O = lambda text: [["other", text]]
    fixed = [
        [["expr", ["call", V("log"), [M(E("in-call-arg"), "is_ok")]]]],
        [["expr", M(V("list"), "push", M(E("in-method-arg"), "is_ok"))]],
        [["expr", M(EMIT(V("app"), "outer", M(E("in-payload"), "is_ok")), "ok")]],
        O("std::thread::spawn(move || { app.emit(\"in-closure\", 1).ok(); });"),
        O("println!(\"{:?}\", app.emit(\"in-macro\", 1));"),
        O("unsafe { app.emit(\"in-unsafe\", 1).ok(); }"),
        O("async { app.emit(\"in-async\", 1).ok(); };"),
        O("fn nested(app: tauri::AppHandle) { app.emit(\"in-nested-fn\", 1).ok(); }"),
        O("if app.emit(\"in-cond\", 1).is_ok() { }"),
        O("match app.emit(\"in-scrutinee\", 1) { _ => {} }"),
        O("while app.emit(\"in-while-cond\", 1).is_err() { }"),
        O("for _x in app.emit(\"in-for-iter\", 1) { }"),
        [["let", ["other", "Ok(_v)"], E("let-pattern")]],
        O("(app.emit(\"in-paren\", 1)).ok();"),
        O("!app.emit(\"in-unary\", 1).is_ok();"),
        O("return app.emit(\"in-return\", 1).unwrap();"),
        O("x = app.emit(\"in-assign\", 1).is_ok();"),
        O("let _c = || app.emit(\"closure-init\", 1);"),
        [["expr", ["tuple", [M(E("in-tuple"), "is_ok"), ["lit", "int"]]]]],
        [["let", ["ident", "a", False], ["ref", M(E("under-ref"), "is_ok")]]],
        [["expr", ["field", M(E("field-base"), "unwrap"), "len"]]],
        [["expr", M(["call", V("wrap"), [E("call-arg-then-method")]], "ok")]],
    ]
    for body in fixed:
        cases.append(single(body))
    for r in [V("r#app"), V("r#window"), ["field", V("state"), "r#webview"]]:       # raw spelling of a handle name: not recognised by the tool
        cases.append(single([["expr", M(EMIT(r, "raw-recv", ["lit", "int"]), "ok")]]))
    for r in UNDOC_RECEIVERS:
        cases.append(single([["expr", M(EMIT(r, "undoc-recv", ["lit", "int"]), "ok")]]))
    for nm in ["a.b", "with space", "é", "a+b", "q?", "", "a'b", "tab\there", "0", "$x", "a.b.c", "#tag", "a\"q"]:
        cases.append(single([["expr", M(EMIT(V("app"), nm, ["lit", "int"]), "ok")]]))
    for wrap in ("impl", "mod"):
        cases.append(single([], extra=[{"name": "hidden", "cmd": False, "wrap": wrap, "params": [["app", None, APP_T]],
                                        "body": [["expr", M(E("not-top-level"), "ok")]]}]))
    cases.append(single([["expr", M(M(V("app"), "emit", SL("three"), SL("args"), ["lit", "int"]), "ok")]]))
    # random: a structured case with one hidden emit injected somewhere undocumented
    while len(cases) < n:
        c = structured_case(rng, False)
        fn = rng.choice([fn for f in c["files"] for fn in f["fns"]])
        inj = rng.choice(fixed)
        pos = rng.randint(0, len(fn["body"]))
        fn["body"][pos:pos] = inj
        cases.append(c)
    return cases


# ------------------------------------------------------------------ binding histories of ONE name (Spec/C12Bind.v)
BIND_TYPES = ["User", "Profile", "Progress", "Ctx"]


def bind_step(kind, x, t):
    """one let statement that binds x: typable for the tool (typed, typed-noinit, struct, qstruct, ctor, copy, copy-ref) or not"""
    un = ["ident", x, False]
    return {"typed": ["let", ["typed", x, TY(t)], ["call", V("make"), []]],
            "typed-noinit": ["let", ["typed", x, TY(t)], None],
            "typed-ref": ["let", ["typed", x, ["ref", TY(t)]], ["ref", ["call", V("make"), []]]],
            "struct": ["let", un, ["struct", [t]]],
            "qstruct": ["let", ["ident", x, True], ["struct", ["models", t]]],
            "ctor": ["let", un, ["call", P(t, "new"), []]],
            "copy": ["let", un, V("user")],
            "copy-ref": ["let", un, ["ref", ["ref", V("count")]]],
            # un-typable for the tool: the table must stay as it is
            "call": ["let", un, ["call", V("compute"), []]],
            "noinit": ["let", un, None],
            "lit": ["let", un, ["lit", "int"]],
            "tuple": ["let", un, ["tuple", [V("count"), V("flag")]]],
            "field": ["let", un, ["field", V("state"), "inner"]],
            "copy-unknown": ["let", un, V("nowhere")],
            "method": ["let", un, M(V("title"), "len")],
            "block": ["let", un, ["block", [["expr", ["call", V("compute"), []]]]]],
            }[kind]


BIND_TYPABLE = ("typed", "typed-noinit", "typed-ref", "struct", "qstruct", "ctor", "copy", "copy-ref")
BIND_UNTYPABLE = ("call", "noinit", "lit", "tuple", "field", "copy-unknown", "method", "block")


def binding_history_case(x, is_param, steps, forms):
    """params (x among them or not), then the steps; an emit of x after EVERY step (and one before the first), so that one
    function shows the table after every prefix of the history"""
    params = [list(q) for q in STD_PARAMS]
    if is_param:
        params.append([x, None, TY("Settings")])
    wrapf = {"x": lambda v: v, "&x": lambda v: ["ref", v], "x.clone()": lambda v: M(v, "clone")}
    body = [["expr", M(EMIT(V("app"), "h0", wrapf[forms[0]](V(x))), "ok")]]
    for k, (kind, t) in enumerate(steps):
        body.append(bind_step(kind, x, t))
        if k % 2 == 1:
            body.append(bind_step(("typed", "call")[k % 4 == 1], "other", "Ctx"))        # a binding of another name in between
        body.append(["expr", M(EMIT(V("app"), "h%d" % (k + 1), wrapf[forms[(k + 1) % len(forms)]](V(x))), "ok")])
    return single(body, params=params)


def enum_bindings(rng, n_random):
    cases = []
    forms = ["x", "&x", "x.clone()"]
    kinds = BIND_TYPABLE + BIND_UNTYPABLE
    # every pair of kinds (second re-binds the first), with and without a parameter of the same name
    i = 0
    for a in kinds:
        for b in kinds:
            i += 1
            cases.append(binding_history_case(("item", "data", "u")[i % 3], i % 2 == 0, [(a, BIND_TYPES[i % 4]), (b, BIND_TYPES[(i + 1) % 4])],
                                              forms[i % 3:] + forms[:i % 3]))
    # random histories of three to six bindings; un-typable steps are half of the draws
    for _ in range(n_random):
        steps = [(rng.choice(BIND_UNTYPABLE if rng.random() < 0.5 else BIND_TYPABLE), rng.choice(BIND_TYPES)) for _ in range(rng.randint(3, 6))]
        cases.append(binding_history_case(rng.choice(["item", "data", "u", "r#type"]), rng.random() < 0.4, steps, [rng.choice(forms) for _ in range(3)]))
    return cases
