"""C05 - each emitted TypeScript type denotes the JSON shape serde produces.

Per Rust type expression the Rust driver (harness/src/bin/c05.rs) observes, through public items only:
what the three type_to_string variants print at parameter / return / channel / field position,
parse_type_structure of that string, and for both modes and all five sites the type text obtained by
building the real template contexts with the real visitors / schema builder and rendering the real
partial templates (so the add_types_prefix filter is included). The extracted model
(coq/Model/TypeParse.v, Render.v, C05Emit.v) must print the same strings; the extracted specification
(coq/Spec/C05Spec.v: TypeScript type parser, Zod reading, README table, namespace qualification) is the
oracle applied to the implementation's text."""
import json
import os
import random

from tools import vlib
from tools.vlib import Outcome, sx
from tools.props import c05_types as T
from tools.props import c05_proj

MANIFEST = {
    "level_text": "Coq theorems (Properties/C05.v, no axioms) over a faithful Gallina transcription of parse_type_structure (with the depth-aware find_top_level_comma / split_top_level), the default/TypeScript/Zod visitors, the Zod schema builder and add_types_prefix, for every type of the documented language (unbounded nesting): C05_parse_faithful (string -> TypeStructure round trip, no class premise); C05_sound_ts_sites - at every site whose text is a TypeScript type (parameter, field, channel in plain mode; channel, return, event payload in both modes: 8 of the 10 site x mode pairs) and outside the recorded classes the printed text, read by an independent TypeScript type parser with real precedences, is exactly the README-table shape of the Rust type, namespace-qualified at return/event sites (C05_sound_plain, C05_sound_prefix, C05_prefix_is_qualified_render: add_types_prefix on the visitor's text is the qualified rendering); C05_compositional_*; C05_oracle_exact (the boolean run-time oracle is equivalent to the Prop statement); C05_zod_tree_denotes, C05_sound_zod_schema and C05_sound_full_bounded (the full statement at all ten site x mode pairs, Zod parameter/field schemas included, for types nested less than 31 levels whose structure lies in the domain of the C10 round-trip theorem; see level_note); a computed refutation for each of the five remaining classes and a computed positive statement on the witnesses of the three repaired ones. The model is tied to /repo on every run: every constructor spine to depth 2 (quick) / 3 (thorough), all 14 numeric widths, random types to depth 6 and a malformed-string stream are pushed through the real parsers, visitors, schema builder and the real partial templates, compared string for string with the extracted model at all five sites in both modes, and the extracted specification is applied to the implementation's text.",
    "design_ref": "DESIGN.md section 5 C05",
    "level_note": "Tuples of every arity (the 1-tuple (T,), printed (T), reads as [T]) and project types with names such as Path, Date, Record are inside the enumerations (streams tuple-arity, special-names); the theorems never restricted tuple arity; Record / Map / Set as project type names are reserved in dom_b and judged by the run-time oracle only. ALL ten site x mode pairs are now theorems: C05_sound_full_bounded / C05_sound_zod_schema prove the full statement at every site in both modes with two decidable premises added - tsdepth (sem t) < 31 (the specification's expression parser has the fixed budget 64) and C10Zod.dom (sem t) (the domain of the C10 development's round-trip theorem C10LexEx.parse_build: map keys String/numbers, names not taken) - so types with a named or bool map key, or nested 31 levels or more, are covered at the Zod schema sites only CONDITIONALLY: C05_sound_all_sites / C05_sound_zod_schema_under_link give the statement under (a) the nesting premise tdepth (sem t) < 60 (the specification's expression parser has the fixed budget 64) and (b) the explicit hypothesis zod_parse_link - the builder's text parses to the builder's tree, parse_ex (build_schema m ts) = Some (zex_of m ts false) - which is the round trip the C10 development is proving; unconditional here are the reading of that tree (C05_zod_tree_denotes: zshape of the tree is the README shape, by structural induction) and the identity of the two builder models (C05_zod_builders_agree). For that remainder the two sites additionally rest on bounded sweeps of the model (C05_sweep_sound_depth1_partial / C05_classes_exact_depth1_partial in the property file: 196 types x 5 sites x 2 modes; the depth-2 sweep over the 3763 types of the quick enumeration is coq/Proofs/C05Sweep2.v, compiled by the thorough tier and kept out of the property's coqchk closure) plus the run-time oracle and correspondence; C05_sound_full_statement itself stays unasserted. Names with non-ASCII letters are inside the theorems on BOTH sides: C05_parse_faithful covers UTF-8 names (C05_utf8_names_admitted), and since Model/Render.is_idc (hence dom_b) and Spec/TsLex.is_id_start admit every byte >= 128, C05_utf8_names_admitted_ts shows that a name of bytes >= 128 and ASCII letters, digits, _ and $ (not reserved, not a table name) is a leaf of dom_b whose emitted text at every TypeScript-type site lexes and parses to the expected shape on the real bytes; compound types over such leaves fall under C05_sound_ts_sites / C05_sound_full_bounded as they stand. At run time (stream unicode-names) domain, oracle and classes are judged on the real bytes at all ten site x mode pairs; the consistent renaming to ASCII survives only as a cross-check (a verdict that changes under the renaming makes the site not ok; count in extra.non_ascii_image_disagreements, expected 0). The specification lexers treat every byte >= 128 as an identifier character - they do not check that the bytes form an ECMAScript ID_Continue code point (trusted: Rust identifiers are XID, a subset). Event payload type inference (event_parser.rs) and whole-project generation through the CLI are not exercised: the event site starts from EventInfo.payload_type. Repaired and no longer classes: C05-2, C05-3, C05-4. The TypeScript grammar subset, the Zod reading and the README table are specifications, not proved against tsc / zod / serde_json.",
    "technique": "Rocq/Coq proof over hand-written model + correspondence check (extracted OCaml vs Rust harness)"
}

RULE = ("a case is (Rust type, site, mode); non-trivial = the type has at least one constructor; distinct = distinct "
        "(type, site, mode). Streams: corpus (known-finding witnesses and regression cases), spines (every constructor at "
        "every argument position, nested to depth 2 quick / 3 thorough, leaves String,&str,i32,u64,f64,bool,(),struct,enum), "
        "numeric (all 14 widths at every position of every depth-1 type), random (depth <= 6), random-clean (depth <= 6, tuple elements and Result Ok arguments without commas), raw (malformed ASCII strings, "
        "unit-level functions only, correspondence only), printers (the three type_to_string variants on arrays, slices, lifetime / const "
        "generic arguments, qualified paths and fn types, bare and under six constructors; correspondence only); project level through "
        "the real CLI: payload-expression, module-path, payload-rebinding (a case is a binding history of the payload variable in one "
        "command - 2 bindings exhaustively over 6 types x 5 first kinds x every re-binding kind, 3-4 bindings at random - with the "
        "position of the emit, the payload form, an optional if-block and the mode; the listener type must be accepted by c05_ok for "
        "the type of the most recent binding before the emit, or be unknown)")
TRUSTED = [
    "Spec/TsType.v + Model/Render.v lexer: TypeScript type grammar subset with postfix [] above |, generics, tuples, qualified names (no tsc in the sandbox)",
    "Spec/C05Spec.v zshape: reading of z.string/number/boolean/void/array/set/record/tuple/union/object/optional/nullable/custom as the type z.infer gives (from the Zod documentation)",
    "Spec/C05Spec.v rshape: the README type table; qualify: names declared in types.ts are referred to as types.N from commands.ts/events.ts",
    "tools/props/c05_types.py printer of Rust type syntax; harness text extraction from rendered partial templates (fixed member names p, ch, f, event e)",
]
ASSUMPTIONS = ["type_mappings is a HashMap: lookup by exact key, one entry per key (modelled as an association list without duplicate keys)"]

# Named leaves whose identifiers contain 2-, 3- and 4-byte UTF-8 characters at the start, in the middle, at the end, several
# per name (legal Rust identifiers; the TypeScript side must carry the name verbatim)
UNI_LEAVES = ["String", "i32", "\u00c4rger", "Gr\u00f6\u00dfe", "Se\u00f1al", "Na\u00efvet\u00e9", "\u6570\u636e", "Row\u540d\u524d", "T\u00fcr\u00e9",
              "\U0001d4b3form", "Da\U0001d4b3ta", "Type\U0001d4b3", "User"]
UNI_CORE = ["String", "\u00c4rger", "Gr\u00f6\u00dfe", "\u6570\u636e", "Type\U0001d4b3", "Da\U0001d4b3ta"]
# project type names that collide with names the tool, Rust's std, tauri, TypeScript or Zod treat specially; the
# specification says: a project-defined Named type is rendered by its name (qualified where the site requires).
# Record, Map, Set are outside dom_b (reserved in the theorems) but judged by the same oracle.
SPECIAL_NAMES = ["Path", "PathBuf", "OsString", "Duration", "Instant", "Uuid", "Value", "Date", "Error", "Optional", "Vec2", "Map",
                 "Set", "Record", "Promise", "Array", "Channel", "State", "Window", "Str", "Number", "Boolean", "Object", "Function",
                 "Symbol", "Result2", "Schema", "Infer", "Readonly", "Partial", "Bytes", "Url", "Json", "i32", "String"]
SITES = ["param", "return", "field", "channel", "event"]
MODES = ["none", "zod"]
KF_BY_CLASS = {
    "kf_union_under_seq": "C05-1",
    "kf_prefix_unqualified": "C05-5",
    "kf_zod_optional": "C05-6",
    "kf_zod_set": "C05-7",
    "kf_zod_result": "C05-8",
}
PID = "C05"


def text_of(v):
    """harness site value -> string ('' when the site was not found; differing copies are joined)"""
    if v is None:
        return ""
    if isinstance(v, dict):
        return "<<differs>> " + json.dumps(v, sort_keys=True)
    return v


def non_ascii_renaming(t, acc=None):
    """{name: fresh ASCII identifier} for every path name of the type that contains a non-ASCII character"""
    acc = acc if acc is not None else {}
    if t[0] == "p":
        if any(ord(ch) > 127 for ch in t[1]) and t[1] not in acc:
            acc[t[1]] = "Nx%dq" % len(acc)
        for a in t[2]:
            non_ascii_renaming(a, acc)
    elif t[0] == "r":
        non_ascii_renaming(t[1], acc)
    else:
        for a in t[1]:
            non_ascii_renaming(a, acc)
    return acc


def rename_tree(t, ren):
    if t[0] == "p":
        return ["p", ren.get(t[1], t[1]), [rename_tree(a, ren) for a in t[2]]]
    if t[0] == "r":
        return ["r", rename_tree(t[1], ren)]
    return ["t", [rename_tree(a, ren) for a in t[1]]]


def rename_text(x, ren):
    for k in sorted(ren, key=len, reverse=True):
        x = x.replace(k, ren[k])
    return x


def evaluate(cases, kf_by_class=KF_BY_CLASS, want=None):
    """cases: [{"ty": tree, "mappings": {..}|None}] -> (outcomes per (type,site,mode), pipeline outcomes, stats)"""
    hcases = [{"id": i, "ty": T.src(c["ty"]), "printed": T.tts(c["ty"]), "mappings": c.get("mappings")} for i, c in enumerate(cases)]
    obs = vlib.run_harness("c05-emit", hcases, per_case_timeout=20)

    def texts_of(o):
        return [text_of((o.get(md) or {}).get(s)) if "panic" not in o and "error" not in o else ""
                for md in MODES for s in SITES]

    sexps, ascii_idx, ascii_sexps = [], [], []
    for i, (c, o) in enumerate(zip(cases, obs)):
        m = sorted((c.get("mappings") or {}).items())
        sexps.append(sx([T.sx_ty(c["ty"]), [[k, v] for k, v in m], texts_of(o)]))
        ren = non_ascii_renaming(c["ty"])
        if ren:
            # names with non-ASCII letters: the TypeScript side must carry the name VERBATIM. The specification's
            # lexers admit every byte >= 128 as an identifier character (C05_utf8_names_admitted_ts), so domain,
            # oracle and classes are judged on the REAL bytes. The image of the case under a consistent renaming of
            # those names to fresh ASCII identifiers (in the Rust type and in the implementation's texts alike) is
            # kept as a cross-check only: the verdicts must not depend on the spelling of the names.
            ascii_idx.append(i)
            ascii_sexps.append(sx([T.sx_ty(rename_tree(c["ty"], ren)), [[k, v] for k, v in m],
                                   [rename_text(x, ren) for x in texts_of(o)]]))
    res = vlib.run_runner("c05-emit", sexps)
    ascii_res = dict(zip(ascii_idx, vlib.run_runner("c05-emit", ascii_sexps)))
    site_out, pipe_out = [], []
    stats = {"in_class_but_ok": {}, "out_of_domain": 0, "classes": {}}
    for ci, (c, o, r) in enumerate(zip(cases, obs, res)):
        base = {"ty": T.tts(c["ty"]), "tree": c["ty"]}
        if c.get("mappings"):
            base["mappings"] = c["mappings"]
        nontriv = T.depth(c["ty"]) >= 1
        if r and r[0] == "runner-error":
            raise vlib.BuildError("runner: %s" % r)
        if "panic" in o or "error" in o:
            pipe_out.append(Outcome(dict(base, what="pipeline"), False, False,
                                    detail={"impl": o.get("panic") or o.get("error")}, nontrivial=nontriv))
            continue
        m_tts, m_struct, m_sem, m_opt, m_dom, m_sites, m_plain, m_prefix, m_zv = r
        if ci in ascii_res:
            # verdicts (domain, oracle, classes) come from the real bytes; the renamed image must agree on the domain,
            # the oracle's answer and the classes at every site - where it does not, the site is judged not ok
            ra = ascii_res[ci]
            stats["non_ascii_named"] = stats.get("non_ascii_named", 0) + 1
            if m_dom != ra[4]:
                stats["non_ascii_image_disagreements"] = stats.get("non_ascii_image_disagreements", 0) + 1
                m_dom = "false"
            merged = []
            for real, img in zip(m_sites, ra[5]):
                real = list(real)
                if real[1] != img[1] or real[4] != img[4]:
                    stats["non_ascii_image_disagreements"] = stats.get("non_ascii_image_disagreements", 0) + 1
                    real[1] = "false"
                merged.append(real)
            m_sites = merged
        if m_dom != "true":
            stats["out_of_domain"] += 1
        # string and structure level
        pdet = {}
        pcorr = True
        for s in ("param", "return", "field", "channel"):
            if o["tts"][s] != m_tts:
                pcorr = False
                pdet["tts." + s] = {"impl": o["tts"][s], "model": m_tts}
            if o["structure"][s] != m_struct:
                pcorr = False
                pdet["structure." + s] = {"impl": o["structure"][s], "model": m_struct}
        if o["structure"]["direct"] != m_struct:
            pcorr = False
            pdet["structure.direct"] = {"impl": o["structure"]["direct"], "model": m_struct}
        for k, mv in (("plain", m_plain), ("prefix", m_prefix), ("zod_interface", m_plain)):
            if o["none"][k] != mv:
                pcorr = False
                pdet[k] = {"impl": o["none"][k], "model": mv}
        if o["zod"]["visitor"] != m_zv:
            pcorr = False
            pdet["zod.visitor"] = {"impl": o["zod"]["visitor"], "model": m_zv}
        want_opt = "true" if o["is_optional"]["param"] else "false"
        if want_opt != m_opt or o["is_optional"]["param"] != o["is_optional"]["field"]:
            pcorr = False
            pdet["is_optional"] = {"impl": o["is_optional"], "model": m_opt}
        pdet.setdefault("structure", o["structure"]["direct"])
        pipe_out.append(Outcome(dict(base, what="pipeline"), pcorr, True, detail=pdet, nontrivial=nontriv))
        i = 0
        for md in MODES:
            for s in SITES:
                model_text, ok, observed, expected, classes = m_sites[i]
                i += 1
                if want and (s, md) not in want:
                    continue
                impl_text = text_of(o[md].get(s))
                corr = impl_text == model_text
                okb = ok == "true"
                for k in classes:
                    stats["classes"][k] = stats["classes"].get(k, 0) + 1
                kf = kf_by_class.get(classes[0]) if classes else None
                if okb and classes:
                    stats["in_class_but_ok"][classes[0]] = stats["in_class_but_ok"].get(classes[0], 0) + 1
                det = {"impl": impl_text, "model": model_text, "reads_as": observed, "expected": expected,
                       "classes": classes}
                site_out.append(Outcome(dict(base, site=s, mode=md), corr, okb, kf=kf, detail=det, nontrivial=nontriv))
    return site_out, pipe_out, stats


RAW_ALPHABET = ["Option<", "Vec<", "Result<", "HashMap<", "BTreeMap<", "HashSet<", "BTreeSet<", "(", ")", ">", ">", ",", ", ",
                " ", "&", "String", "i32", "User", "bool", "()", "str", "<", "Option", "Map<", "Record<", "types.", "[]"]


def raw_cases(rng, n):
    out = []
    for i in range(n):
        k = rng.randint(1, 9)
        out.append({"id": i, "ty": "".join(rng.choice(RAW_ALPHABET) for _ in range(k))})
    return out


def evaluate_raw(cases):
    obs = vlib.run_harness("c05-raw", cases, per_case_timeout=20)
    res = vlib.run_runner("c05-raw", [sx([c["ty"], [[k, v] for k, v in sorted((c.get("mappings") or {}).items())]]) for c in cases])
    outs = []
    for c, o, r in zip(cases, obs, res):
        case = {"raw": c["ty"]}
        if "panic" in o:
            outs.append(Outcome(case, False, True, detail={"impl": "PANIC " + o["panic"], "model": r}))
            continue
        if len(r) < 5:
            outs.append(Outcome(case, False, True, detail={"impl": o, "model": "out of fuel"}))
            continue
        impl = [o["structure"], o["plain"], o["prefix"], o["visitor"], o["builder"]]
        corr = impl == list(r) and o["zod_interface"] == o["plain"] and o["param_builder"] == o["builder"]
        outs.append(Outcome(case, corr, True, detail={"impl": impl, "model": list(r)}, nontrivial=len(c["ty"]) > 3))
    return outs


# ---- the three type_to_string variants on types beyond the documented language (Model/C05TypeStr.v) ----
def x_src(t):
    k = t[0]
    if k == "p":
        segs = []
        for sg in t[1]:
            if len(sg) == 1:
                segs.append(sg[0])
            else:
                segs.append(sg[0] + "<" + ", ".join("'static" if a[0] == "lt" else ("3" if a[0] == "const" else x_src(a[1])) for a in sg[1]) + ">")
        return "::".join(segs)
    if k == "r":
        return "&" + x_src(t[1])
    if k == "t":
        return "(" + ", ".join(x_src(a) for a in t[1]) + ("," if len(t[1]) == 1 else "") + ")"
    if k == "arr":
        return "[" + x_src(t[1]) + "; 4]"
    if k == "slice":
        return "[" + x_src(t[1]) + "]"
    return "fn(i32) -> i32"


def x_cases():
    P = lambda name, *args: ["p", [[name, [["ty", a] for a in args]] if args else [name]]]
    u8, user, s = P("u8"), P("User"), P("str")
    base = [
        ["arr", u8], ["arr", user], ["r", ["slice", u8]], ["r", ["slice", user]], ["other"],
        ["p", [["Cow", [["lt"], ["ty", s]]]]], ["p", [["Foo", [["lt"]]]]], ["p", [["Matrix", [["ty", P("f32")], ["const"], ["const"]]]]],
        ["p", [["std"], ["borrow"], ["Cow", [["lt"], ["ty", s]]]]], ["p", [["std"], ["path"], ["PathBuf"]]],
        ["p", [["Box", [["ty", ["other"]]]]]], ["arr", ["arr", u8]], ["p", [["Wrapper", [["lt"], ["ty", user], ["const"]]]]],
        user, P("HashMap", P("String"), ["arr", u8]),
    ]
    out = list(base)
    for b in base:
        out += [P("Vec", b), P("Option", b), ["t", [P("i32"), b]], ["r", b], P("Result", b, P("String")), P("HashMap", P("String"), b)]
    return out


def evaluate_printers(cases):
    """type_to_string at parameter/return (CommandParser), field (StructParser), channel (ChannelParser) vs the model"""
    obs = vlib.run_harness("c05-emit", [{"id": i, "ty": x_src(t), "mappings": None} for i, t in enumerate(cases)], per_case_timeout=20)
    res = vlib.run_runner("c05-printers", [sx(t) for t in cases])
    outs = []
    for t, o, r in zip(cases, obs, res):
        case = {"printers": x_src(t)}
        if "panic" in o or "error" in o:
            outs.append(Outcome(case, False, True, detail={"impl": o.get("panic") or o.get("error"), "model": list(r)}))
            continue
        impl = {"command": o["tts"]["param"], "return": o["tts"]["return"], "struct": o["tts"]["field"], "channel": o["tts"]["channel"]}
        model = {"command": r[0], "return": r[0], "struct": r[1], "channel": r[2]}
        outs.append(Outcome(case, impl == model, True, detail={"impl": impl, "model": model}))
    return outs


def corpus_cases(pid):
    """known-finding witnesses first, then corpus/<pid>/*.json (lists of {"rust_type", "mappings"?})"""
    cases = []
    for e in vlib.load_known_findings(pid):
        w = e["witness"]
        cases.append({"ty": T.parse(w["rust_type"]), "mappings": w.get("mappings")})
    d = os.path.join(vlib.VERIF, "corpus", pid)
    if os.path.isdir(d):
        for f in sorted(os.listdir(d)):
            if f.endswith(".json"):
                for w in json.load(open(os.path.join(d, f))):
                    cases.append({"ty": T.parse(w["rust_type"]), "mappings": w.get("mappings")})
    return cases


def distribution(cases):
    d = {"depth": {}, "constructors": {}}
    for c in cases:
        k = str(T.depth(c["ty"]))
        d["depth"][k] = d["depth"].get(k, 0) + 1
        for x in T.constructors(c["ty"]):
            d["constructors"][x] = d["constructors"].get(x, 0) + 1
    return d


def merge(a, b):
    for k, v in b.items():
        if isinstance(v, dict):
            merge(a.setdefault(k, {}), v)
        else:
            a[k] = a.get(k, 0) + v


def run_stream(rep, name, cases, stats_all):
    site_out, pipe_out, stats = evaluate(cases)
    rep.add(name, site_out)
    rep.add(name + "-pipeline", pipe_out, sample_count=1)
    merge(stats_all, stats)
    rep.extra.setdefault("distribution", {})[name] = dict(distribution(cases), types=len(cases))


def run(rep):
    vlib.build_harness("c05")
    vlib.build_runner("c05")
    rng = random.Random(rep.seed)
    stats = {}
    run_stream(rep, "corpus", corpus_cases(PID), stats)
    # project-level corpus (real CLI binary): finding witnesses and regression cases of the payload-rebinding stream
    vlib.build_repo_bin()
    rep.add("corpus-rebinding", c05_proj.evaluate_rebinding(c05_proj.rb_corpus()), sample_count=1)
    thorough = rep.tier == "thorough"
    run_stream(rep, "spines", [{"ty": t} for t in T.spines(3 if thorough else 2)], stats)
    run_stream(rep, "numeric", [{"ty": t} for t in T.numeric_sweep()], stats)
    nrand = 20000 if thorough else 1500
    run_stream(rep, "random", [{"ty": T.random_type(rng, rng.randint(2, 6))} for _ in range(nrand)], stats)
    run_stream(rep, "random-clean", [{"ty": T.random_clean_type(rng, rng.randint(2, 6))} for _ in range(nrand)], stats)
    run_stream(rep, "tuple-arity", [{"ty": t} for t in T.tuple_arity_types()], stats)
    # project-defined types named like std / tauri / TypeScript / Zod things: always rendered by name
    special = {}
    run_stream(rep, "special-names", [{"ty": t} for t in T.spines(1, leaves=SPECIAL_NAMES)] +
               [{"ty": T.random_type(rng, rng.randint(2, 5), leaves=SPECIAL_NAMES)} for _ in range(3000 if thorough else 400)], special)
    merge(stats, {k: v for k, v in special.items() if k != "out_of_domain"})
    rep.extra["special_names_outside_dom_b"] = special.get("out_of_domain", 0)
    uni = [{"ty": t} for t in T.spines(1, leaves=UNI_LEAVES)]
    uni += [{"ty": t} for t in T.spines(3 if thorough else 2, leaves=UNI_CORE) if T.depth(t) >= 2]
    uni += [{"ty": T.random_type(rng, rng.randint(2, 6), leaves=UNI_LEAVES)} for _ in range(5000 if thorough else 600)]
    run_stream(rep, "unicode-names", uni, stats)
    rep.extra["non_ascii_named_types"] = stats.get("non_ascii_named", 0)
    rep.extra["non_ascii_image_disagreements"] = stats.get("non_ascii_image_disagreements", 0)
    rep.add("raw", evaluate_raw(raw_cases(rng, 20000 if thorough else 3000)))
    rep.add("printers", evaluate_printers(x_cases()))
    # project level, real CLI binary: the event payload site as the tool reaches it, module-qualified spellings
    vlib.build_repo_bin()
    rep.add("payload-expression", c05_proj.evaluate_exprs())
    rep.add("module-path", c05_proj.evaluate_paths(rep.tier))
    # the payload VARIABLE bound two to four times in one function (typed parameter / annotated let / struct literal /
    # T::ctor() / copy, then lets the event parser cannot type, of the same or of another type), emit before / after the
    # re-binding, both modes: listener type judged by c05_ok against the type the emit really sends (or `unknown`)
    rb = c05_proj.rb_cases(rng, 3000 if thorough else 200)
    rep.add("payload-rebinding", c05_proj.evaluate_rebinding(rb))
    rep.extra.setdefault("distribution", {})["payload-rebinding"] = c05_proj.rebinding_distribution(rb)
    if thorough:
        # the depth-2 sweep of the model inside Coq (same enumeration as the quick tier's spines stream)
        rc, out = vlib.coq_make(["Proofs/C05Sweep2.vo"], timeout=2700)
        rep.extra["depth2_sweep_in_coq"] = "Proofs/C05Sweep2.vo compiled" if rc == 0 else "FAILED"
        if rc != 0 and rep.proof is not None:
            rep.proof["problems"].append("Proofs/C05Sweep2.vo (depth-2 sweep of the model) does not compile:\n" + out[-2000:])
    rep.extra["class_counts"] = stats.get("classes", {})
    rep.extra["in_class_but_property_holds"] = stats.get("in_class_but_ok", {})
    rep.extra["out_of_domain_cases"] = stats.get("out_of_domain", 0)
    if stats.get("out_of_domain", 0):
        raise vlib.BuildError("generator produced %d types outside the domain predicate" % stats["out_of_domain"])


def replay(rep, payload):
    vlib.build_harness("c05")
    vlib.build_runner("c05")
    items = payload.get("disagreeing_cases") or [payload]
    for it in items:
        c = it["case"]
        if "raw" in c:
            rep.add("raw", evaluate_raw([{"id": 0, "ty": c["raw"]}]))
            continue
        if c.get("what") == "payload-expression":
            vlib.build_repo_bin()
            rep.add("payload-expression", [o for o in c05_proj.evaluate_exprs((c["mode"],)) if o.case["tag"] == c["tag"]])
            continue
        if c.get("what") == "payload-rebinding":
            vlib.build_repo_bin()
            rep.add("payload-rebinding", c05_proj.evaluate_rebinding([c]))
            continue
        if c.get("what") == "module-path":
            vlib.build_repo_bin()
            rep.add("module-path", [o for o in c05_proj.evaluate_paths("thorough")
                                    if all(o.case[k] == c[k] for k in ("prefix", "site", "binding", "mode"))])
            continue
        if "printers" in c:
            rep.add("printers", evaluate_printers([t for t in x_cases() if x_src(t) == c["printers"]]))
            continue
        case = {"ty": c["tree"], "mappings": c.get("mappings")}
        want = {(c["site"], c["mode"])} if "site" in c else None
        site_out, pipe_out, _ = evaluate([case], want=want)
        rep.add(it.get("stream", "replay"), site_out if "site" in c else pipe_out + site_out)
