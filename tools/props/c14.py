"""C14 - re-running with nothing changed rewrites nothing; --force always regenerates.
Correspondence: repeated non-forced runs of 1..6-file projects in fresh processes (fresh hash seeds) on both
entry points, the discovery order of every run reconstructed (CLI: --verbose listing; build path: order of
the wrappers in commands.ts) and fed to the extracted model; forced runs from every cache state.
Oracle: bytes, mtime and inode of every file of the output directory before/after."""
import copy
import json
import os
import random
import re

from tools import vlib
from tools.vlib import Outcome, sx
from tools.props import c08_common as C

MANIFEST = {
    "level_text": "Coq theorems (Properties/C14.v, no axioms) about the run/cache state machine of Model/C08Run.v instantiated with the fingerprint of generation_cache.rs: the fingerprint of the patched code (commands sorted by (file, name), type mappings through a BTreeMap) is the same under every valid discovery order (C14_fp_order_independent, by isort_perm_invariant), so for all states and all pairs of valid orders a non-forced run after a successful or up-to-date run answers up to date and changes nothing - no order class is left, the former two-file and two-mapping witnesses are proved no-ops; a non-forced run over a record equal to the current fingerprint is a no-op whatever flags, files or -o spellings produced the inputs; remaining class kf_C14_path (the spelling of the project path enters file_path, which is hashed), refuted by a computed witness; with --force or force:true every run with commands rewrites every file of the plan and the record from every cache state, and the flag can only switch forcing on; the iteration order of the type_mappings map reaches nothing - two schedules that agree on the file order give the same fingerprint, write plan and unhashed component, the same result and state of every run and of every history (C14_map_order_irrelevant, C14_run_map_order_irrelevant, C14_history_map_order_irrelevant, for every presence flag, fault and state); the per-file command order premise of C14_fp_order_independent is derived from the structure of the project (pairwise distinct relative file paths, every command carrying its file's path: C14_per_file_order_from_structure, C14_fp_order_independent_structural). Tied to /repo by re-running 1..6-file projects in fresh processes on both entry points with the observed discovery orders fed to the extracted model, by forced runs from the cache states absent/matching/mismatching/corrupt/other version, and by sequences of runs that spell the same effective settings differently (--force, --verbose, -v, --visualize-deps versus the file, typegen.json versus tauri.conf.json, relative/bare/absolute -p and -o).",
    "design_ref": "DESIGN.md section 5 C08, C14, C17; section 11 idempotent, isort_perm_invariant",
    "level_note": "Hash orders are sampled by fresh processes, not enumerated; on the build-script path the order of a run that answers up to date is not observable and is taken to be the order of the record it matched, type_mappings (1 and 3 entries in the rerun stream, 2, 4 and 6 entries with at least 5 re-runs in fresh processes in the added rerun cases) are exercised on both entry points - on the build-script path the map order of a run is not observable and the identity order is fed to the model, which C14_run_map_order_irrelevant proves immaterial; file contents are views as in C08; mtime granularity is the file system's (ns).",
    "technique": "Rocq/Coq proof over hand-written model + correspondence check (extracted OCaml vs real binary and Rust driver)"
}

RULE = ("rerun: projects of 1..6 source files (one command each, with and without structs, optionally 2-3 type mappings on the CLI path) "
        "x CLI/build x 1 generating run + 3 (quick) / 8 (thorough) non-forced re-runs in fresh processes; force: cache states "
        "{absent, matching, mismatching, corrupt, version} x {--force, force:true, --force with force:false, no forcing} x CLI/build "
        "x modes; witnesses of the schedule findings replayed in 16 re-runs. Non-trivial: at least one re-run or a forced run; "
        "distinct = distinct case descriptions")
TRUSTED = ["reconstruction of the discovery order from --verbose output (CLI) / wrapper order in commands.ts (build path)",
           "python renderer description -> Rust source / typegen.json / analysed data (tools/props/c08_common.py)"]
ASSUMPTIONS = ["a fresh process draws fresh RandomState keys (std); SipHash with DefaultHasher::new() keys is deterministic across processes",
               "equal combined_hash <=> equal fingerprint"]


def observed_sched(world, r, desc, prev):
    """(file order, map order) of the run just made; None components when not observable."""
    names = {}
    for i, f in enumerate(desc["files"]):
        for c in f["commands"]:
            names.setdefault(c["name"], i)
    tm = desc["cfg"].get("type_mappings") or {}
    keys = sorted(tm)
    forder = morder = None
    if world.entry == "cli":
        cmds = re.findall(r"^\S+\s+- (\w+) \(", r["full_text"], re.M)
        seen = []
        for c in cmds:
            if c in names and names[c] not in seen:
                seen.append(names[c])
        if len(seen) == len(desc["files"]):
            forder = seen
        maps = re.findall(r"^\S+\s+(\w+) → \w+\s*$", r["full_text"], re.M)
        if len(maps) == len(keys):
            morder = [keys.index(k) for k in maps]
    else:
        if r["decision"] == "regenerated" and "commands.ts" in r["rewritten"]:
            txt = open(world.out("commands.ts")).read()
            seen = []
            for m in re.findall(r"invoke(?:<[^(]*>)?\('(\w+)'", txt):
                if m in names and names[m] not in seen:
                    seen.append(names[m])
            if len(seen) == len(desc["files"]):
                forder = seen
        elif prev is not None:
            forder = prev[0]          # a hit: same fingerprint as the record, i.e. the recorded order
        morder = list(range(len(keys)))
    return forder, morder


def run_rerun(case):
    desc = C.multi_project(case["nfiles"], case["structs"], names=(C.TIE_NAMES if case.get("tienames") else None),
                           events_each=bool(case.get("events_each")))
    if case.get("layout") == "onefile":
        # all commands (and structs) in one source file: the discovery order is the source order
        one = {"path": "all.rs", "structs": [], "commands": [], "events": []}
        for f in desc["files"]:
            one["structs"] += f["structs"]
            one["commands"] += f["commands"]
        desc["files"] = [one]
    if case.get("ties"):
        # every hashed collection gets ties under its sort key: one command name in two files, one struct name in
        # two files, one event name emitted with several payload types (in one file and across files)
        fs = desc["files"]
        for i, f in enumerate(fs[:2]):
            f["commands"].append({"name": "same_cmd", "async": False, "rename_all": None,
                                  "params": [{"name": "shared", "type": "Shared"}], "ret": "String", "channels": []})
            f["structs"].append({"name": "Shared", "is_enum": False, "rename_all": None, "fields": [
                {"name": "from_%d" % i, "type": "u32", "public": True, "rename": None, "skip": False, "validator": None}]})
        fs[0]["events"] += [{"name": "job-status", "payload": "String"}, {"name": "job-status", "payload": "i32"},
                            {"name": "job-status", "payload": "bool"}]
        fs[-1]["events"] += [{"name": "job-status", "payload": "Shared"}, {"name": "other", "payload": "String"}]
    desc["cfg"]["visualize_deps"] = bool(case.get("viz"))
    if case.get("maps"):
        desc["cfg"]["type_mappings"] = {"Alpha%d" % i: ["string", "number", "boolean"][i % 3] for i in range(case["maps"])}
    desc["cfg"]["validation_library"] = case.get("mode", "none")
    extra = ["--verbose"] if case["entry"] == "cli" else []
    obs, steps = [], []
    last_regen = None
    with vlib.Sandbox("c14r") as sb:
        w = C.World(sb, case["entry"])
        w.set_desc(desc)
        for i in range(1 + case["reruns"]):
            r = w.run(extra=extra)
            sched = observed_sched(w, r, desc, last_regen)
            rec = w.cache_record()
            o = {"decision": r["decision"], "rewritten": r["rewritten"], "removed": r["removed"], "changed_bytes": r["changed_bytes"],
                 "sched": sched, "commands_hash": rec and rec["commands_hash"], "config_hash": rec and rec["config_hash"]}
            if r["decision"] == "regenerated" and sched[0] is not None:
                last_regen = sched
            obs.append(o)
            steps.append(["run", [sched[0] or [], sched[1] or []], False, None])
    return desc, obs, steps


def eval_rerun(cases):
    res = vlib.pmap(run_rerun, cases)
    traces = vlib.run_runner("c14-trace", [sx([C.sx_project(d), C.sx_cfg(d["cfg"]), st]) for d, _, st in res])
    # class predicate and oracle (extracted Gallina) per re-run
    q_order, q_idem, idx = [], [], []
    for i, (d, obs, steps) in enumerate(res):
        last = None
        for k, o in enumerate(obs):
            if k > 0:
                ref = last if last is not None else steps[0][1]
                q_order.append(sx([ref, steps[k][1], C.sx_project(d), C.sx_cfg(d["cfg"])]))
                dec = o["decision"] if o["decision"] in ("no_commands", "up_to_date", "regenerated", "failed") else "failed"
                # every file of the output directory: touched (mtime/inode), changed bytes, or gone
                q_idem.append(sx([dec, len(set(o["rewritten"]) | set(o["changed_bytes"]) | set(o["removed"]))]))
                idx.append((i, k))
            if o["decision"] == "regenerated":
                last = steps[k][1]
    order = dict(zip(idx, vlib.run_runner("c14-order", q_order)))
    idem = dict(zip(idx, vlib.run_runner("c14-idem", q_idem)))
    outs = []
    for i, (case, (d, obs, steps), tr) in enumerate(zip(cases, res, traces)):
        corr = ok = True
        kf = None
        unknown_fail = False
        spurious = 0
        detail = None
        for k, (o, mo) in enumerate(zip(obs, tr)):
            observable = o["sched"][0] is not None and o["sched"][1] is not None
            step_corr = observable and o["decision"] == mo[0]
            step_ok = True
            if k == 0:
                step_ok = o["decision"] == "regenerated"
            else:
                step_ok = idem[(i, k)] == "true"
                if not step_ok:
                    spurious += 1
                    # no order class is left (C14_fp_order_independent): any rewriting re-run is a violation
                    unknown_fail = True
            if (not step_corr or not step_ok) and detail is None:
                detail = {"step": k, "impl": o, "model": mo[0]}
            corr &= step_corr
            ok &= step_ok
        if unknown_fail:
            kf = None
        d_out = detail or {}
        d_out.update({"decisions": [o["decision"] for o in obs], "orders": [o["sched"] for o in obs],
                      "commands_hash": [o["commands_hash"] for o in obs], "spurious_regenerations": spurious,
                      "reruns": len(obs) - 1})
        if detail is not None:
            d_out["sources"] = {f["path"]: C.render_rs(f) for f in d["files"]}
            d_out["config"] = C.render_cfg(d["cfg"])
        outs.append(Outcome(case, corr, ok, kf=kf, detail=d_out, nontrivial=True))
    return outs


# ---- forced runs -----------------------------------------------------------------------------------------

CACHE_STATES = ["absent", "matching", "mismatching", "corrupt", "version"]
FORCINGS = ["flag", "file_true", "flag_over_file_false", "none"]


def run_force(case):
    desc = C.base_project()
    desc["cfg"]["validation_library"] = case["mode"]
    if case.get("viz"):
        desc["cfg"]["visualize_deps"] = True
    steps, obs = [], []
    sched = [[0], []]
    with vlib.Sandbox("c14f") as sb:
        w = C.World(sb, case["entry"])
        w.set_desc(desc)
        st = case["cache"]
        if st != "absent":
            w.run()
            steps.append(["run", sched, False, None])
        if st == "mismatching":
            desc = C.apply_edit(desc, "param_type")
            w.set_desc(desc)
            steps.append(["set", C.sx_project(desc), C.sx_cfg(desc["cfg"])])
        elif st == "corrupt":
            open(w.out(C.CACHE), "w").write("{ not json")
            steps.append(["dropcache"])
        elif st == "version":
            rec = w.cache_record()
            rec["version"] = 2
            json.dump(rec, open(w.out(C.CACHE), "w"))
            steps.append(["dropcache"])
        f = case["forcing"]
        d2 = copy.deepcopy(desc)
        flag = f in ("flag", "flag_over_file_false")
        d2["cfg"]["force"] = {"flag": None, "file_true": True, "flag_over_file_false": False, "none": None}[f]
        w.set_desc(d2)
        steps.append(["set", C.sx_project(d2), C.sx_cfg(d2["cfg"])])
        before = w.stat()
        r = w.run(force=flag)
        steps.append(["run", sched, flag, None])
        after = w.stat()
        expected = [n for n in C.reference(desc, case["entry"])["files"]] + [C.CACHE]
        all_rewritten = all(n in r["rewritten"] for n in expected)
        mi, di, _ = C.stale_files(w, d2)
        obs = {"decision": r["decision"], "rewritten": r["rewritten"], "expected": expected, "all_rewritten": all_rewritten,
               "missing": mi, "different": di, "text": r["text"][-200:]}
    base = C.base_project()
    base["cfg"]["validation_library"] = case["mode"]
    if case.get("viz"):
        base["cfg"]["visualize_deps"] = True
    return sx([C.sx_project(base), C.sx_cfg(base["cfg"]), steps]), obs


def eval_force(cases):
    res = vlib.pmap(run_force, cases)
    tr = vlib.run_runner("c14-trace", [r[0] for r in res])
    q = []
    for _, o in res:
        dec = o["decision"] if o["decision"] in ("no_commands", "up_to_date", "regenerated", "failed") else "failed"
        q.append(sx([dec, o["all_rewritten"]]))
    orc = vlib.run_runner("c14-force", q)
    outs = []
    for case, (_, o), t, fo in zip(cases, res, tr, orc):
        m = t[-1]
        forced = case["forcing"] != "none" and not (case["entry"] == "build" and case["forcing"] in ("flag", "flag_over_file_false"))
        corr = o["decision"] == m[0]
        if forced:
            ok = fo == "true" and not o["missing"] and not o["different"]
        else:
            ok = o["decision"] in ("regenerated", "up_to_date")     # control: decided by the cache
        outs.append(Outcome(case, corr, ok, detail={"impl": o, "model": m[0], "forced": forced}, nontrivial=True))
    return outs



# ---- invocation spellings of the same effective settings ---------------------------------------------------
# A spelling says where each setting comes from in one run; the *effective* output-affecting configuration
# (library, visualize_deps, the directories named) is the same for every run of a case.
#   src: "cfile" (typegen.json; CLI passes -c) | "tauri" (tauri.conf.json plugins.typegen) | "flags" (no file, CLI only)
#   p / o: None (as in the file: ./src-tauri, ./gen) | "rel" (./x) | "bare" (x) | "abs" (absolute) - CLI: -p/-o flag,
#          build path: spelled that way inside the file
#   force (CLI: --force; build: force:true in the file), verbose (--verbose), vflag (-v <library> repeated on the flag),
#   vizflag (visualize_deps through --visualize-deps instead of the file)

def SP(src="cfile", p=None, o=None, force=False, verbose=False, vflag=False, vizflag=False, forcefile=None):
    return {"src": src, "p": p, "o": o, "force": force, "verbose": verbose, "vflag": vflag, "vizflag": vizflag,
            "forcefile": forcefile}


def spell(kind, name, root):
    return {"rel": "./" + name, "bare": name, "abs": os.path.join(root, name), None: "./" + name}[kind]


def run_spelling(case):
    desc = C.base_project()
    desc["cfg"]["validation_library"] = case["mode"]
    desc["cfg"]["visualize_deps"] = bool(case["viz"])
    obs, steps, projs = [], [], []
    with vlib.Sandbox("c14s") as sb:
        w = C.World(sb, case["entry"])
        w.set_desc(desc)
        for sp in case["seq"]:
            psp, osp = spell(sp["p"], C.SRC, sb.root), spell(sp["o"], C.OUT, sb.root)
            cfg = dict(desc["cfg"])
            cfg["force"] = sp.get("forcefile")
            if case["entry"] == "build" and sp["force"]:
                cfg["force"] = True
            if sp["vizflag"]:
                cfg["visualize_deps"] = False            # the flag supplies it
            # configuration file(s) of this run
            for n in ("typegen.json", "tauri.conf.json"):
                if os.path.exists(sb.path(n)):
                    os.remove(sb.path(n))
            in_file = case["entry"] == "build"           # the build entry has no flags: spell the paths in the file
            if sp["src"] == "cfile":
                txt = C.render_cfg(cfg)
                if in_file:
                    txt = txt.replace('"./%s"' % C.SRC, json.dumps(psp)).replace('"./%s"' % C.OUT, json.dumps(osp))
                sb.write("typegen.json", txt)
            elif sp["src"] == "tauri":
                txt = C.render_tauri_conf(cfg, with_cases=False)
                if in_file:
                    txt = txt.replace('"./%s"' % C.SRC, json.dumps(psp)).replace('"./%s"' % C.OUT, json.dumps(osp))
                sb.write("tauri.conf.json", txt)
            args = None
            if case["entry"] == "cli":
                args = ["-c", "typegen.json"] if sp["src"] == "cfile" else []
                if sp["p"] is not None or sp["src"] == "flags":
                    args += ["-p", psp]
                if sp["o"] is not None or sp["src"] == "flags":
                    args += ["-o", osp]
                if sp["vflag"] or sp["src"] == "flags":
                    args += ["-v", case["mode"]]
                if case["viz"] and (sp["vizflag"] or sp["src"] == "flags"):
                    args += ["--visualize-deps"]
                if sp["verbose"]:
                    args += ["--verbose"]
            r = w.run(force=(sp["force"] and case["entry"] == "cli"), args=args)
            eff = copy.deepcopy(desc)
            eff["cfg"]["force"] = cfg["force"]
            expected = [n for n in C.reference(desc, case["entry"])["files"]] + [C.CACHE]
            mi, di, _ = C.stale_files(w, desc) if r["decision"] in ("regenerated", "up_to_date") else ([], [], [])
            # graph files print the file paths as spelled: compare them only under the reference spelling
            di = [n for n in di if not (n.startswith("dependency-graph") and psp != "./" + C.SRC)]
            obs.append({"decision": r["decision"], "rewritten": r["rewritten"], "removed": r["removed"], "all_rewritten": all(n in r["rewritten"] for n in expected),
                        "missing": mi, "different": di, "args": args, "text": r["text"][-200:]})
            proj = C.sx_project(desc, src=psp)
            projs.append(proj)
            steps.append(["set", proj, C.sx_cfg(eff["cfg"], ppath=psp)])
            steps.append(["run", [[0], []], bool(sp["force"] and case["entry"] == "cli"), None])
    return sx([C.sx_project(desc), C.sx_cfg(desc["cfg"]), steps]), obs, projs, desc


def eval_spelling(cases):
    res = vlib.pmap(run_spelling, cases)
    traces = vlib.run_runner("c14-trace", [r[0] for r in res])
    q_idem, q_force, idx = [], [], []
    for i, (_, obs, projs, d) in enumerate(res):
        last = 0
        for k, o in enumerate(obs):
            dec = o["decision"] if o["decision"] in ("no_commands", "up_to_date", "regenerated", "failed") else "failed"
            q_idem.append(sx([dec, len(set(o["rewritten"]) | set(o.get("removed", [])))]))
            q_force.append(sx([dec, o["all_rewritten"]]))
            idx.append((i, k))
            if o["decision"] == "regenerated":
                last = k
    idem = dict(zip(idx, vlib.run_runner("c14-idem", q_idem)))
    forc = dict(zip(idx, vlib.run_runner("c14-force", q_force)))
    outs = []
    for i, (case, (_, obs, projs, d), tr) in enumerate(zip(cases, res, traces)):
        corr = ok = True
        kf = None
        unknown = False
        detail = None
        for k, (o, sp, mo) in enumerate(zip(obs, case["seq"], tr)):
            forced = sp["force"] or bool(sp.get("forcefile"))
            step_corr = o["decision"] == mo[0]
            if k == 0 or forced:
                step_ok = forc[(i, k)] == "true" and not o["missing"] and not o["different"]
            else:
                step_ok = idem[(i, k)] == "true"
                if not step_ok:
                    # with visualize_deps on the project path as spelled is printed into the graph and hashed:
                    # a run under another spelling legitimately regenerates
                    if case["viz"] and o["decision"] == "regenerated" and mo[0] == "regenerated":
                        step_ok = forc[(i, k)] == "true"
                    if not step_ok:
                        unknown = True
            if (not step_corr or not step_ok) and detail is None:
                detail = {"step": k, "impl": o, "model": mo[0]}
            corr &= step_corr
            ok &= step_ok
        if unknown:
            kf = None
        dd = detail or {}
        dd.update({"decisions": [o["decision"] for o in obs], "args": [o["args"] for o in obs]})
        if detail is not None:
            dd["sources"] = {f["path"]: C.render_rs(f) for f in d["files"]}
        outs.append(Outcome(case, corr, ok, kf=kf, detail=dd, nontrivial=len(case["seq"]) > 1))
    return outs


def spelling_cases(tier, rng):
    cli = [SP(), SP(force=True), SP(verbose=True), SP(vflag=True), SP(p="rel", o="rel"), SP(o="abs"), SP(o="bare"),
           SP(p="bare"), SP(p="abs"), SP(src="tauri"), SP(src="tauri", force=True), SP(src="tauri", verbose=True),
           SP(src="flags", p="rel", o="rel"), SP(src="flags", p="rel", o="abs", verbose=True), SP(forcefile=False),
           SP(force=True, forcefile=False), SP(forcefile=True)]
    cli_viz = cli + [SP(vizflag=True), SP(src="tauri", vizflag=True), SP(vizflag=True, force=True)]
    build = [SP(), SP(force=True), SP(src="tauri"), SP(src="tauri", force=True), SP(p="bare"), SP(p="abs"), SP(o="abs"),
             SP(o="bare"), SP(forcefile=False)]
    cases = []

    def add(entry, mode, viz, seq):
        cases.append({"entry": entry, "mode": mode, "viz": viz, "seq": [dict(x) for x in seq]})
    for a in cli:
        for b in cli:
            add("cli", "none", False, [a, b])
    for a in cli_viz:
        for b in cli_viz[-3:] + cli_viz[:3]:
            add("cli", "none", True, [a, b])
            add("cli", "none", True, [b, a])
    for a in build:
        for b in build:
            add("build", "none", False, [a, b])
    for a in build[:4]:
        for b in build[:4]:
            for c in build[:2]:
                add("build", "none", True, [a, b, c])
    for a in build:
        for b in build:
            if tier == "thorough":
                add("build", "zod", True, [a, b])
    # [a; a differently flagged; a]: the unforced third run must touch nothing
    mids_cli = [SP(force=True), SP(verbose=True), SP(vflag=True), SP(src="tauri", force=True), SP(force=True, forcefile=False), SP(o="abs")]
    ends_cli = [SP(), SP(src="tauri"), SP(vflag=True), SP(src="flags", p="rel", o="rel")]
    for a in ends_cli:
        for b in mids_cli:
            for c in ends_cli:
                add("cli", "zod" if b["vflag"] else "none", False, [a, b, c])
    for a in (SP(), SP(src="tauri")):
        for b in (SP(force=True), SP(src="tauri", force=True), SP(forcefile=False)):
            for c in (SP(), SP(src="tauri")):
                add("build", "none", False, [a, b, c])
    n = 60 if tier == "quick" else 600
    for _ in range(n):
        entry = rng.choice(["cli", "build"])
        pool = build if entry == "build" else cli
        add(entry, rng.choice(["none", "zod"]), False, [rng.choice(pool) for _ in range(rng.randint(3, 5))])
    return cases


# ---- alternating entry points on one output directory -------------------------------------------------------
ALT_PATTERNS = [["cli", "cli", "build", "cli", "build", "build"], ["build", "cli", "build", "build", "cli", "cli"],
                ["cli", "build", "cli", "build"], ["build", "build", "cli", "build"]]


def alt_desc(case):
    d = C.base_project()
    cfg = d["cfg"]
    cfg["validation_library"] = case["mode"]
    cfg["visualize_deps"] = bool(case.get("viz"))
    if case.get("maps"):
        # names of project-defined serde types used by commands (User: return type, Status: parameter), a type only
        # a mapping gives a meaning (DateTime<Utc>), and a name nothing uses
        cfg["type_mappings"] = {k: v for k, v in (("User", "unknown"), ("Status", "string"), ("DateTime<Utc>", "string"),
                                                  ("Unused", "number"))[:case["maps"]]}
    if case.get("cases"):
        cfg["default_parameter_case"], cfg["default_field_case"] = "snake_case", "camelCase"
    if case.get("edits"):
        for e in case["edits"]:
            d = C.apply_edit(d, e)
    return d


def run_alternation(case):
    desc = alt_desc(case)
    obs, steps = [], []
    with vlib.Sandbox("c14a") as sb:
        w = C.World(sb, case["pattern"][0], case.get("conf", "cfile"))
        w.set_desc(desc)
        for entry in case["pattern"]:
            w.entry = entry
            r = w.run()
            obs.append({"entry": entry, "decision": r["decision"], "rewritten": r["rewritten"], "removed": r["removed"],
                        "changed_bytes": r["changed_bytes"], "record": w.cache_record(), "text": r["text"][-200:]})
            steps.append(["run", [[0], list(range(len(desc["cfg"].get("type_mappings") or {})))], False, None])
    return desc, obs, steps


def eval_alternation(cases):
    res = vlib.pmap(run_alternation, cases)
    traces = vlib.run_runner("c14-trace", [sx([C.sx_project(d), C.sx_cfg(d["cfg"]), st]) for d, _, st in res])
    q, idx = [], []
    for i, (_, obs, _) in enumerate(res):
        for k, o in enumerate(obs):
            dec = o["decision"] if o["decision"] in ("no_commands", "up_to_date", "regenerated", "failed") else "failed"
            q.append(sx([dec, len(set(o["rewritten"]) | set(o["changed_bytes"]) | set(o["removed"]))]))
            idx.append((i, k))
    idem = dict(zip(idx, vlib.run_runner("c14-idem", q)))
    outs = []
    for i, (case, (d, obs, _), tr) in enumerate(zip(cases, res, traces)):
        corr = ok = True
        detail = None
        for k, (o, mo) in enumerate(zip(obs, tr)):
            step_corr = o["decision"] == mo[0]
            # every unchanged re-run, whatever entry point ran before, must touch nothing
            step_ok = (o["decision"] == "regenerated") if k == 0 else idem[(i, k)] == "true"
            if (not step_corr or not step_ok) and detail is None:
                detail = {"step": k, "entry": o["entry"], "previous_entry": obs[k - 1]["entry"] if k else None,
                          "impl": {x: o[x] for x in ("decision", "rewritten", "removed", "record")},
                          "previous_record": obs[k - 1]["record"] if k else None, "model": mo[0]}
            corr &= step_corr
            ok &= step_ok
        dd = detail or {}
        dd["decisions"] = [(o["entry"], o["decision"]) for o in obs]
        if detail is not None:
            dd["sources"] = {f["path"]: C.render_rs(f) for f in d["files"]}
            dd["config"] = C.render_cfg(d["cfg"])
        outs.append(Outcome(case, corr, ok, detail=dd, nontrivial=True))
    return outs


def alternation_cases(tier, rng):
    cases = []
    for pat in ALT_PATTERNS:
        for conf in ("cfile", "tauri"):
            for mode in ("none", "zod"):
                for maps in (0, 1, 2, 4):
                    for viz in (False, True):
                        for cs in (False, True):
                            if tier == "quick" and (viz and cs) and maps in (1,):
                                continue
                            cases.append({"pattern": pat, "conf": conf, "mode": mode, "maps": maps, "viz": viz, "cases": cs})
    edits = ["event_site2", "event_add", "events_off", "channel", "validator", "serde_rename", "cmd_move", "unused_struct", "field_add"]
    for _ in range(40 if tier == "quick" else 400):
        cases.append({"pattern": rng.choice(ALT_PATTERNS), "conf": rng.choice(["cfile", "tauri"]), "mode": rng.choice(["none", "zod"]),
                      "maps": rng.choice([0, 2, 3, 4]), "viz": rng.random() < 0.5, "cases": rng.random() < 0.5,
                      "edits": rng.sample(edits, rng.randint(1, 3))})
    return cases


# ---- an optional output stops being produced, then unchanged re-runs ------------------------------------------
STOP_OPS = ["events_off", "visualize", "event_add", "mode"]


def run_stops(case):
    """[run; edit after which an optional output (events.ts, the graph files) is no longer produced - or is produced for
    the first time; run; three unchanged re-runs]: the re-runs must touch nothing"""
    desc = C.base_project()
    desc["cfg"]["validation_library"] = case["mode"]
    desc["cfg"]["visualize_deps"] = bool(case["viz"])
    obs, steps = [], []
    sched = [[0], []]
    with vlib.Sandbox("c14o") as sb:
        w = C.World(sb, case["entry"], case.get("conf", "cfile"))
        w.set_desc(desc)
        unchanged = []
        for op in [None] + list(case["ops"]) + ["=", "=", "="]:
            if op not in (None, "="):
                desc = C.apply_edit(desc, op)
                w.set_desc(desc)
                steps.append(["set", C.sx_project(desc), C.sx_cfg(desc["cfg"])])
            r = w.run()
            steps.append(["run", sched, False, None])
            unchanged.append(op == "=")
            obs.append({"decision": r["decision"], "rewritten": r["rewritten"], "removed": r["removed"],
                        "changed_bytes": r["changed_bytes"], "files": sorted(w.stat()), "text": r["text"][-200:]})
    base = C.base_project()
    base["cfg"]["validation_library"] = case["mode"]
    base["cfg"]["visualize_deps"] = bool(case["viz"])
    return sx([C.sx_project(base), C.sx_cfg(base["cfg"]), steps]), obs, unchanged, desc


def eval_stops(cases):
    res = vlib.pmap(run_stops, cases)
    traces = vlib.run_runner("c14-trace", [r[0] for r in res])
    q, idx = [], []
    for i, (_, obs, unchanged, _) in enumerate(res):
        for k, (o, u) in enumerate(zip(obs, unchanged)):
            if u:
                dec = o["decision"] if o["decision"] in ("no_commands", "up_to_date", "regenerated", "failed") else "failed"
                q.append(sx([dec, len(set(o["rewritten"]) | set(o["changed_bytes"]) | set(o["removed"]))]))
                idx.append((i, k))
    idem = dict(zip(idx, vlib.run_runner("c14-idem", q)))
    outs = []
    for i, (case, (_, obs, unchanged, d), tr) in enumerate(zip(cases, res, traces)):
        corr = ok = True
        detail = None
        for k, (o, u, mo) in enumerate(zip(obs, unchanged, tr)):
            step_corr = o["decision"] == mo[0]
            step_ok = idem[(i, k)] == "true" if u else o["decision"] in ("regenerated", "up_to_date")
            if (not step_corr or not step_ok) and detail is None:
                detail = {"step": k, "impl": {x: o[x] for x in ("decision", "rewritten", "removed", "files")}, "model": mo[0]}
            corr &= step_corr
            ok &= step_ok
        dd = detail or {}
        dd["decisions"] = [o["decision"] for o in obs]
        if detail is not None:
            dd["sources"] = {f["path"]: C.render_rs(f) for f in d["files"]}
            dd["config"] = C.render_cfg(d["cfg"])
        outs.append(Outcome(case, corr, ok, detail=dd, nontrivial=True))
    return outs


def stops_cases(tier):
    cases = []
    for entry in ("cli", "build"):
        for conf in ("cfile", "tauri"):
            for mode in ("none", "zod"):
                for viz in (False, True):
                    for op in STOP_OPS:
                        cases.append({"entry": entry, "conf": conf, "mode": mode, "viz": viz, "ops": [op]})
                    for ops in (["events_off", "visualize"], ["event_add", "events_off"], ["visualize", "events_off", "events_off"],
                                ["events_off", "mode"]):
                        cases.append({"entry": entry, "conf": conf, "mode": mode, "viz": viz, "ops": ops})
    return cases


# ---- degenerate projects ------------------------------------------------------------------------------------
DEGENERATE = ["no_types", "no_types_no_events", "no_commands", "only_events", "only_channels", "empty_file", "one_unit_struct"]


def degenerate_desc(kind):
    cmd = lambda n, params=(), ret="String", chans=(): {"name": n, "async": False, "rename_all": None,
                                                        "params": [{"name": a, "type": t} for a, t in params], "ret": ret,
                                                        "channels": [{"name": a, "msg": t} for a, t in chans]}
    f = {"path": "lib.rs", "structs": [], "commands": [], "events": []}
    if kind == "no_types":                 # commands and events over built-in types only: no struct, no enum
        f["commands"] = [cmd("ping"), cmd("add", (("a", "u32"), ("b", "Option<String>")), "Result<Vec<u32>, String>")]
        f["events"] = [{"name": "tick", "payload": "i32"}]
    elif kind == "no_types_no_events":
        f["commands"] = [cmd("ping")]
    elif kind == "no_commands":            # a type and an event, no command
        f["structs"] = [C._st("Lonely", [("x", "u32")])]
        f["events"] = [{"name": "tick", "payload": "String"}]
    elif kind == "only_events":
        f["events"] = [{"name": "tick", "payload": "i32"}, {"name": "tock", "payload": "String"}]
    elif kind == "only_channels":          # one command whose only argument is a channel of a built-in type
        f["commands"] = [cmd("watch", (), "()", (("on_event", "String"),))]
    elif kind == "one_unit_struct":
        f["structs"] = [{"name": "Marker", "is_enum": False, "rename_all": None, "fields": []}]
        f["commands"] = [cmd("mark", (("m", "Marker"),))]
    return {"files": [f], "cfg": C.default_cfg()}


def run_degenerate(case):
    desc = degenerate_desc(case["kind"])
    desc["cfg"]["validation_library"] = case["mode"]
    desc["cfg"]["visualize_deps"] = bool(case["viz"])
    obs, steps = [], []
    with vlib.Sandbox("c14d") as sb:
        w = C.World(sb, case["entry"], case.get("conf", "cfile"))
        w.set_desc(desc)
        for _ in range(4):
            r = w.run()
            obs.append({"decision": r["decision"], "rewritten": r["rewritten"], "removed": r["removed"],
                        "changed_bytes": r["changed_bytes"], "files": sorted(w.stat()), "text": r["text"][-200:]})
            steps.append(["run", [[0], []], False, None])
    return desc, obs, steps


def eval_degenerate(cases):
    res = vlib.pmap(run_degenerate, cases)
    traces = vlib.run_runner("c14-trace", [sx([C.sx_project(d), C.sx_cfg(d["cfg"]), st]) for d, _, st in res])
    q, idx = [], []
    for i, (_, obs, _) in enumerate(res):
        for k, o in enumerate(obs):
            dec = o["decision"] if o["decision"] in ("no_commands", "up_to_date", "regenerated", "failed") else "failed"
            q.append(sx([dec, len(set(o["rewritten"]) | set(o["changed_bytes"]) | set(o["removed"]))]))
            idx.append((i, k))
    idem = dict(zip(idx, vlib.run_runner("c14-idem", q)))
    outs = []
    for i, (case, (d, obs, _), tr) in enumerate(zip(cases, res, traces)):
        corr = ok = True
        detail = None
        for k, (o, mo) in enumerate(zip(obs, tr)):
            touched = set(o["rewritten"]) | set(o["changed_bytes"]) | set(o["removed"])
            if mo[0] == "no_commands":
                # nothing is generated for a project without commands (the build path does not say so: it just writes nothing)
                step_corr = o["decision"] in ("no_commands", "up_to_date") and not touched
                step_ok = not touched
            else:
                step_corr = o["decision"] == mo[0]
                step_ok = (o["decision"] == "regenerated") if k == 0 else idem[(i, k)] == "true"
            if (not step_corr or not step_ok) and detail is None:
                detail = {"step": k, "impl": {x: o[x] for x in ("decision", "rewritten", "removed", "files", "text")}, "model": mo[0]}
            corr &= step_corr
            ok &= step_ok
        dd = detail or {}
        dd["decisions"] = [o["decision"] for o in obs]
        if detail is not None:
            dd["sources"] = {f["path"]: C.render_rs(f) for f in d["files"]}
            dd["config"] = C.render_cfg(d["cfg"])
        outs.append(Outcome(case, corr, ok, detail=dd, nontrivial=True))
    return outs


def degenerate_cases():
    return [{"kind": k, "entry": entry, "conf": conf, "mode": mode, "viz": viz}
            for k in DEGENERATE for entry in ("cli", "build") for conf in ("cfile", "tauri") for mode in ("none", "zod")
            for viz in (False, True)]

# ---- case sets -------------------------------------------------------------------------------------------

def witnesses():
    w = []
    for e in vlib.load_known_findings("C14"):
        for c in e.get("witnesses", [e["witness"]]):
            w.append(dict(c))
    return w


def rerun_cases(tier, rng):
    k = 3 if tier == "quick" else 8
    reps = 6 if tier == "quick" else 30
    cases = []
    for entry in ("cli", "build"):
        for n in range(1, 7):
            for structs in (True, False):
                for rep in range(reps):
                    cases.append({"entry": entry, "nfiles": n, "structs": structs, "maps": 0, "reruns": k, "rep": rep,
                                  "mode": "zod" if rep % 2 else "none"})
        for n in range(2, 7):
            for rep in range(reps):
                cases.append({"entry": entry, "nfiles": n, "structs": bool(rep % 2), "maps": rep % 2, "reruns": k, "rep": rep,
                              "mode": "none", "layout": "onefile"})
        # single-file projects with 0..1 mappings are outside the class on both paths
        for rep in range(reps):
            cases.append({"entry": entry, "nfiles": 1, "structs": True, "maps": 1, "reruns": k, "rep": rep, "mode": "none"})
    for entry in ("cli", "build"):
        for n in (1, 2, 3, 5):
            for viz in (False, True):
                for rep in range(reps):
                    cases.append({"entry": entry, "nfiles": n, "structs": True, "maps": 3 if rep % 2 else 0, "reruns": k,
                                  "rep": rep, "mode": "zod" if rep % 3 == 0 else "none", "ties": True, "viz": viz})
        for n in (1, 3):
            for rep in range(reps):
                cases.append({"entry": entry, "nfiles": n, "structs": True, "maps": 0, "reruns": k, "rep": rep, "mode": "none",
                              "viz": True})
    # round 7: type_mappings of 2, 4 and 6 entries on both entry points, fresh processes (fresh HashMap keys). The map order of
    # a build-path run is not observable; the model does not depend on it (C14_run_map_order_irrelevant)
    for entry in ("cli", "build"):
        for maps in (2, 4, 6):
            for n in (1, 3):
                for rep in range(max(2, reps // 3)):
                    cases.append({"entry": entry, "nfiles": n, "structs": bool(rep % 2), "maps": maps, "reruns": max(k, 5), "rep": rep,
                                  "mode": "zod" if rep % 2 else "none", "round7": "maps"})
    # file names that tie under a careless sort key (case only, underscore, dash, prefix), a command and an event in each;
    # >= 8 unchanged re-runs in fresh processes
    for entry in ("cli", "build"):
        for n in (2, 4, 6, 8):
            for rep in range(2 if tier == "quick" else 10):
                cases.append({"entry": entry, "nfiles": n, "structs": bool(rep % 2), "maps": 0, "reruns": 8, "rep": rep,
                              "mode": "zod" if rep % 2 else "none", "tienames": True, "events_each": True})
    for entry in ("cli", "build"):
        for maps in (2, 3, 4):
            for n in (1, 2, 4):
                for rep in range(reps):
                    cases.append({"entry": entry, "nfiles": n, "structs": True, "maps": maps, "reruns": k, "rep": rep, "mode": "none"})
    return cases


def force_cases(tier):
    cases = []
    for entry in ("cli", "build"):
        for cache in CACHE_STATES:
            for forcing in FORCINGS:
                if entry == "build" and forcing in ("flag", "flag_over_file_false"):
                    continue            # the build entry has no flag
                for mode in ("none", "zod"):
                    for viz in ((False, True) if tier == "thorough" or mode == "none" else (False,)):
                        cases.append({"entry": entry, "cache": cache, "forcing": forcing, "mode": mode, "viz": viz})
    return cases


def build_all():
    vlib.build_repo_bin()
    vlib.build_harness("c08")
    vlib.build_runner("c14")


def run(rep):
    build_all()
    rng = random.Random(rep.seed)
    from tools.props.c08 import regressions
    allw = witnesses()
    regs = regressions("C14")
    rep.add("corpus", eval_spelling([c for c in allw + regs if "seq" in c]))
    ws = [c for c in allw if "seq" not in c]
    nw = len(ws)
    outs = eval_rerun(ws + [c for c in regs if "seq" not in c])
    for o in outs[:nw]:
        rep.extra.setdefault("witness_replays", []).append(
            {"case": o.case, "reruns": o.detail["reruns"], "spurious_regenerations": o.detail["spurious_regenerations"],
             "distinct_commands_hash": len(set(o.detail["commands_hash"]))})
    rep.add("corpus", outs)
    cases = rerun_cases(rep.tier, rng)
    outs = eval_rerun(cases)
    dist = {}
    for c, o in zip(cases, outs):
        key = "%s files=%d maps=%d" % (c["entry"], c["nfiles"], c["maps"])
        d = dist.setdefault(key, {"cases": 0, "reruns": 0, "spurious_regenerations": 0})
        d["cases"] += 1
        d["reruns"] += o.detail["reruns"]
        d["spurious_regenerations"] += o.detail["spurious_regenerations"]
    rep.extra["rerun_distribution"] = dist
    rep.add("rerun", outs)
    rep.add("force", eval_force(force_cases(rep.tier)))
    sc = spelling_cases(rep.tier, rng)
    rep.extra["spelling_cases"] = {"total": len(sc), "by_length": {str(k): sum(1 for c in sc if len(c["seq"]) == k) for k in (2, 3, 4, 5)}}
    rep.add("spelling", eval_spelling(sc))
    rep.add("stops", eval_stops(stops_cases(rep.tier)))
    rep.add("degenerate", eval_degenerate(degenerate_cases()))
    ac = alternation_cases(rep.tier, rng)
    rep.extra["alternation_cases"] = len(ac)
    rep.add("alternation", eval_alternation(ac))


def replay(rep, payload):
    build_all()
    items = payload.get("disagreeing_cases") or [payload]
    for it in items:
        c = dict(it["case"])
        if it["stream"] == "force":
            rep.add("force", eval_force([c]))
        elif it["stream"] == "degenerate":
            rep.add("degenerate", eval_degenerate([c]))
        elif it["stream"] == "stops":
            rep.add("stops", eval_stops([c]))
        elif it["stream"] == "alternation":
            rep.add("alternation", eval_alternation([c]))
        elif it["stream"] == "spelling":
            rep.add("spelling", eval_spelling([c]))
        else:
            c["reruns"] = max(c.get("reruns", 3), 16)
            rep.add(it["stream"], eval_rerun([c]))
