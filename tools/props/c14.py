"""C14 - re-running with nothing changed rewrites nothing; --force always regenerates.
Correspondence: repeated non-forced runs of 1..6-file projects in fresh processes (fresh hash seeds) on both
entry points, the discovery order of every run reconstructed (CLI: --verbose listing; build path: order of
the wrappers in commands.ts) and fed to the extracted model; forced runs from every cache state.
Oracle: bytes, mtime and inode of every file of the output directory before/after."""
import copy
import json
import os
import random
import re

from tools import vlib
from tools.vlib import Outcome, sx
from tools.props import c08_common as C

MANIFEST = {
    "level_text": "Coq theorems (Properties/C14.v, no axioms) about the run/cache state machine of Model/C08Run.v instantiated with the fingerprint of generation_cache.rs: for all states and all pairs of discovery orders (file-map order, type_mappings map order) that give the same fingerprint, a non-forced run after a successful or up-to-date run answers up to date and changes nothing; on the faithful model the fingerprint depends on the order (commands are hashed in discovery order, type_mappings in map order) - refuted by computed two-file and two-mapping witnesses, class kf_C14_order; projects whose commands sit in one file and that have at most one mapping are outside the class for every valid order; with --force or force:true every run with commands rewrites every file of the plan and the record from every cache state, and the flag can only switch forcing on. Tied to /repo by re-running 1..6-file projects in fresh processes on both entry points with the observed discovery orders fed to the extracted model, and by forced runs from the cache states absent/matching/mismatching/corrupt/other version.",
    "design_ref": "DESIGN.md section 5 C08, C14, C17; section 11 idempotent, isort_perm_invariant",
    "level_note": "Hash orders are sampled by fresh processes, not enumerated; on the build-script path the order of a run that answers up to date is not observable and is taken to be the order of the record it matched, and type_mappings orders are exercised on the CLI path only (hash_config is shared code); file contents are views as in C08; mtime granularity is the file system's (ns).",
    "technique": "Rocq/Coq proof over hand-written model + correspondence check (extracted OCaml vs real binary and Rust driver)"
}

RULE = ("rerun: projects of 1..6 source files (one command each, with and without structs, optionally 2-3 type mappings on the CLI path) "
        "x CLI/build x 1 generating run + 3 (quick) / 8 (thorough) non-forced re-runs in fresh processes; force: cache states "
        "{absent, matching, mismatching, corrupt, version} x {--force, force:true, --force with force:false, no forcing} x CLI/build "
        "x modes; witnesses of the schedule findings replayed in 16 re-runs. Non-trivial: at least one re-run or a forced run; "
        "distinct = distinct case descriptions")
TRUSTED = ["reconstruction of the discovery order from --verbose output (CLI) / wrapper order in commands.ts (build path)",
           "python renderer description -> Rust source / typegen.json / analysed data (tools/props/c08_common.py)"]
ASSUMPTIONS = ["a fresh process draws fresh RandomState keys (std); SipHash with DefaultHasher::new() keys is deterministic across processes",
               "equal combined_hash <=> equal fingerprint"]


def observed_sched(world, r, desc, prev):
    """(file order, map order) of the run just made; None components when not observable."""
    names = {}
    for i, f in enumerate(desc["files"]):
        for c in f["commands"]:
            names.setdefault(c["name"], i)
    tm = desc["cfg"].get("type_mappings") or {}
    keys = sorted(tm)
    forder = morder = None
    if world.entry == "cli":
        cmds = re.findall(r"^\S+\s+- (\w+) \(", r["full_text"], re.M)
        seen = []
        for c in cmds:
            if c in names and names[c] not in seen:
                seen.append(names[c])
        if len(seen) == len(desc["files"]):
            forder = seen
        maps = re.findall(r"^\S+\s+(\w+) → \w+\s*$", r["full_text"], re.M)
        if len(maps) == len(keys):
            morder = [keys.index(k) for k in maps]
    else:
        if r["decision"] == "regenerated" and "commands.ts" in r["rewritten"]:
            txt = open(world.out("commands.ts")).read()
            seen = []
            for m in re.findall(r"invoke(?:<[^(]*>)?\('(\w+)'", txt):
                if m in names and names[m] not in seen:
                    seen.append(names[m])
            if len(seen) == len(desc["files"]):
                forder = seen
        elif prev is not None:
            forder = prev[0]          # a hit: same fingerprint as the record, i.e. the recorded order
        morder = list(range(len(keys)))
    return forder, morder


def run_rerun(case):
    desc = C.multi_project(case["nfiles"], case["structs"])
    if case.get("layout") == "onefile":
        # all commands (and structs) in one source file: the discovery order is the source order
        one = {"path": "all.rs", "structs": [], "commands": [], "events": []}
        for f in desc["files"]:
            one["structs"] += f["structs"]
            one["commands"] += f["commands"]
        desc["files"] = [one]
    if case.get("maps"):
        desc["cfg"]["type_mappings"] = {"Alpha%d" % i: ["string", "number", "boolean"][i % 3] for i in range(case["maps"])}
    desc["cfg"]["validation_library"] = case.get("mode", "none")
    extra = ["--verbose"] if case["entry"] == "cli" else []
    obs, steps = [], []
    last_regen = None
    with vlib.Sandbox("c14r") as sb:
        w = C.World(sb, case["entry"])
        w.set_desc(desc)
        for i in range(1 + case["reruns"]):
            r = w.run(extra=extra)
            sched = observed_sched(w, r, desc, last_regen)
            rec = w.cache_record()
            o = {"decision": r["decision"], "rewritten": r["rewritten"], "changed_bytes": r["changed_bytes"],
                 "sched": sched, "commands_hash": rec and rec["commands_hash"], "config_hash": rec and rec["config_hash"]}
            if r["decision"] == "regenerated" and sched[0] is not None:
                last_regen = sched
            obs.append(o)
            steps.append(["run", [sched[0] or [], sched[1] or []], False, None])
    return desc, obs, steps


def eval_rerun(cases):
    res = vlib.pmap(run_rerun, cases)
    traces = vlib.run_runner("c14-trace", [sx([C.sx_project(d), C.sx_cfg(d["cfg"]), st]) for d, _, st in res])
    # class predicate and oracle (extracted Gallina) per re-run
    q_order, q_idem, idx = [], [], []
    for i, (d, obs, steps) in enumerate(res):
        last = None
        for k, o in enumerate(obs):
            if k > 0:
                ref = last if last is not None else steps[0][1]
                q_order.append(sx([ref, steps[k][1], C.sx_project(d), C.sx_cfg(d["cfg"])]))
                dec = o["decision"] if o["decision"] in ("no_commands", "up_to_date", "regenerated", "failed") else "failed"
                q_idem.append(sx([dec, len(o["rewritten"])]))
                idx.append((i, k))
            if o["decision"] == "regenerated":
                last = steps[k][1]
    order = dict(zip(idx, vlib.run_runner("c14-order", q_order)))
    idem = dict(zip(idx, vlib.run_runner("c14-idem", q_idem)))
    outs = []
    for i, (case, (d, obs, steps), tr) in enumerate(zip(cases, res, traces)):
        corr = ok = True
        kf = None
        unknown_fail = False
        spurious = 0
        detail = None
        for k, (o, mo) in enumerate(zip(obs, tr)):
            observable = o["sched"][0] is not None and o["sched"][1] is not None
            step_corr = observable and o["decision"] == mo[0]
            step_ok = True
            if k == 0:
                step_ok = o["decision"] == "regenerated"
            else:
                step_ok = idem[(i, k)] == "true"
                if not step_ok:
                    spurious += 1
                    differs, files_differ, valid = (x == "true" for x in order[(i, k)])
                    if differs and valid:
                        kf = kf or ("C14-1" if files_differ else "C14-2")
                    else:
                        unknown_fail = True
            if (not step_corr or not step_ok) and detail is None:
                detail = {"step": k, "impl": o, "model": mo[0]}
            corr &= step_corr
            ok &= step_ok
        if unknown_fail:
            kf = None
        d_out = detail or {}
        d_out.update({"decisions": [o["decision"] for o in obs], "orders": [o["sched"] for o in obs],
                      "commands_hash": [o["commands_hash"] for o in obs], "spurious_regenerations": spurious,
                      "reruns": len(obs) - 1})
        if detail is not None:
            d_out["sources"] = {f["path"]: C.render_rs(f) for f in d["files"]}
            d_out["config"] = C.render_cfg(d["cfg"])
        outs.append(Outcome(case, corr, ok, kf=kf, detail=d_out, nontrivial=True))
    return outs


# ---- forced runs -----------------------------------------------------------------------------------------

CACHE_STATES = ["absent", "matching", "mismatching", "corrupt", "version"]
FORCINGS = ["flag", "file_true", "flag_over_file_false", "none"]


def run_force(case):
    desc = C.base_project()
    desc["cfg"]["validation_library"] = case["mode"]
    if case.get("viz"):
        desc["cfg"]["visualize_deps"] = True
    steps, obs = [], []
    sched = [[0], []]
    with vlib.Sandbox("c14f") as sb:
        w = C.World(sb, case["entry"])
        w.set_desc(desc)
        st = case["cache"]
        if st != "absent":
            w.run()
            steps.append(["run", sched, False, None])
        if st == "mismatching":
            desc = C.apply_edit(desc, "param_type")
            w.set_desc(desc)
            steps.append(["set", C.sx_project(desc), C.sx_cfg(desc["cfg"])])
        elif st == "corrupt":
            open(w.out(C.CACHE), "w").write("{ not json")
            steps.append(["dropcache"])
        elif st == "version":
            rec = w.cache_record()
            rec["version"] = 2
            json.dump(rec, open(w.out(C.CACHE), "w"))
            steps.append(["dropcache"])
        f = case["forcing"]
        d2 = copy.deepcopy(desc)
        flag = f in ("flag", "flag_over_file_false")
        d2["cfg"]["force"] = {"flag": None, "file_true": True, "flag_over_file_false": False, "none": None}[f]
        w.set_desc(d2)
        steps.append(["set", C.sx_project(d2), C.sx_cfg(d2["cfg"])])
        before = w.stat()
        r = w.run(force=flag)
        steps.append(["run", sched, flag, None])
        after = w.stat()
        expected = [n for n in C.reference(desc, case["entry"])["files"]] + [C.CACHE]
        all_rewritten = all(n in r["rewritten"] for n in expected)
        mi, di, _ = C.stale_files(w, d2)
        obs = {"decision": r["decision"], "rewritten": r["rewritten"], "expected": expected, "all_rewritten": all_rewritten,
               "missing": mi, "different": di, "text": r["text"][-200:]}
    base = C.base_project()
    base["cfg"]["validation_library"] = case["mode"]
    if case.get("viz"):
        base["cfg"]["visualize_deps"] = True
    return sx([C.sx_project(base), C.sx_cfg(base["cfg"]), steps]), obs


def eval_force(cases):
    res = vlib.pmap(run_force, cases)
    tr = vlib.run_runner("c14-trace", [r[0] for r in res])
    q = []
    for _, o in res:
        dec = o["decision"] if o["decision"] in ("no_commands", "up_to_date", "regenerated", "failed") else "failed"
        q.append(sx([dec, o["all_rewritten"]]))
    orc = vlib.run_runner("c14-force", q)
    outs = []
    for case, (_, o), t, fo in zip(cases, res, tr, orc):
        m = t[-1]
        forced = case["forcing"] != "none" and not (case["entry"] == "build" and case["forcing"] in ("flag", "flag_over_file_false"))
        corr = o["decision"] == m[0]
        if forced:
            ok = fo == "true" and not o["missing"] and not o["different"]
        else:
            ok = o["decision"] in ("regenerated", "up_to_date")     # control: decided by the cache
        outs.append(Outcome(case, corr, ok, detail={"impl": o, "model": m[0], "forced": forced}, nontrivial=True))
    return outs


# ---- case sets -------------------------------------------------------------------------------------------

def witnesses():
    w = []
    for e in vlib.load_known_findings("C14"):
        for c in e.get("witnesses", [e["witness"]]):
            w.append(dict(c))
    return w


def rerun_cases(tier, rng):
    k = 3 if tier == "quick" else 8
    reps = 6 if tier == "quick" else 30
    cases = []
    for entry in ("cli", "build"):
        for n in range(1, 7):
            for structs in (True, False):
                for rep in range(reps):
                    cases.append({"entry": entry, "nfiles": n, "structs": structs, "maps": 0, "reruns": k, "rep": rep,
                                  "mode": "zod" if rep % 2 else "none"})
        for n in range(2, 7):
            for rep in range(reps):
                cases.append({"entry": entry, "nfiles": n, "structs": bool(rep % 2), "maps": rep % 2, "reruns": k, "rep": rep,
                              "mode": "none", "layout": "onefile"})
        # single-file projects with 0..1 mappings are outside the class on both paths
        for rep in range(reps):
            cases.append({"entry": entry, "nfiles": 1, "structs": True, "maps": 1, "reruns": k, "rep": rep, "mode": "none"})
    for maps in (2, 3):
        for n in (1, 2):
            for rep in range(reps):
                cases.append({"entry": "cli", "nfiles": n, "structs": True, "maps": maps, "reruns": k, "rep": rep, "mode": "none"})
    return cases


def force_cases(tier):
    cases = []
    for entry in ("cli", "build"):
        for cache in CACHE_STATES:
            for forcing in FORCINGS:
                if entry == "build" and forcing in ("flag", "flag_over_file_false"):
                    continue            # the build entry has no flag
                for mode in ("none", "zod"):
                    for viz in ((False, True) if tier == "thorough" or mode == "none" else (False,)):
                        cases.append({"entry": entry, "cache": cache, "forcing": forcing, "mode": mode, "viz": viz})
    return cases


def build_all():
    vlib.build_repo_bin()
    vlib.build_harness("c08")
    vlib.build_runner("c14")


def run(rep):
    build_all()
    rng = random.Random(rep.seed)
    from tools.props.c08 import regressions
    nw = len(witnesses())
    outs = eval_rerun(witnesses() + regressions("C14"))
    for o in outs[:nw]:
        rep.extra.setdefault("witness_replays", []).append(
            {"case": o.case, "reruns": o.detail["reruns"], "spurious_regenerations": o.detail["spurious_regenerations"],
             "distinct_commands_hash": len(set(o.detail["commands_hash"]))})
    rep.add("corpus", outs)
    cases = rerun_cases(rep.tier, rng)
    outs = eval_rerun(cases)
    dist = {}
    for c, o in zip(cases, outs):
        key = "%s files=%d maps=%d" % (c["entry"], c["nfiles"], c["maps"])
        d = dist.setdefault(key, {"cases": 0, "reruns": 0, "spurious_regenerations": 0})
        d["cases"] += 1
        d["reruns"] += o.detail["reruns"]
        d["spurious_regenerations"] += o.detail["spurious_regenerations"]
    rep.extra["rerun_distribution"] = dist
    rep.add("rerun", outs)
    rep.add("force", eval_force(force_cases(rep.tier)))


def replay(rep, payload):
    build_all()
    items = payload.get("disagreeing_cases") or [payload]
    for it in items:
        c = dict(it["case"])
        if it["stream"] == "force":
            rep.add("force", eval_force([c]))
        else:
            c["reruns"] = max(c.get("reruns", 3), 16)
            rep.add(it["stream"], eval_rerun([c]))
