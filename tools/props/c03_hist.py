"""C03 - histories: the build-script entry point BuildSystem::generate_at_build_time() (what a build.rs
calls) and the CLI (`generate`, configuration from tauri.conf.json in the working directory) run again and
again into ONE output directory, forced or not, while the source tree changes, stays, or returns to an
earlier state between the runs. After every run every discovered command must have exactly its wrapper.

A history case is a JSON value
  {"hist": true,
   "project_path": "./src-tauri/src" | ...   plugins.typegen.projectPath, relative to the project root (= cwd)
   "mode": "none" | "zod",
   "labels": [s, ...]                        how each tree was obtained from the one before (informative)
   "routes": ["build" | "cli", ...]          per run (default build)
   "force": ["no" | "flag" | "config", ...]  per run (default no): --force on the command line (CLI only; the
                                             build route takes it as config) or "force": true in plugins.typegen
   "steps": [tree, tree, ...]}               the entries of the project path at each run (c03_gen node grammar;
                                             a function item may carry "body": text, which only the printer reads)
Model: C03Discover.build_history (state of the output directory, cache hit / regeneration / removal);
specification: annotated_spec of the tree of each run."""
import copy
import json
import os
import shutil
import subprocess

from tools import vlib
from tools.vlib import Outcome, sx
from tools.props import c03_gen as G

PROJECT_PATHS = ["./src-tauri/src", "./src-tauri", "src-tauri/src/", "./src-tauri/src/"]
BODIES = ["String::new()", "unimplemented!()", "{ let x = 1; todo!() }", "panic!(\"edited\")"]


# ----------------------------------------------------------------- edits

def parsed_files(tree, dirs=()):
    for n in tree:
        if n["t"] == "d":
            yield from parsed_files(n["ch"], dirs + (n["name"],))
        elif n["t"] == "f" and n["kind"] == "parsed":
            yield dirs, n


def top_fns(n):
    return [it for it in n["items"] if it["k"] == "fn"]


def sync_links(nodes):
    """A link to a file INSIDE the tree carries a copy of that file's contents (the model does not resolve
    paths): after an edit the copy follows the file; a link whose target is gone or renamed dangles."""
    for n in nodes:
        if n["t"] == "d":
            sync_links(n["ch"])
        elif n["t"] == "l" and n.get("to") == "file" and n.get("where") == "inside":
            cur, tgt = nodes, None
            parts = n["rel"].split("/")
            for k, part in enumerate(parts):
                hit = [m for m in cur if m["name"] == part]
                if not hit:
                    break
                if k == len(parts) - 1:
                    tgt = hit[0] if hit[0]["t"] == "f" else None
                elif hit[0]["t"] == "d":
                    cur = hit[0]["ch"]
                else:
                    break
            for key in G.CONTENT_KEYS:
                n.pop(key, None)
            if tgt is None:
                n.pop("where", None)
                n.pop("rel", None)
                n["to"] = "dangling"
            else:
                n.update({key: copy.deepcopy(tgt[key]) for key in G.CONTENT_KEYS if key in tgt})


def edit(rng, tree, kind, fresh):
    t = edit_(rng, tree, kind, fresh)
    sync_links(t)
    return t


def edit_(rng, tree, kind, fresh):
    """Returns a new tree; fresh: list of unused function names (popped)."""
    t = copy.deepcopy(tree)
    files = list(parsed_files(t))
    if kind == "same":
        return t
    if kind == "body":                       # bodies only: no CommandInfo field changes
        for _, n in files:
            for f in top_fns(n):
                f["body"] = rng.choice(BODIES)
        return t
    if kind == "comment":                    # an item that is not a function
        if files:
            rng.choice(files)[1]["items"].append({"k": "other", "src": "// edited\npub const EDITED: usize = %d;" % rng.randrange(1000)})
        return t
    if kind == "add_cmd":
        f = G.gen_fn(rng, fresh.pop(), True)
        if files and rng.random() < 0.5:
            rng.choice(files)[1]["items"].append(f)
        else:
            name = "added%d.rs" % len(fresh)
            G.insert(t, rng.choice([[], [], ["cmds"], ["target"]]), {"t": "f", "name": name, "kind": "parsed", "items": [f]})
        return t
    if kind == "remove_cmd":
        cands = [(n, f) for _, n in files for f in top_fns(n)]
        if cands:
            n, f = rng.choice(cands)
            n["items"].remove(f)
        return t
    if kind == "remove_all":
        for _, n in files:
            n["items"] = [it for it in n["items"] if it["k"] != "fn"]
        return t
    if kind == "change_ret":
        cands = [f for _, n in files for f in top_fns(n)]
        if cands:
            rng.choice(cands)["ret"] = G.gen_ret(rng)
        return t
    if kind == "rename_fn":
        cands = [f for _, n in files for f in top_fns(n)]
        if cands:
            rng.choice(cands)["name"] = fresh.pop()
        return t
    if kind == "break_file":                 # a file stops parsing: its wrappers go, the others stay
        if files:
            n = rng.choice(files)[1]
            n["kind"] = "unparsable"
            n["raw"] = rng.choice(G.UNPARSABLE)
            n.pop("items")
        return t
    if kind == "move_file":                  # same commands, other file_path
        if files:
            dirs, n = rng.choice(files)
            n["name"] = "moved_" + n["name"]
        return t
    raise ValueError(kind)


EDITS = ["same", "body", "comment", "add_cmd", "remove_cmd", "change_ret", "rename_fn", "break_file", "move_file", "remove_all"]
SMALL_SCOPE_EDITS = ["same", "body", "add_cmd", "remove_all", "change_ret"]


def base_tree(rng):
    for _ in range(50):
        tree = G.gen_layout(rng)["tree"]
        if any(top_fns(n) for _, n in parsed_files(tree)):
            return tree
    return [G.one_cmd_file("lib.rs", "greet")]


def gen_history(rng, kinds=None):
    fresh = ["h_%s" % c for c in "abcdefghijkl"]
    rng.shuffle(fresh)
    tree = base_tree(rng)
    if kinds is None:
        kinds = [rng.choice(EDITS + ["revert", "revert"]) if rng.random() < 0.6 else rng.choice(["same", "body"])
                 for _ in range(rng.choice([1, 2, 2, 3, 3, 4]))]
    steps, labels = [tree], ["initial"]
    for k in kinds:
        if k == "revert":                    # back to an earlier tree of this history
            tree = copy.deepcopy(rng.choice(steps[:-1] or steps))
        else:
            tree = edit(rng, tree, k, fresh)
        steps.append(tree)
        labels.append(k)
    r = rng.random()
    routes = [("build" if r < 0.4 else "cli" if r < 0.85 else rng.choice(["build", "cli"])) for _ in steps]
    force = [rng.choice(["no", "no", "no", "flag", "config"]) for _ in steps]
    return {"hist": True, "project_path": rng.choice(PROJECT_PATHS), "mode": rng.choice(["none", "zod"]), "labels": labels,
            "routes": routes, "force": force, "steps": steps}


def force_and_return():
    """Exhaustive: every sequence of three runs over two fixed trees A, B x every pattern of forced runs x both
    routes (2^3 x 2^3 x 2 = 128 histories): plain A, forced B, plain A again is one of them."""
    a = [G.one_cmd_file("lib.rs", "list_users"), {"t": "d", "name": "cmds", "ch": [G.one_cmd_file("del.rs", "delete_user")]}]
    b = [G.one_cmd_file("lib.rs", "list_users"), {"t": "d", "name": "cmds", "ch": [G.one_cmd_file("del.rs", "archive_user"),
                                                                                  G.one_cmd_file("count.rs", "count_users")]}]
    out = []
    for route in ("cli", "build"):
        for trees in range(8):
            for forced in range(8):
                steps = [copy.deepcopy(b if trees >> i & 1 else a) for i in range(3)]
                force = [("flag" if route == "cli" and i != 1 else "config") if forced >> i & 1 else "no" for i in range(3)]
                out.append({"hist": True, "project_path": "./src-tauri/src", "mode": "none" if (trees + forced) % 2 else "zod",
                            "labels": ["initial"] + ["B" if trees >> i & 1 else "A" for i in (1, 2)], "routes": [route] * 3,
                            "force": force, "steps": steps})
    return out


def small_scope(rng):
    """Every sequence of at most two edits over SMALL_SCOPE_EDITS after the first run, followed by one
    unchanged run, on one fixed two-file project, in both modes."""
    base = [G.one_cmd_file("lib.rs", "greet"),
            {"t": "d", "name": "cmds", "ch": [G.one_cmd_file("count.rs", "count")]}]
    out = []
    seqs = [[a] for a in SMALL_SCOPE_EDITS] + [[a, b] for a in SMALL_SCOPE_EDITS for b in SMALL_SCOPE_EDITS]
    for mode, route in (("none", "build"), ("zod", "build"), ("none", "cli")):
        for seq in seqs:
            fresh = ["h_%s" % c for c in "abcdef"]
            tree, steps, labels = base, [base], ["initial"]
            for k in seq + ["same"]:
                tree = edit(rng, tree, k, fresh)
                steps.append(tree)
                labels.append(k)
            out.append({"hist": True, "project_path": "./src-tauri/src", "mode": mode, "labels": labels,
                        "routes": [route] * len(steps), "force": ["no"] * len(steps), "steps": steps})
    return out


# ----------------------------------------------------------------- evaluation

def build_run(cwd):
    r = subprocess.run([vlib.harness_bin("c03"), "build"], input=json.dumps({"id": 0, "cwd": cwd}) + "\n",
                       stdout=subprocess.PIPE, stderr=subprocess.PIPE, text=True, timeout=120, env=vlib.ENV)
    lines = [l for l in r.stdout.splitlines() if l.startswith("{")]
    if not lines:
        return {"ok": False, "err": "driver died (exit %s)" % r.returncode, "stderr": r.stderr[-300:]}
    o = json.loads(lines[-1])
    o["stderr"] = r.stderr[-300:] if ("Cleaned up" in r.stderr or not o.get("ok")) else ""
    return o


def evaluate(cases, tag="c03-hist"):
    if not cases:
        return []
    with vlib.Sandbox(tag) as sb:
        def one(ic):
            i, c = ic
            root = sb.path("h%d/app" % i)
            os.makedirs(root, exist_ok=True)
            src = os.path.normpath(os.path.join(root, c["project_path"]))
            runs = []
            for j, tree in enumerate(c["steps"]):
                route, force = routes_of(c)[j], force_of(c)[j]
                tg = {"projectPath": c["project_path"], "outputPath": "./src/generated", "validationLibrary": c["mode"]}
                if force == "config" or (force == "flag" and route == "build"):
                    tg["force"] = True
                with open(os.path.join(root, "tauri.conf.json"), "w") as f:
                    json.dump({"productName": "demo", "plugins": {"typegen": tg}}, f)
                shutil.rmtree(os.path.join(root, "src-tauri"), ignore_errors=True)
                shutil.rmtree(sb.path("h%d/__ext" % i), ignore_errors=True)
                G.write_tree(src, tree, sb.path("h%d/__ext" % i))
                if route == "build":
                    o = build_run(root)
                else:
                    rc, text = sb.cli(["generate"] + (["--force"] if force == "flag" else []), cwd=root)
                    o = {"ok": rc == 0, "err": "" if rc == 0 else text[-300:],
                         "stderr": text[-200:] if ("up to date" in text or "No Tauri commands" in text) else ""}
                p = os.path.join(root, "src", "generated", "commands.ts")
                o["written"] = os.path.exists(p)
                o["commands_ts"] = open(p, "rb").read().decode("utf-8", "replace") if o["written"] else ""
                runs.append(o)
            return runs
        allruns = vlib.pmap(one, list(enumerate(cases)))
        models = vlib.run_runner("c03-history", [sx([c["project_path"], [[r == "cli", f != "no", G.tree_sx(t)]
                                                                          for r, f, t in zip(routes_of(c), force_of(c), c["steps"])]])
                                                 for c in cases])
        for m in models:
            if m and m[0] == "runner-error":
                raise vlib.BuildError("runner: %s" % m)
        judge_in = []
        for c, m, runs in zip(cases, models, allruns):
            for step, o in zip(m, runs):
                judge_in.append(sx([[list(p) for p in step[2]], [[list(p) for p in step[1]]], o["commands_ts"]]))
        judged = vlib.run_runner("c03-judge", judge_in)
        for r in judged:
            if r and r[0] == "runner-error":
                raise vlib.BuildError("runner: %s" % r)
    outs = []
    k = 0
    from tools.props.c03 import has_cmd_attr
    for c, m, runs in zip(cases, models, allruns):
        corr, ok, steps, kf = True, True, [], None
        for j, (step, o) in enumerate(zip(m, runs)):
            if step[0] != "true":
                raise vlib.BuildError("history generator produced a layout outside the domain: %s" % json.dumps(c["steps"][j])[:300])
            r = judged[k]
            k += 1
            parsed, ws, jok, jcorr = r[0] == "true", r[1], r[2] == "true", r[3] == "true"
            spec = sorted(tuple(p) for p in step[2])
            if o.get("ok"):
                this_ok, this_corr = parsed and jok, jcorr
            else:                                   # the run failed: fine only if nothing had to be there
                this_ok, this_corr = (not spec) and not o["written"], False
            ok &= this_ok
            corr &= this_corr
            if step[3] == "true":
                kf = "C03-3"
            steps.append({"run": j, "edit": c["labels"][j], "route": routes_of(c)[j], "force": force_of(c)[j], "in_class_C03_3": step[3] == "true", "spec": spec, "model": sorted(tuple(p) for p in step[1]),
                          "build_ok": o.get("ok"), "err": o.get("err", ""), "commands_ts_written": o["written"], "module_parsed": parsed,
                          "wrappers": ws, "oracle_ok": this_ok, "matches_model": this_corr, "stderr_tail": o.get("stderr", "")})
        nontrivial = any(has_cmd_attr({"tree": t}) for t in c["steps"])
        outs.append(Outcome(c, corr, ok, kf, {"project_path": c["project_path"], "mode": c["mode"], "runs": steps}, nontrivial=nontrivial))
    return outs


def routes_of(c):
    return c.get("routes") or ["build"] * len(c["steps"])


def force_of(c):
    return c.get("force") or ["no"] * len(c["steps"])


def stats(case, acc):
    for r, f in zip(routes_of(case), force_of(case)):
        acc["history_run:%s:%s" % (r, "forced_" + f if f != "no" else "plain")] = acc.get("history_run:%s:%s" % (r, "forced_" + f if f != "no" else "plain"), 0) + 1
    acc["history_length:%d" % len(case["steps"])] = acc.get("history_length:%d" % len(case["steps"]), 0) + 1
    acc["history_mode:" + case["mode"]] = acc.get("history_mode:" + case["mode"], 0) + 1
    for l in case["labels"][1:]:
        acc["history_edit:" + l] = acc.get("history_edit:" + l, 0) + 1
