"""C18 - a type mapping replaces the mapped type everywhere and nothing else.

Every type of the enumeration (C05's constructor spines with the named leaf instantiated by PathBuf, Uuid,
DateTime<Utc>, plus an unmapped struct) is pushed through the real parsers, visitors, schema builder and partial
templates twice - with GenerateConfig.type_mappings set to the table and without - at all five sites in both
modes. Correspondence: the text with the table equals the extracted model's (Model/C05Emit.v with the table).
Oracle (Spec/C18Known.c18_full_ok, extracted): relational clause (Spec/C18Spec.v: byte equality of the two texts when the
type mentions no mapped name, else token-level substitution N -> M, NSchema -> z.M(), types.N -> M, of the text without the
table) AND absolute clause (the text with the table denotes rshape m t - every mapped name at every constructor position,
map keys included, is its target - inside dom_m and outside C05's remaining classes)."""
import itertools
import json
import os
import random

from tools import vlib
from tools.vlib import Outcome, sx
from tools.props import c05, c05_types as T
from tools.props import c18_hist
from tools.props import c18_decl

MANIFEST = {
    "level_text": "Coq theorems (Properties/C18.v, no axioms) over the same faithful Gallina model as C05 (repaired parse_type_structure, visitors with the type_mappings lookup in visit_custom, Zod visitor/schema builder, repaired add_types_prefix) for every type, table, site and mode: C18_frame (if no custom name of the parsed structure is a key of the table, all five sites in both modes print byte for byte what they print without the table), C18_render_subst (the text rendered with the table is the text of the structure in which each mapped name is replaced by its target), C18_subst_ts_sites (at every site whose text is a TypeScript type - parameter, field, channel, return, event payload; 8 of the 10 site x mode pairs - the text printed with the table denotes the README shape in which every mapped name, at any depth and in map-key position, is its target, namespace-qualified at return/event sites; premise: outside C05's remaining classes), C18_abs_oracle_exact (the absolute clause of the run-time oracle is equivalent to that statement), C18_subst_all_sites (the same at all ten site x mode pairs, Zod schema sites included, unconditionally for tables with targets string/number/boolean and types nested less than 31 levels in the domain of the C10 round-trip theorem), C18_subst_all_sites_under_link (the same at all ten site x mode pairs for the rest of the domain, Zod schema sites included, under the explicit hypothesis that the builder's text parses to the builder's tree - zod_parse_link, the round trip of the C10 development - and the nesting premise tdepth < 60), C18_render_subst_tokens (the substitution lemma of the renderer on tokens, by structural induction on the TypeStructure: for every structure of the C10 domain and every table with targets string/number/boolean whose keys are legal untaken names, the text of the substituted structure lexes without error to the tokens of the unmapped text in which every types.N / N is replaced by M - the oracle's subst_tokens, guards included), C18_relational_unqualified_sites (the whole relational clause c18_ok of the oracle - token equation, no lexing error, no mapped name referred to, byte equality when no key is mentioned - for all types at parameter and field in plain mode and channel in both modes), the declaration model (coq/Model/C18Decl.v: the set of project types types.ts exports, TypeCollector::collect_used_types with nested discovery, table never consulted) with C18_never_declared (for every project, table and set of sites: outside class C18-4 - a project struct or enum whose own name is a key - no mapped name is declared), C18_declared_frame (the table never changes the declarations), C18_declared_reachable (nothing else is declared: every declared name is a project struct or enum reachable from a site through field types), C18_mapped_struct_declared + C18_never_declared_refuted (inside the class the defect is general; computed witness struct Timestamp), C18_decl_oracle_exact (the run-time oracle of the clause is the clause), C18_decl_frame_oracle_exact + C18_decl_frame_model (the frame clause on declarations - exported names with the table = exported names without it - as the run-time oracle c18_decl_frame_ok applied to two real CLI runs of every decl-model project; the model satisfies it for every project), and computed positive statements on the witnesses of the three repaired classes. Tied to /repo on every run by rendering every enumerated type with and without every table through the real code and comparing with the extracted model string for string; the extracted relational oracle is applied to the implementation's two texts.",
    "design_ref": "DESIGN.md section 5 C18",
    "level_note": "Project level (stream history): the real CLI binary is run on projects in which the mapped name reaches the output by exactly one route, twice into one directory with an edit of the table in between, with the table coming from a -c file or from tauri.conf.json; judged against a fresh generation under the final table and by the unit-level oracle on the site text (no theorem: the cache decision is modelled by C08/C14). Proved for all inputs: frame (all sites, both modes), the absolute clause of substitution at all ten site x mode pairs (C18_subst_all_sites: no parsing hypothesis, C10 domain, nesting < 31; return/event through add_types_prefix), and since round 7 the relational token-level clause (text with table = text without table with N replaced by M, nothing referring to N left) at the 4 site x mode pairs whose text is the unqualified TypeScript type (parameter/field plain, channel both modes; side conditions: targets string/number/boolean, every key a legal untaken identifier, structure in the C10 domain, no unmapped project type literally called NSchema). STILL only on bounded sweeps and the run-time oracle: the relational clause (a) at return / event payload sites (types.-qualified text: needs the lexing theorem of C10LexTy.LX_plain redone for the qualified renderer and the three-token pattern types . N in replace_all), (b) at the two Zod schema sites (needs a token renderer for C10LexEx.LZ, replace_all past the colon of z.object({ error: ... }), and the extra side condition that no key is a Zod method name), (c) for generic keys such as DateTime<Utc> (multi-token patterns) - these are machine-checked only on bounded sweeps of the model (C18_sweep_depth1_partial in the property file; the depth-2 sweep is coq/Proofs/C18Sweep2.v, compiled by the thorough tier, kept out of the coqchk closure) and by the run-time oracle; no defect class is left there after the repairs C05-4-prefix-composite and C05-2-3-top-level-commas (C18-1..3 fixed). The clause 'N is never declared' is now inside the model at the level of the SET of exported project types (Model/C18Decl.v; theorem outside C18-4, refuted inside; streams declared-name and decl-model compare the set with the real types.ts on every run); not modelled: the text of the declarations (C10), the Params interfaces and event-only payload collection order. 'Never referenced by name' is checked on the type text of the five sites only. Mapping keys are assumed to be custom type names as type_to_string prints them (PathBuf, DateTime<Utc>), targets in {string, number, boolean}.",
    "technique": "Rocq/Coq proof over hand-written model + correspondence check (extracted OCaml vs Rust harness)"
}

RULE = ("a case is (Rust type, mapping table, site, mode); non-trivial = the type has at least one constructor and the table "
        "is non-empty; distinct = distinct (type, table, site, mode). Streams: corpus (known-finding witnesses), spines "
        "(every constructor at every argument position to depth 2, leaves String,i32,PathBuf,Uuid,DateTime<Utc>,User; "
        "fillers include PathBuf) x tables (quick: full tables under 3 target rotations, a table that maps only names absent "
        "from the type, one random table, and for types mentioning DateTime<Utc> two tables whose key is only the head DateTime; thorough: all 64 tables over {unmapped,string,number,boolean}^3), random types to depth 6 "
        "x random tables; overlap (depth <= 1 spines over a name pool in which unmapped names have mapped names as proper prefix, "
        "suffix or infix - Utf8PathBuf, PathBufExt, MyUuid, UuidV7, DateTimeLocal - and path-qualified spellings std::path::PathBuf, "
        "uuid::Uuid, x tables whose keys overlap each other, each in 4 (quick) / 8 (thorough) fresh resolvers)")
RULE += ("; decl-model: random projects of 2-5 structs whose fields name each other, external names and primitives under Vec/Option/HashMap/tuple/Result, "
         "one command with 0-2 parameters, a return type, sometimes a channel and in 35% an event with a let-bound payload, a table that maps Uuid and in 45% of the cases a project struct: the set of "
         "project types exported by types.ts of the real binary = declared_ts of the model, clause c18_decl_ok on the implementation's names; every project is generated with AND without the table and the two exported declaration sets "
         "must be equal (frame clause on declarations, oracle c18_decl_frame_ok); 35% of the fields and the deterministic chain cases "
         "(Root -> Inner -> Leaf, 9 shapes x 2 modes x 3 tables) combine a mapped plain name and a project type in ONE type expression "
         "(map key + value, tuple, Vec of tuples, Result, nested maps), the project type reachable only through such fields")
TRUSTED = [
    "Spec/C18Spec.v: token-level substitution reading of 'rendered as M' (types.N and N -> M; NSchema -> z.M()) over the lexer Spec/TsLex.v",
    "tools/props/c18_decl.py / c18_hist.py: regular expression that reads the exported names from types.ts; the project printer of the decl-model stream",
    "tools/props/c05_types.py printer of Rust type syntax; harness text extraction from rendered partial templates",
]
ASSUMPTIONS = ["type_mappings is a HashMap: lookup by exact key, one entry per key (association list without duplicate keys in the model)"]

SITES, MODES = c05.SITES, c05.MODES
NAMES = ["PathBuf", "Uuid", "DateTime<Utc>"]
TARGETS = ["string", "number", "boolean"]
LEAVES18 = ["String", "i32", "PathBuf", "Uuid", "DateTime<Utc>", "User"]
FILL18 = ["String", "PathBuf", "bool", "User"]
KF_BY_CLASS = {}      # C18-1, C18-2, C18-3 were repaired; C18-4 is assigned by the declared-name stream (tools/props/c18_hist.py) (known_findings/C18.json holds fixed records only)


def leaf18(s):
    return T.parse(s)


def spines18(maxdepth):
    level = [leaf18(s) for s in LEAVES18]
    out = list(level)
    for _ in range(maxdepth):
        nxt = []
        for cons, ar in T.CONSTRUCTORS:
            for pos in range(ar):
                for u in level:
                    t = T.build(cons, ar, pos, u, fill=FILL18)
                    if t is not None:
                        nxt.append(t)
        out += nxt
        level = nxt
    return out


def all_tables():
    out = []
    for combo in itertools.product([None] + TARGETS, repeat=len(NAMES)):
        out.append({n: v for n, v in zip(NAMES, combo) if v})
    return out


def names_in(t, acc=None):
    acc = acc if acc is not None else set()
    if t[0] == "p":
        acc.add(T.tts(t))
        for a in t[2]:
            names_in(a, acc)
    elif t[0] == "r":
        names_in(t[1], acc)
    else:
        for a in t[1]:
            names_in(a, acc)
    return acc


def tables_for(t, rng, thorough):
    # a key that is only the head of a generic name must not capture DateTime<Utc> (exact-name lookup)
    head_only = [{"DateTime": "string"}, {"DateTime": "number", "PathBuf": "boolean"}]
    if thorough:
        return [m for m in all_tables() if m] + head_only
    present = names_in(t)
    out = []
    for r in range(3):
        out.append({n: TARGETS[(i + r) % 3] for i, n in enumerate(NAMES)})
    absent = [n for n in NAMES if n not in present]
    if absent:
        out.append({n: "number" for n in absent})
    m = {n: rng.choice(TARGETS) for n in NAMES if rng.random() < 0.5}
    if m and m not in out:
        out.append(m)
    if "DateTime<Utc>" in present:
        out += head_only
    return out


# names that overlap mapped names: proper prefix / suffix / infix of an UNMAPPED name, path-qualified spellings
# (the tool compares the printed name with the key, so these are other names: the frame clause applies), and
# tables whose keys overlap each other
OVERLAP_LEAVES = ["PathBuf", "Uuid", "Utf8PathBuf", "PathBufExt", "MyUuid", "UuidV7", "MyUuidV7", "DateTimeLocal",
                  "std::path::PathBuf", "uuid::Uuid", "camino::Utf8PathBuf", "String", "User"]
OVERLAP_TABLES = [
    {"PathBuf": "string"}, {"Uuid": "number"}, {"PathBuf": "boolean", "Uuid": "number", "DateTime": "string"},
    {"PathBuf": "string", "Utf8PathBuf": "number"}, {"Utf8PathBuf": "boolean", "PathBuf": "number"},
    {"Uuid": "number", "MyUuid": "boolean", "UuidV7": "string"}, {"MyUuidV7": "string", "Uuid": "boolean"},
    {"PathBufExt": "number"}, {"std::path::PathBuf": "number", "PathBuf": "string"},
]


def overlap_cases(reps=4):
    """depth <= 1 spines over the overlapping name pool x the overlapping tables; every case is evaluated in
    `reps` fresh resolvers / analyzers (fresh hash seeds) because an order-dependent lookup shows only sometimes"""
    level = [T.leaf(s) for s in OVERLAP_LEAVES]
    types = list(level)
    for cons, ar in T.CONSTRUCTORS:
        for pos in range(ar):
            for u in level:
                t = T.build(cons, ar, pos, u, fill=["String", "Utf8PathBuf", "bool", "MyUuid"])
                if t is not None:
                    types.append(t)
    out = []
    for t in types:
        for m in OVERLAP_TABLES:
            for _ in range(reps if len(m) > 1 else 1):
                out.append({"ty": t, "mappings": m})
    return out


def site_texts(o):
    texts = []
    for md in MODES:
        for s in SITES:
            texts.append(c05.text_of((o.get(md) or {}).get(s)) if "panic" not in o and "error" not in o else "")
    return texts


def evaluate(cases, want=None):
    """cases: [{"ty": tree, "mappings": table}]"""
    base_types = {}
    for c in cases:
        base_types.setdefault(T.tts(c["ty"]), c["ty"])
    keys = list(base_types)
    hc = [{"id": i, "ty": T.src(base_types[k]), "printed": k, "mappings": None} for i, k in enumerate(keys)]
    base_obs = dict(zip(keys, vlib.run_harness("c18-emit", hc, per_case_timeout=20)))
    hcases = [{"id": i, "ty": T.src(c["ty"]), "printed": T.tts(c["ty"]), "mappings": c["mappings"]} for i, c in enumerate(cases)]
    obs = vlib.run_harness("c18-emit", hcases, per_case_timeout=20)
    sexps = []
    for c, o in zip(cases, obs):
        m = sorted(c["mappings"].items())
        sexps.append(sx([T.sx_ty(c["ty"]), [[k, v] for k, v in m], site_texts(o), site_texts(base_obs[T.tts(c["ty"])])]))
    res = vlib.run_runner("c18-emit", sexps)
    outs = []
    stats = {"classes": {}, "in_class_but_ok": {}, "out_of_domain": 0, "mentions": 0}
    for c, o, r in zip(cases, obs, res):
        base = {"ty": T.tts(c["ty"]), "tree": c["ty"], "mappings": c["mappings"]}
        nontriv = T.depth(c["ty"]) >= 1 and bool(c["mappings"])
        if r and r[0] == "runner-error":
            raise vlib.BuildError("runner: %s" % r)
        bo = base_obs[T.tts(c["ty"])]
        if "panic" in o or "error" in o or "panic" in bo or "error" in bo:
            outs.append(Outcome(dict(base, what="pipeline"), False, False,
                                detail={"impl": o.get("panic") or o.get("error") or bo.get("panic") or bo.get("error")}))
            continue
        m_tts, m_dom, m_mentions, m_sites = r
        if m_dom != "true":
            stats["out_of_domain"] += 1
        if m_mentions == "true":
            stats["mentions"] += 1
        w, wo = site_texts(o), site_texts(bo)
        i = 0
        for md in MODES:
            for s in SITES:
                model_text, ok, abs_ok, classes = m_sites[i]
                impl, without = w[i], wo[i]
                i += 1
                if want and (s, md) not in want:
                    continue
                corr = impl == model_text and o["tts"]["param"] == m_tts
                okb = ok == "true"
                for k in classes:
                    stats["classes"][k] = stats["classes"].get(k, 0) + 1
                if okb and classes:
                    stats["in_class_but_ok"][classes[0]] = stats["in_class_but_ok"].get(classes[0], 0) + 1
                kf = KF_BY_CLASS.get(classes[0]) if classes else None
                det = {"with_table": impl, "without_table": without, "model_with_table": model_text,
                       "mentions_mapped_name": m_mentions, "absolute_clause": abs_ok, "classes": classes}
                outs.append(Outcome(dict(base, site=s, mode=md), corr, okb, kf=kf, detail=det, nontrivial=nontriv))
    return outs, stats


def corpus_cases():
    """witnesses of the remaining findings (none at present) and corpus/C18/*.json (the witnesses of the
    repaired findings stay there as regression cases that must pass)"""
    return [dict(c, mappings=c.get("mappings") or {}) for c in c05.corpus_cases("C18")]


def run(rep):
    vlib.build_harness("c18")
    vlib.build_runner("c18")
    rng = random.Random(rep.seed)
    thorough = rep.tier == "thorough"
    stats = {}
    outs, st = evaluate(corpus_cases())
    rep.add("corpus", outs)
    c05.merge(stats, st)
    # project level, through the real CLI binary: routes x table edits between two runs x configuration sources
    vlib.build_repo_bin()
    hist_corpus = json.load(open(os.path.join(vlib.VERIF, "corpus", "C18", "histories", "cases.json")))
    rep.add("history-corpus", c18_hist.evaluate(hist_corpus))
    hcases = c18_hist.cases_for(rep.tier, rng)
    rep.add("history", c18_hist.evaluate(hcases))
    rep.add("project-frame-corpus", c18_hist.evaluate_frame(json.load(open(os.path.join(vlib.VERIF, "corpus", "C18", "histories", "frame.json")))))
    # configuration files with oddly typed sibling settings; projects that declare the mapped name themselves
    rep.add("odd-siblings", c18_hist.evaluate_variants(c18_hist.sibling_cases(rep.tier), "odd-siblings"))
    rep.add("declared-name", c18_hist.evaluate_variants(c18_hist.decl_cases(rep.tier), "declared-name"))
    fcases = c18_hist.frame_cases(rep.tier)
    rep.add("project-frame", c18_hist.evaluate_frame(fcases))
    # the declaration model (Model/C18Decl.v) against the real binary on random projects; the clause N is never declared
    rep.add("decl-corpus", c18_decl.evaluate(json.load(open(os.path.join(vlib.VERIF, "corpus", "C18", "decl", "cases.json")))))
    dcases = c18_decl.cases_for(rep.tier, random.Random(rep.seed + 18))
    douts = c18_decl.evaluate(dcases)
    rep.add("decl-model", douts)
    rep.extra.setdefault("distribution", {})["decl-model"] = {
        "cases": len(dcases), "structs": sum(len(c["structs"]) for c in dcases),
        "tables_mapping_a_project_struct": sum(1 for c in dcases if any(k.startswith("S") for k in c["table"])),
        "clause_false_on_implementation": sum(1 for o in douts if not o.ok),
        "declaration_frame_false_on_implementation": sum(1 for o in douts if o.detail.get("decl_frame_ok") != "true"),
        "chain_cases_project_type_only_through_combined_fields": sum(1 for c in dcases if c.get("shape")),
        "projects_declaring_nothing": sum(1 for o in douts if not o.detail["declared_project_types"])}
    rep.extra.setdefault("distribution", {})["project-frame"] = {"cases": len(fcases), "cli_runs": 2 * len(fcases)}
    rep.extra.setdefault("distribution", {})["history"] = {
        "cases": len(hcases), "cli_runs": 4 * len(hcases), "routes": c18_hist.ROUTES, "edits": c18_hist.EDITS,
        "sources": c18_hist.SOURCES, "names": list(c18_hist.NAMES), "shapes": list(c18_hist.SHAPES)}
    cases = []
    for t in spines18(2):
        for m in tables_for(t, rng, thorough):
            cases.append({"ty": t, "mappings": m})
    outs, st = evaluate(cases)
    rep.add("spines", outs)
    c05.merge(stats, st)
    rep.extra.setdefault("distribution", {})["spines"] = dict(c05.distribution(cases), cases=len(cases),
                                                              tables=len({tuple(sorted(c["mappings"].items())) for c in cases}))
    ocases = overlap_cases(8 if thorough else 4)
    outs, st = evaluate(ocases)
    rep.add("overlap", outs)
    c05.merge(stats, st)
    rep.extra["distribution"]["overlap"] = dict(c05.distribution(ocases), cases=len(ocases), names=OVERLAP_LEAVES,
                                                tables=OVERLAP_TABLES)
    rcases = []
    tabs = [m for m in all_tables() if m]
    for _ in range(20000 if thorough else 2000):
        t = T.random_type(rng, rng.randint(2, 6), leaves=LEAVES18)
        rcases.append({"ty": t, "mappings": rng.choice(tabs)})
    outs, st = evaluate(rcases)
    rep.add("random", outs)
    c05.merge(stats, st)
    rep.extra["distribution"]["random"] = dict(c05.distribution(rcases), cases=len(rcases))
    if thorough:
        rc, out = vlib.coq_make(["Proofs/C18Sweep2.vo"], timeout=2700)
        rep.extra["depth2_sweep_in_coq"] = "Proofs/C18Sweep2.vo compiled" if rc == 0 else "FAILED"
        if rc != 0 and rep.proof is not None:
            rep.proof["problems"].append("Proofs/C18Sweep2.vo (depth-2 sweep of the model) does not compile:\n" + out[-2000:])
    rep.extra["class_counts"] = stats.get("classes", {})
    rep.extra["in_class_but_property_holds"] = stats.get("in_class_but_ok", {})
    rep.extra["cases_mentioning_a_mapped_name"] = stats.get("mentions", 0)
    # dom_m (the domain of C18_subst_plain) excludes types that mention an UNMAPPED generic name
    # (DateTime<Utc> under a table without that key); they are kept: frame and substitution of the
    # other names are still checked by the relational oracle
    rep.extra["cases_outside_dom_m_unmapped_generic"] = stats.get("out_of_domain", 0)


def replay(rep, payload):
    vlib.build_harness("c18")
    vlib.build_runner("c18")
    items = payload.get("disagreeing_cases") or [payload]
    for it in items:
        c = it["case"]
        if c.get("what") == "history":
            vlib.build_repo_bin()
            rep.add("history", c18_hist.evaluate([{k: c[k] for k in ("route", "edit", "source", "mode", "name", "shape") if k in c}]))
            continue
        if c.get("what") in ("odd-siblings", "declared-name"):
            vlib.build_repo_bin()
            rep.add(c["what"], c18_hist.evaluate_variants([{k: v for k, v in c.items() if k != "what"}], c["what"]))
            continue
        if c.get("what") == "decl-model":
            vlib.build_repo_bin()
            rep.add("decl-model", c18_decl.evaluate([c]))
            continue
        if c.get("what") == "project-frame":
            vlib.build_repo_bin()
            rep.add("project-frame", c18_hist.evaluate_frame([{k: c[k] for k in ("events", "pos", "split_files", "source", "mode", "target")}]))
            continue
        want = {(c["site"], c["mode"])} if "site" in c else None
        outs, _ = evaluate([{"ty": c["tree"], "mappings": c["mappings"]}], want=want)
        rep.add(it.get("stream", "replay"), outs)
