"""C15 - no input makes analysis or generation panic; bad files are isolated.
String level: every function of /repo that slices a str by computed offsets is run (public API,
catch_unwind) on the same strings as its byte-faithful Coq model; outcome (value or PANIC) must
agree, and the property predicate is "the implementation returned". Project level (oracle
only): exotic/hostile source trees through the real CLI (exit status 0 or 1) and the library
entry; isolation of unparsable files."""
import os
import random
import re
import struct

from tools import vlib
from tools.vlib import Outcome, sx
from tools.props import c15_gen as G

MANIFEST = {
    "level_text": "Coq theorems (Properties/C15.v, no axioms) about byte-level Gallina transcriptions (strings = UTF-8 byte lists, every Rust slice = a slice that returns Panic exactly when Rust panics) of every function of the analysis and generation code that slices a str by computed offsets, unwraps or recurses on substrings: for ALL well-formed UTF-8 input parse_type_structure (with all extract_* helpers, parse_two_type_params and the shared find_top_level_comma / split_top_level loop), extract_type_names, add_types_prefix (including its recursion under []), parse_rename_all, parse_rename (repaired restart offset), parse_validator_attributes including parse_message_from_content (repaired: char_indices), apply_naming_convention under all eight rules (repaired camelCase call-site guard) and event_name_to_function never panic and terminate with the stated fuel; the former counterexamples are positive theorems on the same witnesses. compute_variant_name (variant-rule repair, CamelCase arm guarded at the call site) returns for every rule and name although the crate's apply_to_variant(CamelCase) slices variant[..1]. No refutation and no class premise is left. At project level a model of the per-file loop with abstract walkers carries the isolation clause and whole-pipeline termination as theorems. The models are tied to the code on every run by executing both on the same adversarial strings (exhaustive short strings over an alphabet with 1-4 byte characters, multi-byte characters at every offset of attribute payloads, unbalanced type strings) and comparing value-or-PANIC.",
    "level_note": "Partial. Proved for all inputs: panic-freedom and termination of the string-index arithmetic (the mechanism the property names; explicit size bound C15_depth_bound: below 2^31 - 1 bytes the i32 depth counter of find_top_level_comma cannot overflow), the guarded indexing of syn sequences in extract_emit_event / is_tauri_command / is_tauri_parameter_type (C15_walker_indexing, with an exhaustive small-scope correspondence stream), and at project level, for ARBITRARY syn-level walkers (parameters of the model): isolation of files that fail to read or parse (C15_isolated, C15_isolated_all: generated result unchanged, every such file reported, stderr exactly their reports) and termination of the whole analysis model - load loop, resolve_types_lazily (generic worklist, potential fuel), type ordering (C15_total_pipeline, C15_pipeline_never_out_of_fuel; the only non-Ok outcome is a walkdir error = exit 1). Not modelled, only searched by the oracle streams (grammar-generated exotic items, /repo and registry sources with truncations/mutations, non-Rust text, each through the real CLI with exit status in {0,1} and through generate_from_config under catch_unwind; isolation compared on generated output modulo timestamp): syn, Tera, walkdir, the bodies of the AST walkers beyond the three indexing sites (they are the abstract extractors of the project model), the generators, stack exhaustion on pathologically deep nesting. The project model is tied to the code only through the isolation and project streams (its extractors are abstract, so it is not extracted). char::is_uppercase in the snake/kebab arms of apply_to_variant is exact on ASCII names only (value compared for ASCII names, outcome for all). Numeric parse of min/max is compared through a python transcription of Rust's u64/f64 grammar.",
    "technique": "Rocq/Coq proof over hand-written model + correspondence check (extracted OCaml vs Rust harness) + CLI fuzzing oracle",
    "design_ref": "DESIGN.md section 5 C15, section 2.2",
}

RULE = ("string level: one case = one input string of one function; exhaustive words over a 9-12 letter adversarial alphabet "
        "(ASCII letter, _, quote, backslash, parentheses, comma, =, space, 2-, 3- and 4-byte characters) up to length 3-4 (quick) / 4-5 (thorough), "
        "1-3 byte white space and delimiters inserted at and substituted for every character of typical attribute payloads, "
        "random token soups, generated/mutated/unbalanced type strings, all prefixes of the fixed-offset tags; 9 naming rules x names and 8 variant rules x variant names. "
        "Non-trivial = the input contains a non-ASCII byte or a delimiter the function searches for. "
        "project level: one case = one source tree; generated exotic items, corpus files (plain, commandified, truncated, mutated), non-Rust text, "
        "degenerate trees (empty, only non-.rs files, only target/ and .git content, directories named *.rs, empty / comment-only / unparsable / non-UTF-8 files only, zero commands, events only) x every setting x CLI, analyze_project_with_verbose, generate_from_config and BuildSystem; spellings of the project / output path (trailing and doubled slashes, ./, .. segments, relative / absolute) x top-level names starting with a non-ASCII character on the cache-using entry points (with --force, and twice without); string literals with escape-looking text after an escaped backslash beside real escapes (validator messages, rename values, event names; string level against the model and project level); naming configuration (default_field_case / default_parameter_case: 8 convention names + unknown values) x hostile identifiers by tauri.conf.json, library config and BuildSystem, also at string level (default:<value> rules against the model default_case_b); project size 19..100 types/commands/events (dag, cyclic, chain; 70-field structs; one or many files) in both modes; every project stream crossed with the optional output-producing settings (verbose, visualize_deps, include_private, exclude patterns; by flag and by tauri.conf.json) and the three entry points (CLI, generate_from_config, BuildSystem), each in its own process; a multi-byte character swept over every byte offset 0..80 of type texts, names, literals and paths; recursive and mutually recursive serde type graphs (every digraph on 3 named types with rotating root sets and containers, random 4-7 node graphs, wide/deep acyclic graphs, long rings) in both modes with exit status / signal / time limit as oracle, bounded deep nesting; project states whose generation-cache hash TEXT is extreme (10-15 hex digits = leading zero nibbles of the unpadded {:x} text, in the combined hash and in the command / struct / event component hashes; names found by a counter search through the public GenerationCache API, table re-verified and re-searched on every run) through the cache-reading entry points (CLI twice without --force by flags and by tauri.conf.json, build script twice); isolation = base project with and without unparsable (or non-UTF-8) files. distinct = distinct inputs")
TRUSTED = [
    "python transcription of Rust's str::parse::<u64>/<f64> grammar (value of min/max only; not needed for panic-freedom)",
    "the token string handed to the attribute scanners is computed by the harness exactly as the code computes it (MetaList.tokens.to_string())",
    "project-level streams have no model: ok = exit status in {0,1} and no timeout; a failing case is attributed to a recorded class only if an inventoried identifier/attribute lies in the class AND the panic location is the recorded call site",
    "isolation compares generated files as multisets of lines without the timestamp (declaration order depends on hash order, C13)",
]
ASSUMPTIONS = ["source files are valid UTF-8 (the property quantifies over UTF-8 files; read_to_string errors otherwise, exit 1)",
               "stack exhaustion inside syn on pathologically deep nesting is outside the model (bounded depths only are exercised)"]

SITE = {}      # no recorded class is left: every panic is a VIOLATION

F64_RE = re.compile(r"^[+-]?(?:(?:\d+\.?\d*|\.\d+)(?:[eE][+-]?\d+)?|inf|infinity|nan)$", re.I)
F64_NUM = re.compile(r"^[+-]?(?:\d+\.?\d*|\.\d+)(?:[eE][+-]?\d+)?$", re.A)


def rust_u64(t):
    if t is None:
        return None
    d = t[1:] if t.startswith("+") else t
    if not d or not all(c in "0123456789" for c in d):
        return None
    v = int(d)
    return str(v) if v < 2 ** 64 else None


def rust_f64(t):
    if t is None:
        return None
    if F64_NUM.match(t):
        try:
            x = float(t)
        except (ValueError, OverflowError):
            return None
    else:
        body = t[1:] if t[:1] in "+-" else t
        if body.lower() in ("inf", "infinity"):
            x = float("-inf") if t[:1] == "-" else float("inf")
        elif body.lower() == "nan":
            return "nan"
        else:
            return None
    return str(struct.unpack("<Q", struct.pack("<d", x))[0])


def o1(x):
    """option encoded as [] / [v] on both sides"""
    return x[0] if x else None


def nontrivial(s):
    return any(ord(c) > 127 for c in s) or any(c in s for c in "\"\\()<>,=&|")


# ------------------------------------------------------------------ string-level streams

def model_outcome(m):
    """('panic'|'fuel'|'ok', value)"""
    if isinstance(m, str):
        return m, None
    return m[0], m[1]


def eval_attr(kind, payloads):
    """kind in validator/serde: harness parses the attribute and reports tokens + result; the model runs on the tokens"""
    cases = [{"id": i, "payload": p} for i, p in enumerate(payloads)]
    obs = vlib.run_harness("c15-" + kind, cases, per_case_timeout=20)
    live = [(c, o) for c, o in zip(cases, obs) if not o.get("skip") and not o.get("skipped")]
    res = vlib.run_runner("c15-" + kind, [sx(o.get("tokens", "")) for c, o in live if "tokens" in o])
    outs = []
    k = 0
    for c, o in live:
        case = {"fn": kind, "payload": c["payload"]}
        if "tokens" not in o:      # harness died on the case
            outs.append(Outcome(case, False, False, detail={"impl": o}))
            continue
        m = res[k]
        k += 1
        if m and m[0] == "runner-error":
            raise vlib.BuildError("runner: %s" % m)
        tag, val = model_outcome(m[0])
        in_class = m[1] == "true"
        if m[2] != "true":
            raise vlib.BuildError("token string is not UTF-8 in the model's sense: %r" % o["tokens"])
        impl = o["res"]
        impl_panic = isinstance(impl, dict) and "PANIC" in impl
        ok = not impl_panic
        if impl_panic or tag != "ok":
            corr = impl_panic and tag == "panic"
            mval = tag
        elif kind == "validator":
            if impl == "none":
                corr, mval = False, val
            else:
                def con(mc, num):
                    if not mc:
                        return []
                    mn, mx, msg = mc[0]
                    return [[[x] if x is not None else [] for x in (num(o1(mn)), num(o1(mx)))] + [[o1(msg)] if msg else []]]
                mval = [val[0] == "true", val[1] == "true", con(val[2], rust_u64), con(val[3], rust_f64)]
                corr = mval == impl
        else:
            mval = [val[0], val[1] == "true", val[2]]
            corr = mval == impl
        kf = None      # C15-msg and C15-rename are repaired: no class applies to the attribute scanners
        outs.append(Outcome(case, corr, ok, kf, {"tokens": o["tokens"], "impl": impl, "model": mval, "in_class": in_class},
                            nontrivial=nontrivial(c["payload"])))
    return outs, len(cases) - len(live)


def canon_names(l):
    return sorted(set(n for n in l if n and ord(n[0]) < 128))


def eval_type(strings):
    cases = [{"id": i, "s": s} for i, s in enumerate(strings)]
    obs = vlib.run_harness("c15-type", cases, per_case_timeout=20)
    res = vlib.run_runner("c15-type", [sx(c["s"]) for c in cases])
    outs = []
    for c, o, m in zip(cases, obs, res):
        case = {"fn": "type", "s": c["s"]}
        if o.get("skipped"):
            continue
        if "ts" not in o:
            outs.append(Outcome(case, False, False, detail={"impl": o}))
            continue
        if m and m[0] == "runner-error":
            raise vlib.BuildError("runner: %s" % m)
        corr = ok = True
        det = {}
        for key, mo in (("ts", m[0]), ("names", m[1])):
            tag, val = model_outcome(mo)
            impl = o[key]
            ip = isinstance(impl, dict) and "PANIC" in impl
            ok &= not ip
            if ip or tag != "ok":
                this = ip and tag == "panic"
            elif key == "ts":
                this = val == impl
            else:
                this = canon_names(val) == canon_names(impl)
            corr &= this
            det[key] = {"impl": impl, "model": val if tag == "ok" else tag}
        outs.append(Outcome(case, corr, ok, None, det, nontrivial=nontrivial(c["s"])))
    return outs


def eval_prefix(strings):
    cases = [{"id": i, "s": s} for i, s in enumerate(strings)]
    obs = vlib.run_harness("c15-prefix", cases, per_case_timeout=20)
    res = vlib.run_runner("c15-prefix", [sx(c["s"]) for c in cases])
    outs = []
    for c, o, m in zip(cases, obs, res):
        case = {"fn": "prefix", "s": c["s"]}
        if o.get("skipped"):
            continue
        if "out" not in o:
            outs.append(Outcome(case, False, False, detail={"impl": o}))
            continue
        tag, val = model_outcome(m[0])
        impl = o["out"]
        ip = isinstance(impl, dict)
        corr = (ip and "PANIC" in impl and tag == "panic") or (not ip and tag == "ok" and val == impl)
        outs.append(Outcome(case, corr, not ip, None, {"impl": impl, "model": val if tag == "ok" else tag}, nontrivial=nontrivial(c["s"])))
    return outs


def eval_tskey(strings):
    """oracle only (the ts_key filter inspects characters and never slices, so it has no byte-level model):
    the filter returns; key form is the name itself or a double-quoted literal, member form .name or [literal]"""
    cases = [{"id": i, "s": s} for i, s in enumerate(strings)]
    obs = vlib.run_harness("c15-tskey", cases, per_case_timeout=20)
    outs = []
    for c, o in zip(cases, obs):
        if o.get("skipped"):
            continue
        impl = o.get("out", o)
        if isinstance(impl, dict) and "ERR" in impl:
            if "ts_key" in impl["ERR"] and "not" in impl["ERR"]:
                return []          # tree without the filter (before repair C01-bare-key-quote)
            outs.append(Outcome({"fn": "tskey", "s": c["s"]}, True, True, None, {"impl": impl}, nontrivial=False))
            continue
        ok = isinstance(impl, str)
        if ok:
            ok = impl == c["s"] + "|." + c["s"] or (impl.startswith('"') and impl.endswith('"]'))
        outs.append(Outcome({"fn": "tskey", "s": c["s"]}, True, ok, None, {"impl": impl}, nontrivial=nontrivial(c["s"])))
    return outs


def walker_cases():
    """exhaustive small scope for the guarded indexing in the AST walkers"""
    cases = []
    for method in ("emit", "emit_to", "emit_all", "emit_filter"):
        for k in range(0, 6):
            for name_literal in (True, False):
                args = []
                for i in range(k):
                    is_name = (method == "emit" and i == 0) or (method == "emit_to" and i == 1)
                    args.append("name_var" if (is_name and not name_literal) else '"a%d"' % i)
                src = "fn f(app: tauri::AppHandle) { app.%s(%s); }\n" % (method, ", ".join(args))
                cases.append({"kind": "emit", "method": method, "k": k, "name_literal": name_literal, "src": src})
    segs = ["tauri", "command", "ipc", "x"]
    import itertools as it
    for n in (1, 2, 3):
        for p in it.product(segs, repeat=n):
            for lead in (False, True):
                path = ("::" if lead else "") + "::".join(p)
                cases.append({"kind": "attr", "leading": lead, "segs": list(p), "src": "#[%s]\nfn f() {}\n" % path})
    tsegs = ["tauri", "ipc", "AppHandle", "State", "Channel", "Request", "Window", "WebviewWindow", "Manager", "X"]
    for n in (1, 2, 3):
        for p in it.product(tsegs, repeat=n):
            cases.append({"kind": "param", "segs": list(p), "src": "#[tauri::command]\nfn f(p0: %s) {}\n" % "::".join(p)})
    return cases


def eval_walker(cases):
    for i, c in enumerate(cases):
        c["id"] = i
    obs = vlib.run_harness("c15-walker", cases, per_case_timeout=20)
    sexps = []
    for c in cases:
        if c["kind"] == "emit":
            sexps.append(sx(["emit", c["method"] == "emit_to", c["k"]]))
        elif c["kind"] == "attr":
            sexps.append(sx(["attr", c["leading"], c["segs"]]))
        else:
            sexps.append(sx(["param", c["segs"]]))
    res = vlib.run_runner("c15-walker", sexps)
    outs = []
    for c, o, m in zip(cases, obs, res):
        case = {k: v for k, v in c.items() if k != "id"}
        case["fn"] = "walker"
        if o.get("skipped") or o.get("skip"):
            continue
        if "out" not in o:
            outs.append(Outcome(case, False, False, detail={"impl": o}))
            continue
        impl = o["out"]
        ip = isinstance(impl, dict)
        tag, val = model_outcome(m)
        if ip or tag != "ok":
            corr, expect = (ip and tag == "panic"), tag
        elif c["kind"] == "emit":
            # the model says which argument is the name; the call yields an event iff the method is emit/emit_to,
            # enough arguments are present and the name argument is a string literal
            sel = val[0] if val else None
            expect = ["a%s" % sel[0]] if (sel and c["method"] in ("emit", "emit_to") and c["name_literal"]) else []
            corr = impl == expect
        elif c["kind"] == "attr":
            expect = 1 if val == "true" else 0
            corr = impl == expect
        else:
            expect = [] if val == "true" else ["p0"]
            corr = impl == expect
        outs.append(Outcome(case, corr, not ip, None, {"impl": impl, "expected_from_model": expect}, nontrivial=True))
    return outs


def eval_naming(pairs):
    cases = [{"id": i, "rule": r, "name": n} for i, (r, n) in enumerate(pairs)]
    obs = vlib.run_harness("c15-naming", cases, per_case_timeout=20)
    res = vlib.run_runner("c15-naming", [sx([c["rule"], c["name"]]) for c in cases])
    outs = []
    for c, o, m in zip(cases, obs, res):
        case = {"fn": "naming", "rule": c["rule"], "name": c["name"]}
        if o.get("skipped"):
            continue
        if "out" not in o:
            outs.append(Outcome(case, False, False, detail={"impl": o}))
            continue
        tag, val = model_outcome(m[0])
        impl = o["out"]
        ip = isinstance(impl, dict)
        # char::is_uppercase (snake family of apply_to_variant) is exact in the model on ASCII names only
        value_modelled = not (c["rule"].startswith("variant:") and ("snake" in c["rule"].lower() or "kebab" in c["rule"].lower())
                              and any(ord(ch) > 127 for ch in c["name"]))
        corr = (ip and tag == "panic") or (not ip and tag == "ok" and (val == impl or not value_modelled))
        kf = None
        outs.append(Outcome(case, corr, not ip, kf, {"impl": impl, "model": val if tag == "ok" else tag},
                            nontrivial=nontrivial(c["name"]) or "_" in c["name"]))
    return outs


# ------------------------------------------------------------------ project-level streams (oracle only)

BASE_PROJECT = {
    "lib.rs": """use serde::{Serialize, Deserialize};
#[derive(Serialize, Deserialize)]
pub struct User { pub id: u32, #[serde(rename = "n")] pub name: String, pub tags: Vec<String>, pub st: Status }
#[derive(Serialize, Deserialize)]
pub enum Status { Active, Off }
#[tauri::command]
pub fn get_user(id: u32) -> Result<User, String> { todo!() }
#[tauri::command]
pub async fn set_status(app: tauri::AppHandle, user: User, s: Status) -> Option<Status> { app.emit("status-changed", s); None }
""",
}


def panic_site(text):
    m = re.search(r"panicked at ([^\n]*)", text)
    return m.group(1) if m else ""


def classify_failure(files, text):
    """known-finding id for a failing project case. All recorded C15 classes are repaired, so no
    failure is attributed to a class any more (the driver's inventory stays available for a future class)."""
    return None


ALL_ON = {"verbose": True, "visualize_deps": True, "include_private": True, "exclude": ["**/generated/**"]}


def run_oneshot(sb, case, tag):
    """one library-entry run in its own child process of the driver (it may print to stdout or abort):
    the child's exit status / signal and the result file are the observation"""
    import json
    import subprocess
    cf, rf = sb.path("oneshot-%s.json" % tag), sb.path("oneshot-%s.out.json" % tag)
    with open(cf, "w") as f:
        json.dump(case, f)
    try:
        r = subprocess.run([vlib.harness_bin("c15"), "oneshot", cf, rf], timeout=60, stdout=subprocess.DEVNULL,
                           stderr=subprocess.PIPE, env=vlib.ENV)
    except subprocess.TimeoutExpired:
        return {"crash": "timeout after 60 s"}
    if r.returncode != 0 or not os.path.exists(rf):
        return {"crash": "child exit status %s" % r.returncode, "stderr": r.stderr.decode("utf-8", "replace")[-600:]}
    return json.load(open(rf))


def typegen_conf(sb, mode, st, src, out):
    import json
    return json.dumps({"productName": "x", "plugins": {"typegen": {
        "projectPath": src, "outputPath": out, "validationLibrary": mode,
        "verbose": bool(st.get("verbose")), "visualizeDeps": bool(st.get("visualize_deps")),
        "includePrivate": bool(st.get("include_private")), "excludePatterns": st.get("exclude") or [],
        "defaultFieldCase": st.get("field_case", "snake_case"), "defaultParameterCase": st.get("param_case", "camelCase"),
        "force": not st.get("no_force")}}}, indent=1)


def run_project(args):
    """(tag, files, mode, lib[, settings]) -> Outcome. Real CLI in a sandbox; settings = optional
    output-producing switches {verbose, visualize_deps, include_private, exclude, via: flags|conf,
    entries: subset of cli/lib/build}: every entry runs in its own process, exit status / signal / time limit judged"""
    tag, files, mode, lib = args[:4]
    st = args[4] if len(args) > 4 and args[4] else {}
    entries = st.get("entries") or (["cli", "lib"] if lib else ["cli"])
    detail = {}
    ok = True
    corr = True
    out = ""
    code = 0
    with vlib.Sandbox("c15") as sb:
        os.makedirs(sb.path("proj/src"), exist_ok=True)       # the tree may be empty
        sb.write_files({k: (bytes.fromhex(v["hex"]) if isinstance(v, dict) else v) for k, v in files.items()}, under="proj/src")
        # how the project / output path is SPELLED (trailing or doubled slashes, ./, .. segments, relative / absolute);
        # the working directory of the CLI is proj/
        sp = st.get("spelling")
        src_arg = sp[0].format(abs=sb.path("proj/src"), rel="src", up="../proj/src") if sp else sb.path("proj/src")
        out_arg = sp[1].format(abs=sb.path("out"), rel="gen", up="../proj/gen") if sp else sb.path("out")
        force = [] if st.get("no_force") else ["--force"]
        if "cli" in entries:
            if st.get("via") == "conf":
                sb.write("proj/tauri.conf.json", typegen_conf(sb, mode, dict(st, no_force=st.get("no_force")), src_arg, out_arg))
                cli = ["generate"] + force      # tauri.conf.json in the working directory is picked up
            else:
                cli = ["generate", "-p", src_arg, "-o", out_arg] + force
                if mode == "zod":
                    cli += ["-v", "zod"]
                if st.get("verbose"):
                    cli.append("--verbose")
                if st.get("visualize_deps"):
                    cli.append("--visualize-deps")
            code, out = sb.cli(cli, cwd=sb.path("proj"), timeout=60)
            if st.get("no_force") and code == 0:
                # a second run over the same tree takes the cache path (hash comparison instead of generation)
                code2, out2 = sb.cli(cli, cwd=sb.path("proj"), timeout=60)
                detail["exit_second_run"] = code2
                detail["second_run_cache_hit"] = "up to date" in out2
                if code2 not in (0, 1):
                    code, out = code2, out2
            detail.update({"exit": code, "output": out[-1500:] if code not in (0, 1) else out[-300:]})
            ok = code in (0, 1)
            if st.get("expect_hash") and not sp:
                # hash-extreme stream: the state hash the driver computed through the public cache API is the one
                # the CLI wrote into .typecache (otherwise the case does not exercise the extreme it was searched for)
                try:
                    import json
                    written = json.load(open(sb.path("out/.typecache"))).get("combined_hash")
                except (OSError, ValueError):
                    written = None
                detail["cache_file_combined_hash"] = written
                detail["expected_combined_hash"] = st["expect_hash"]
                if detail.get("exit") == 0 or written is not None:
                    corr = written == st["expect_hash"]
        for entry in ("analyze", "lib", "build"):
            if entry not in entries:
                continue
            if entry == "analyze":
                case = {"entry": "analyze", "src_dir": src_arg if sp and not src_arg.startswith(("src", "./", "..")) else sb.path("proj/src"),
                        "verbose": bool(st.get("verbose"))}
            elif entry == "lib":
                case = {"entry": "lib", "src_dir": sb.path("proj/src"), "out_dir": sb.path("out-lib"), "validation": mode,
                        "verbose": st.get("verbose"), "visualize_deps": st.get("visualize_deps"),
                        "include_private": st.get("include_private"), "exclude_patterns": st.get("exclude"),
                        "default_field_case": st.get("field_case"), "default_parameter_case": st.get("param_case")}
            else:
                bsrc = sp[0].format(abs=sb.path("proj/src"), rel="src", up="../proj/src") if sp else "./src"
                sb.write("proj/tauri.conf.json", typegen_conf(sb, mode, st, bsrc, "./out-build"))
                case = {"entry": "build", "dir": sb.path("proj")}
            o = run_oneshot(sb, case, entry)
            if entry == "build" and st.get("no_force") and o.get("result") == "ok":
                # the build script run again over the unchanged tree: the second run reads the cache
                detail["build_first_run"] = o.get("result")
                o = run_oneshot(sb, case, "build2")
            detail[entry] = o.get("result", o)
            if o.get("result") == "panic" or "crash" in o:
                ok = False
                detail[entry + "_detail"] = o.get("detail") or o
                if code in (0, 1):
                    out = "panicked at " + str(o.get("detail", "")).split(" @ ")[-1]
            elif entry == "lib" and "cli" in entries and code in (0, 1) and (o.get("result") == "ok") != (code == 0):
                detail["lib_cli_disagree"] = True
    kf = None
    if not ok:
        kf = classify_failure(files, out)
    case = {"kind": tag, "mode": mode, "files": files}
    if st:
        case["settings"] = st
    return Outcome(case, corr, ok, kf, detail, nontrivial=True)


def canon_tree(snap):
    return {k: (sorted(v.split(b"\n")) if v is not None else None) for k, v in snap.items() if not os.path.basename(k.rstrip("/")).startswith(".")}


def run_isolation(args):
    """base project alone vs base project + unparsable files: same exit status, same generated files"""
    tag, base, bad, mode = args
    res = []
    for files in (base, dict(base, **bad)):
        with vlib.Sandbox("c15i") as sb:
            sb.write_files({k: (bytes.fromhex(v["hex"]) if isinstance(v, dict) else v) for k, v in files.items()}, under="proj/src")
            cli = ["generate", "-p", sb.path("proj/src"), "-o", sb.path("out"), "--force"] + (["-v", "zod"] if mode == "zod" else [])
            st, out = sb.cli(cli, cwd=sb.path("proj"), timeout=60)
            snap = canon_tree(sb.snapshot("out")) if os.path.isdir(sb.path("out")) else {}
            res.append((st, out, snap))
    (s1, o1_, t1), (s2, o2, t2) = res
    if s1 != 0:
        # the base does not generate (judged by the project stream, where the same base is a case)
        return Outcome({"kind": tag, "mode": mode, "base": base, "bad": bad}, True, True, None,
                       {"exit_without": s1, "skipped": "base project does not generate"}, nontrivial=False)
    reported = all((("Failed to parse" in o2 or "Failed to read" in o2) and os.path.basename(n) in o2) for n in bad)
    same = (s1 == s2) and (t1 == t2)
    ok = s1 in (0, 1) and s2 in (0, 1) and same and reported
    detail = {"exit_without": s1, "exit_with": s2, "same_output": t1 == t2, "reported": reported,
              "diff_files": sorted(k for k in set(t1) | set(t2) if t1.get(k) != t2.get(k)), "output_with": o2[-600:]}
    return Outcome({"kind": tag, "mode": mode, "base": base, "bad": bad}, True, ok, None, detail, nontrivial=True)


SETTINGS = [
    None,
    dict(ALL_ON, via="flags"),
    dict(ALL_ON, via="conf"),
    {"verbose": True, "via": "flags"},
    {"visualize_deps": True, "via": "flags"},
    {"visualize_deps": True, "include_private": True, "via": "conf"},
]


def with_entries(st, *entries):
    d = dict(st or {})
    d["entries"] = list(entries)
    return d


def project_cases(rep, rng):
    """every hostile-input stream is crossed with the optional output-producing settings (verbose,
    visualize_deps, include_private, exclude patterns; by CLI flag and by tauri.conf.json) and with the
    three entry points (CLI, generate_from_config, BuildSystem), each run in its own process"""
    quick = rep.tier == "quick"
    cases = []
    dist = {}

    def add(tag, files, mode=None, lib=False, settings=None):
        cases.append((tag, files, mode or rng.choice(["none", "zod"]), lib, settings))
        dist[tag] = dist.get(tag, 0) + 1
        if not settings:
            key = "settings:none"
        else:
            on = "+".join(k for k in ("verbose", "visualize_deps", "include_private", "field_case", "param_case") if settings.get(k))
            key = "settings:%s:%s:%s" % (settings.get("via", "-"), on, "+".join(settings.get("entries", ["cli"])))
        dist[key] = dist.get(key, 0) + 1
    # generated exotic items
    for i in range(1500 if quick else 12000):
        g = G.RustGen(rng, risky=(i % 10 == 0))
        files = {"lib.rs": g.file()}
        if rng.random() < 0.3:
            files["sub/mod%d.rs" % i] = g.file(3)
        st = SETTINGS[i % len(SETTINGS)]
        if st and i % 16 == 1:
            st = with_entries(st, "cli", "lib", "build")
        add("exotic-risky" if g.risky else "exotic", files, lib=(i % 4 == 0), settings=st)
    for j, t in enumerate(G.NOT_RUST):
        add("not-rust", {"lib.rs": t}, settings=SETTINGS[j % len(SETTINGS)])
        add("not-rust+base", dict(BASE_PROJECT, **{"junk.rs": t}), settings=SETTINGS[(j + 1) % len(SETTINGS)])
    for d in ((8, 40) if quick else (8, 40, 120)):
        for t in G.deep_nesting(d):
            add("deep-%d" % d, {"lib.rs": t})
            add("deep-%d" % d, {"lib.rs": t}, settings=with_entries(dict(ALL_ON, via="flags"), "cli", "lib", "build"))
    # recursive / mutually recursive type graphs: the generation half (dependency ordering, dependency-graph
    # drawing) in both modes; an abort or stack overflow there kills the process, so the oracle is exit status /
    # signal / time limit. Each graph: plain in both modes, and with every setting on (flags / conf alternating)
    for i, (tag, src) in enumerate(G.type_graph_cases(rep.tier, rng)):
        for mode in ("zod", "none"):
            add(tag, {"lib.rs": src}, mode, lib=(i % 8 == 0))
        st = dict(ALL_ON, via=("flags", "conf")[i % 2])
        if i % 8 == 3:
            st = with_entries(st, "cli", "lib", "build")
        add(tag, {"lib.rs": src}, ("zod", "none")[(i // 2) % 2], settings=st)
    # a multi-byte character at every byte offset 0..80 of type texts, names, literals and paths, all settings on,
    # through the CLI and the library entry (verbose), every 8th also through BuildSystem
    for k, ch, src_files in G.offset_sources(80 if quick else 130):
        ents = ["cli", "lib"] + (["build"] if k % 8 == 0 else [])
        add("offset-sweep", src_files, ("zod", "none")[k % 2], settings=with_entries(dict(ALL_ON, via=("flags", "conf")[(k // 2) % 2]), *ents))
    # naming-related configuration values (every convention name + unknown values) x hostile identifiers,
    # by tauri.conf.json (CLI, BuildSystem) and by the library configuration
    nc = 0
    for idents in G.HOSTILE_IDENTS:
        src = {"lib.rs": G.naming_config_source(idents)}
        for fc in G.CASE_VALUES:
            pc = G.CASE_VALUES[(nc * 5 + 3) % len(G.CASE_VALUES)]
            st = {"via": "conf", "field_case": fc, "param_case": pc, "visualize_deps": nc % 2 == 0,
                  "entries": ["cli", "lib"] + (["build"] if nc % 4 == 0 else [])}
            add("naming-config", src, ("none", "zod")[nc % 2], settings=st)
            nc += 1
    # the hostile streams above get a naming configuration too (offset sweep k = 0 starts identifiers with the character)
    for k, ch, src_files in G.offset_sources(3):
        for fc in ("camelCase", "PascalCase", "bogus", "SCREAMING-KEBAB-CASE"):
            add("naming-config-offset", src_files, ("zod", "none")[k % 2],
                settings={"via": "conf", "field_case": fc, "param_case": fc, "entries": ["cli", "lib"]})
    # DEGENERATE trees (nothing to count: zero candidate files, zero parsed files, zero commands / types / events)
    # x every optional setting x every entry point (CLI, analysis with its verbose switch, library, BuildSystem)
    cmd1 = "#[tauri::command]\npub fn only(x: u8) -> u8 { x }\n"
    degenerate = {
        "empty-tree": {}, "only-non-rs": {"README.md": "# x\n", "data.json": "{}", "main.rs.bak": cmd1},
        "only-target-and-git": {"target/debug/gen.rs": cmd1, ".git/hooks/pre.rs": cmd1, "a/target/x.rs": cmd1},
        "empty-dirs": {"a/b/.keep": "", "c/.keep": ""}, "dir-named-rs": {"mod.rs/.keep": "", "x.rs/y.txt": "t"},
        "single-empty-rs": {"lib.rs": ""}, "whitespace-rs": {"lib.rs": "\n\n  \n"}, "comment-only": {"lib.rs": "// nothing\n/* here */\n"},
        "only-unparsable": {"bad.rs": "fn (", "worse.rs": "\"open"}, "only-non-utf8": {"x.rs": {"hex": "fffe"}, "y.rs": {"hex": "c3"}},
        "zero-commands": {"lib.rs": "pub fn plain() {}\n#[derive(serde::Serialize)]\npub struct S { pub a: u8 }\n"},
        "events-only": {"lib.rs": "pub fn f(app: tauri::AppHandle) { app.emit(\"e\", 1).ok(); }\n"},
        "command-without-types": {"lib.rs": "#[tauri::command]\npub fn c() {}\n"},
        "hidden-rs": {".rs": cmd1, ".hidden.rs": ""}, "one-candidate-under-dotdir": {".cache/x.rs": cmd1},
    }
    dg = 0
    for tag, files_ in degenerate.items():
        for st0 in SETTINGS + [dict(ALL_ON, via="conf", field_case="camelCase", no_force=True)]:
            st = with_entries(st0 or {"via": "flags"}, "cli", "analyze", "lib", "build")
            add("degenerate-" + tag, files_, ("none", "zod")[dg % 2], settings=st)
            dg += 1
    # SPELLINGS of the project / output path x top-level file and directory names starting with a non-ASCII
    # character, on the cache-using entry points (CLI with and without --force, twice; BuildSystem)
    spell = ["{abs}", "{abs}/", "{abs}//", "{rel}", "{rel}/", "./{rel}", "./{rel}/", "{rel}//", "{up}", "{up}/", ".//{rel}/./", "{abs}/."]
    cmd_src = "#[tauri::command]\npub fn %s(x: u8) -> u8 { x }\n"
    name_sets = [{"\u00e9t\u00e9.rs": cmd_src % "ete"}, {"donn\u00e9es/x.rs": cmd_src % "don", "lib.rs": cmd_src % "main_cmd"},
                 {"\u00e9/\u4e2d.rs": cmd_src % "deep", "\U0001D4B3.rs": cmd_src % "four", "z.rs": cmd_src % "zed"},
                 {"\u00e9.rs": BASE_PROJECT["lib.rs"]}]
    ns = 0
    for i, s_src in enumerate(spell):
        for j, files_ in enumerate(name_sets):
            s_out = spell[(i + j * 5) % len(spell)]
            for no_force in (False, True):
                via = ("flags", "conf")[(i + j + no_force) % 2]
                ents = ["cli"] + (["build"] if (via == "conf" and not s_src.startswith("{up}")) else [])
                add("path-spelling", files_, ("none", "zod")[ns % 2],
                    settings={"via": via, "spelling": [s_src, s_out], "no_force": no_force, "entries": ents})
                ns += 1
    # literals with escape-looking text after an escaped backslash beside real escapes: validator message, rename
    # value, event name; both modes; CLI and library
    for i, body in enumerate(G.ESCAPE_BODIES):
        add("escape-literals", {"lib.rs": G.escape_project(body, i)}, ("zod", "none")[i % 2], settings={"via": "flags", "verbose": i % 3 == 0, "entries": ["cli", "lib"]})
        add("escape-literals", {"lib.rs": G.escape_project(body, i)}, ("none", "zod")[i % 2])
    # project SIZE: 19..100 types / commands / events with dependency edges in both alphabetical directions,
    # 70-field structs and 70-variant enums, one file or many; both modes, plain and with every setting on
    sizes = (19, 20, 21, 22, 24, 33, 40, 64, 65, 100) if quick else (8, 16, 19, 20, 21, 22, 23, 24, 32, 33, 40, 63, 64, 65, 100, 128, 257)
    for n in sizes:
        for rep_i in range(3 if quick else 6):
            for shape in ("dag", "cyclic", "chain"):
                files = G.big_project(rng, n, shape, files=(1 if rep_i % 2 == 0 else min(n, 70)))
                mode = ("none", "zod")[(rep_i + len(shape)) % 2]
                add("big-%d" % n, files, mode, lib=(rep_i == 0))
                add("big-%d" % n, files, ("zod", "none")[(rep_i + len(shape)) % 2],
                    settings=with_entries(dict(ALL_ON, via=("flags", "conf")[rep_i % 2], field_case="camelCase"), *(["cli", "lib", "build"] if rep_i == 1 else ["cli"])))
    corpus, nreg = G.corpus_files(vlib.REPO, rep.tier)
    rep.extra["corpus_files"] = len(corpus)
    rep.extra["registry_rs_files_total"] = nreg
    for n, (p, text) in enumerate(corpus):
        add("corpus", {"lib.rs": text}, lib=False)
        add("corpus-commandified", {"lib.rs": G.commandify(text)}, settings=with_entries(dict(ALL_ON, via=("flags", "conf")[n % 2]), "cli", "lib"))
        for _ in range(3 if quick else 4):
            add("corpus-mutated", {"lib.rs": G.mutate(G.commandify(text) if rng.random() < 0.7 else text, rng)},
                settings=SETTINGS[rng.randrange(len(SETTINGS))])
    rep.extra["project_distribution"] = dist
    return cases


# HASH-VALUE dependent behaviour: project states whose cache hash TEXT is extreme. The hashes are written with
# format!("{:x}", u64), so a hash with k leading zero nibbles has 16 - k digits; random projects never have more than
# two or three. The driver searches a counter through the public GenerationCache API (about a million states per
# second); corpus/C15/hash/extremes.json keeps names found earlier, every one is recomputed on the tree under test
# (a hashing change moves them) and the search runs again when too few are left.
HASH_SHAPES = [("command", "none"), ("command", "zod"), ("struct", "none"), ("event", "zod")]
HASH_MAXLEN = 11          # at least five leading zero nibbles (probability 2^-20 per project state)


def hash_table():
    import json
    try:
        return json.load(open(os.path.join(vlib.VERIF, "corpus", "C15", "hash", "extremes.json")))["tables"]
    except (OSError, ValueError, KeyError):
        return {}


def hash_extremes(rep, want=2, max_tries=None):
    """[(kind, validation, name, hashes)] with some hash text of at most HASH_MAXLEN digits (verified on this tree, or
    found now), plus one name per combined-hash length 12..15"""
    quick = rep is None or rep.tier == "quick"
    max_tries = max_tries or (8_000_000 if quick else 40_000_000)
    table = hash_table()
    res, info = [], {}
    with vlib.Sandbox("c15h") as sb:
        cases, lens = [], []
        for i, (kind, val) in enumerate(HASH_SHAPES):
            t = table.get("%s/%s" % (kind, val), {})
            cases.append({"id": i, "dir": sb.path("h%d" % i), "kind": kind, "validation": val, "table": t.get("short", []),
                          "maxlen": HASH_MAXLEN, "want": want, "max_tries": max_tries, "threads": 2})
            lens.append({"id": i, "dir": sb.path("l%d" % i), "kind": kind, "validation": val, "table": t.get("by_length", []),
                         "maxlen": 15, "want": 0, "max_tries": 0, "threads": 1})
        obs = vlib.run_harness("c15-hashsearch", cases, per_case_timeout=400)
        obs_l = vlib.run_harness("c15-hashsearch", lens, per_case_timeout=60)
    for (kind, val), o, ol in zip(HASH_SHAPES, obs, obs_l):
        key = "%s/%s" % (kind, val)
        if "verified" not in o:
            raise vlib.BuildError("hash-extreme search failed for %s: %r" % (key, o))
        got = o["verified"] + o["found"]
        by_len = dict((len(e["combined"]), e) for e in ol.get("verified", []))
        for n, name in o.get("by_length", {}).items():       # only filled when a search ran
            by_len.setdefault(int(n), {"name": name, "combined": None})
        info[key] = {"from_table": len(o["verified"]), "stale_table_entries": len(o["stale"]), "searched_states": o["tries"],
                     "found_by_search": len(o["found"]), "unconfirmed": len(o.get("unconfirmed", [])),
                     "combined_lengths": sorted(len(e["combined"]) for e in got), "other_lengths": sorted(by_len)}
        for e in got:
            res.append((kind, val, e["name"], e))
        for n, e in sorted(by_len.items()):
            if n > HASH_MAXLEN:
                res.append((kind, val, e["name"], e))
    if rep is not None:
        rep.extra["hash_extremes"] = info
    return res


def refresh_hash_table(want=4, max_tries=40_000_000):
    """maintenance (not part of the check): search again on the current tree and rewrite corpus/C15/hash/extremes.json"""
    import json
    path = os.path.join(vlib.VERIF, "corpus", "C15", "hash", "extremes.json")
    doc = json.load(open(path)) if os.path.exists(path) else {"tables": {}}
    tables = {}
    for kind, val, name, e in hash_extremes(None, want=want, max_tries=max_tries):
        t = tables.setdefault("%s/%s" % (kind, val), {"short": [], "by_length": []})
        digits = [len(v) for k, v in e.items() if k != "name" and v]
        t["short" if digits and min(digits) <= HASH_MAXLEN else "by_length"].append(name)
    doc["tables"] = tables
    json.dump(doc, open(path, "w"), indent=1)


def hash_extreme_cases(rep):
    """every extreme state through the cache-READING entry points: CLI twice without --force (by flags, by
    tauri.conf.json, verbose), the build script twice; exit status / no panic as usual, and the hash in the cache
    file the CLI wrote must be the one the driver computed"""
    cases = []
    for n, (kind, val, name, e) in enumerate(hash_extremes(rep)):
        files = {"lib.rs": G.hash_source(kind, name)}
        exp = e.get("combined")
        tag = "hash-extreme-%s" % kind
        cases.append((tag, files, val, False, {"via": "flags", "no_force": True, "verbose": n % 2 == 1, "entries": ["cli"], "expect_hash": exp}))
        cases.append((tag, files, val, False, {"via": "conf", "no_force": True, "verbose": n % 2 == 0, "entries": ["cli", "build"], "expect_hash": exp}))
        if n % 3 == 0:
            cases.append((tag, files, val, True, {"via": "flags", "entries": ["cli", "lib"], "expect_hash": exp}))
    return cases


def isolation_cases(rep, rng):
    quick = rep.tier == "quick"
    cases = []
    # only texts that syn (the version /repo links) rejects
    inv = vlib.run_harness("c15-inventory", [{"id": i, "src": t} for i, t in enumerate(G.NOT_RUST)], per_case_timeout=30)
    bads = [t for t, o in zip(G.NOT_RUST, inv) if o.get("parses") is False]
    rep.extra["unparsable_texts"] = len(bads)
    # files that are not UTF-8 at all (outside the property's quantifier; skipped with a report since the C03-2 repair)
    bads += [{"hex": "fffe00"}, {"hex": "666e206128297b7d0ac328"}, {"hex": "c3"}, {"hex": "2f2f20e9e8e0"}]
    bases = [BASE_PROJECT]
    for i in range(12 if quick else 60):
        g = G.RustGen(rng)
        bases.append({"lib.rs": g.file(6)})
    n = 0
    for base in bases:
        for bad in rng.sample(bads, min(len(bads), 12 if quick else len(bads))):
            n += 1
            names = {"zz_bad%d.rs" % n: bad}
            if rng.random() < 0.3:
                names["a/early%d.rs" % n] = rng.choice(bads)
            cases.append(("isolation", base, names, rng.choice(["none", "zod"])))
    return cases


def isolation_filter(outs):
    """isolation speaks about unparsable files only: drop cases whose 'bad' file parses after all, and
    cases whose base already fails for a recorded reason (reported by the project stream)"""
    return outs


# ------------------------------------------------------------------ corpus (replayed first, deterministic)

CORPUS_ATTR = {
    "validator": [r'length(min = 1, message = "\\u{XXXX}")', r'length(min = 1, message = "\\u{110000}")', r'range(max = 1, message = "a\\u{D800}b\u{e9}")',
                  'length(min = 1, message = "é")', 'range(max = 2, message = "ééé")', 'length(min = 1, message = "éa")',
                  'length(min = 1, message = "été")', 'length(message = "\U0001F600", min = 3)', "length(message = '　x', max = 7)",
                  'length(min = 1, max = 10, message = "bad (len) email")', 'range(min = -5, max = 1e3)', 'length(min = 1, message = "a\\"é")'],
    "serde": ['x = "rename　　_all"', 'x = "rename 　_all", rename = "v"', 'x = "rename　_all"', 'x = "rename  _all"',
              'rename = "a\\"b", skip_serializing_if = "x"', 'rename_all = "camelCase"', 'rename _all = "UPPERCASE"', 'x = "rename  _all"'],
}
CORPUS_NAMING = [("camelCase", "__"), ("camelCase", "été"), ("camelCase", ""), ("camelCase", "_　"), ("camelCase", "user_id"),
                 ("PascalCase", "__"), ("event", "é-x"), ("kebab-case", "é_é"), ("camelCase", "aé"), ("event", "user:created/now"),
                 ("variant:camelCase", "État"), ("variant:camelCase", "InProgress"), ("variant:SCREAMING_SNAKE_CASE", "InProgress"),
                 ("variant:snake_case", "HTTPError"), ("variant:kebab-case", "État"), ("variant:camelCase", "Aé")]
CORPUS_PROJECT = [
    ("kf-camel-underscores", {"lib.rs": "#[tauri::command]\nfn c(__: String) {}\n"}, "none"),
    ("kf-camel-nonascii", {"lib.rs": "#[tauri::command]\nfn c(été: String) {}\n"}, "zod"),
    ("kf-msg", {"lib.rs": "use serde::Serialize;\n#[derive(Serialize)] pub struct S { #[validate(length(min = 1, message = \"é\"))] pub a: String }\n#[tauri::command]\nfn c() -> S { todo!() }\n"}, "zod"),
    ("kf-rename", {"lib.rs": "use serde::Serialize;\n#[derive(Serialize)] pub struct S { #[serde(x = \"rename　　_all\")] pub a: String }\n#[tauri::command]\nfn c() -> S { todo!() }\n"}, "none"),
    ("kf-variant", {"lib.rs": "use serde::Serialize;\n#[derive(Serialize)]\n#[serde(rename_all = \"camelCase\")]\npub enum E { État, Ok }\n#[tauri::command]\nfn c() -> E { todo!() }\n"}, "none"),
    ("variant-ascii", {"lib.rs": "use serde::Serialize;\n#[derive(Serialize)]\n#[serde(rename_all = \"camelCase\")]\npub enum E { InProgress, #[serde(skip)] Hidden, État2 }\n#[tauri::command]\nfn c() -> E { todo!() }\n"}, "zod"),
    ("base", BASE_PROJECT, "none"),
    ("base", BASE_PROJECT, "zod"),
    ("regress-recursive-type", {"lib.rs": G.type_graph_source(["TreeNode", "Meta"], [(0, 1), (0, 0)], [0])}, "zod"),
    ("regress-recursive-type", {"lib.rs": G.type_graph_source(["TreeNode", "Meta"], [(0, 1), (0, 0)], [0])}, "none"),
    ("regress-mutual-recursion", {"lib.rs": G.type_graph_source(["Alpha", "Meta", "Zeta"], [(0, 1), (1, 2), (2, 0), (0, 2), (2, 1)], [0, 2])}, "zod"),
]
# settings crossed with hostile inputs (seeded C15-5 / C15-6 classes): (tag, files, mode, settings)
CORPUS_SETTINGS = [
    ("regress-visualize-mutual", {"lib.rs": G.type_graph_source(["Folder", "Document"], [(0, 1), (1, 0)], [0])}, "none",
     dict(ALL_ON, via="flags", entries=["cli", "build"])),
    ("regress-visualize-mutual", {"lib.rs": G.type_graph_source(["Alpha", "Meta", "Zeta"], [(0, 1), (1, 2), (2, 0), (2, 2)], [0])}, "zod",
     dict(ALL_ON, via="conf", entries=["cli", "lib", "build"])),
    ("regress-field-case-camel", {"lib.rs": G.naming_config_source(["\u00e9cole", "__"])}, "none",
     {"via": "conf", "field_case": "camelCase", "param_case": "bogus", "entries": ["cli", "lib", "build"]}),
    ("regress-field-case-unknown", {"lib.rs": G.naming_config_source(["\u00e9cole", "__"])}, "zod",
     {"via": "conf", "field_case": "nope", "param_case": "PascalCase", "entries": ["cli", "lib"]}),
    ("regress-trailing-slash-nonascii-file", {"\u00e9t\u00e9.rs": "#[tauri::command]\npub fn ete(x: u8) -> u8 { x }\n"}, "none",
     {"via": "flags", "spelling": ["{rel}/", "{rel}"], "entries": ["cli"]}),
    ("regress-trailing-slash-nonascii-dir", {"donn\u00e9es/x.rs": "#[tauri::command]\npub fn don(x: u8) -> u8 { x }\n"}, "zod",
     {"via": "conf", "spelling": ["./{rel}/", "{rel}/"], "no_force": True, "entries": ["cli", "build"]}),
    ("regress-escaped-backslash-u", {"lib.rs": G.escape_project(G.ESCAPE_BODIES[1], 1)}, "zod", {"via": "flags", "entries": ["cli", "lib"]}),
    ("regress-escaped-backslash-u", {"lib.rs": G.escape_project(G.ESCAPE_BODIES[0], 0)}, "none", {"via": "flags", "entries": ["cli", "lib"]}),
    ("regress-empty-tree-verbose", {}, "none", dict(ALL_ON, via="flags", entries=["cli", "analyze", "lib", "build"])),
    ("regress-only-target-verbose", {"target/debug/gen.rs": "#[tauri::command]\npub fn only(x: u8) -> u8 { x }\n", "notes.txt": "x"}, "zod",
     dict(ALL_ON, via="conf", entries=["cli", "analyze", "lib", "build"])),
    ("regress-verbose-offset-44", G.offset_sources(80)[44 * 3][2], "none", dict(ALL_ON, via="flags", entries=["cli", "lib"])),
    ("regress-verbose-offset-43", G.offset_sources(80)[43 * 3 + 1][2], "zod", dict(ALL_ON, via="conf", entries=["cli", "lib", "build"])),
]


def run_corpus(rep):
    for kind, pls in CORPUS_ATTR.items():
        outs, _ = eval_attr(kind, pls)
        rep.add("corpus-" + kind, outs)
    rep.add("corpus-naming", eval_naming(CORPUS_NAMING))
    rep.add("corpus-type", eval_type(["Result<(HashMap<String, User>, Inner), String>", "Option<", "Option<>", "(", "()", "(,)", "&&&T", "HashMap<A>",
                                      "BTreeMap<é,　>", "Vec<é>", ">", "Result<>", "(é)", "Option<　A　>"]))
    rep.add("corpus-project", vlib.pmap(run_project, [(t, f, m, True) for t, f, m in CORPUS_PROJECT]
                                        + [(t, f, m, True, st) for t, f, m, st in CORPUS_SETTINGS]))
    # corpus/C15/*.json: minimised past disagreements, if any
    cdir = os.path.join(vlib.VERIF, "corpus", "C15")
    if os.path.isdir(cdir):
        import json
        for n in sorted(os.listdir(cdir)):
            if n.endswith(".json"):
                replay_items(rep, json.load(open(os.path.join(cdir, n))))


def replay_items(rep, payload):
    items = payload.get("disagreeing_cases") or [payload]
    for it in items:
        c = it["case"]
        stream = it.get("stream", "replay")
        if c.get("fn") in ("validator", "serde"):
            outs, _ = eval_attr(c["fn"], [c["payload"]])
        elif c.get("fn") == "type":
            outs = eval_type([c["s"]])
        elif c.get("fn") == "prefix":
            outs = eval_prefix([c["s"]])
        elif c.get("fn") == "tskey":
            outs = eval_tskey([c["s"]])
        elif c.get("fn") == "walker":
            outs = eval_walker([dict(c)])
        elif c.get("fn") == "naming":
            outs = eval_naming([(c["rule"], c["name"])])
        elif c.get("kind") == "isolation":
            outs = [run_isolation(("isolation", c["base"], c["bad"], c["mode"]))]
        else:
            outs = [run_project((c.get("kind", "replay"), c["files"], c.get("mode", "none"), True, c.get("settings")))]
        rep.add(stream, outs)


def build_all():
    vlib.build_harness("c15")
    vlib.build_runner("c15")
    vlib.build_repo_bin()


def add_chunked(rep, stream, fn, items, size=50000, sample_count=2):
    """evaluate in chunks so that the thorough tier does not hold millions of outcomes in memory"""
    st = {"inputs": len(items), "evaluated": 0, "impl_failures": 0, "in_known_class": 0, "skipped_by_syn": 0}
    for i in range(0, len(items), size):
        r = fn(items[i:i + size])
        outs, sk = r if isinstance(r, tuple) else (r, 0)
        st["evaluated"] += len(outs)
        st["skipped_by_syn"] += sk
        st["impl_failures"] += sum(1 for o in outs if not o.ok)
        st["in_known_class"] += sum(1 for o in outs if o.kf)
        if stream == "project":
            st["exit_0"] = st.get("exit_0", 0) + sum(1 for o in outs if o.detail.get("exit") == 0)
            st["exit_1"] = st.get("exit_1", 0) + sum(1 for o in outs if o.detail.get("exit") == 1)
            st["library_entry_runs"] = st.get("library_entry_runs", 0) + sum(1 for o in outs if "lib" in o.detail)
        rep.add(stream, outs, sample_count=sample_count)
    return st


def run(rep):
    build_all()
    rng = random.Random(rep.seed)
    run_corpus(rep)
    dist = {}
    dist["validator"] = add_chunked(rep, "validator", lambda x: eval_attr("validator", x), list(dict.fromkeys(G.validator_payloads(rep.tier, rng))))
    dist["serde"] = add_chunked(rep, "serde", lambda x: eval_attr("serde", x), list(dict.fromkeys(G.serde_payloads(rep.tier, rng))))
    dist["type"] = add_chunked(rep, "type", eval_type, list(dict.fromkeys(G.type_strings(rep.tier, rng))))
    dist["prefix"] = add_chunked(rep, "prefix", eval_prefix, list(dict.fromkeys(G.prefix_strings(rep.tier, rng))))
    dist["naming"] = add_chunked(rep, "naming", eval_naming, list(dict.fromkeys(G.naming_cases(rep.tier, rng))))
    dist["walker"] = add_chunked(rep, "walker", eval_walker, walker_cases())
    dist["tskey"] = add_chunked(rep, "tskey", eval_tskey, list(dict.fromkeys(G.key_strings(rep.tier, rng))))
    ics = isolation_cases(rep, rng)
    pcs = hash_extreme_cases(rep) + project_cases(rep, rng)
    rep.extra.setdefault("project_distribution_extra", {})["hash-extreme"] = sum(1 for c in pcs if c[0].startswith("hash-extreme"))
    # the bases of the isolation cases are judged as ordinary project cases
    seen = set()
    for _, base, _, mode in ics:
        key = (tuple(sorted(base.items())), mode)
        if key not in seen:
            seen.add(key)
            pcs.append(("isolation-base", base, mode, False, None))
    dist["project"] = add_chunked(rep, "project", lambda x: vlib.pmap(run_project, x), pcs, size=2000, sample_count=1)
    dist["isolation"] = add_chunked(rep, "isolation", lambda x: vlib.pmap(run_isolation, x), ics, size=2000, sample_count=1)
    rep.extra["input_distribution"] = dist


def replay(rep, payload):
    build_all()
    replay_items(rep, payload)
