"""C06: line reader for the declaration of T0 in a generated types.ts, used when a key makes the
file leave the TypeScript grammar (e.g. the bare key user-id). It relies on the shape the templates
print (one member per line, `key: type` with a type that contains no `: `) and on the generator using
only such field types; names containing a line break are not supported (never generated)."""


def unescape(s):
    """value of the double-quoted literal body the generators print (escape_js / ts_key)"""
    out, i = [], 0
    while i < len(s):
        c = s[i]
        if c == "\\" and i + 1 < len(s):
            e = s[i + 1]
            out.append({"n": "\n", "r": "\r", "t": "\t"}.get(e, e))
            i += 2
        else:
            out.append(c)
            i += 1
    return "".join(out)


def _before_last(s, sep):
    i = s.rfind(sep)
    return None if i < 0 else s[:i]


def read(kind, mode, text):
    lines = text.split("\n")
    try:
        if kind == "struct":
            if mode == "plain":
                start, end, tail = "export interface T0 {", "}", ";"
            else:
                start, end, tail = "export const T0Schema = z.object({", "});", ","
            i = next(k for k, l in enumerate(lines) if l.strip() == start)
            keys = []
            for l in lines[i + 1:]:
                if l.strip() == end:
                    return keys
                body = l.strip()
                if body.endswith(tail):
                    body = body[:-1]
                k = _before_last(body, ": ")
                if k is None:
                    return None
                if mode == "plain" and k.endswith("?"):                    # optional marker (a name ending in ? is quoted)
                    k = k[:-1]
                if len(k) >= 2 and k[0] == k[-1] and k[0] in "\"'":      # a quoted property name
                    k = unescape(k[1:-1])
                keys.append(k)
            return None
        if mode == "plain":
            pre, post, sep = 'export type T0 = "', '";', '" | "'
        else:
            pre, post, sep = 'export const T0Schema = z.enum(["', '"]);', '", "'
        old_empty = "export type T0 = ;" if mode == "plain" else "export const T0Schema = z.enum([]);"
        never = "export type T0 = never;" if mode == "plain" else "export const T0Schema = z.never();"
        for l in lines:
            if l.rstrip() == never:          # every variant skipped: no literal
                return []
            if l.rstrip() == old_empty:      # the old, invalid spelling: a distinct observation, so it is reported
                return ["<empty literal list>"]
            if l.startswith(pre) and l.rstrip().endswith(post):
                body = l.rstrip()[len(pre):-len(post)]
                return [unescape(x) for x in body.split(sep)]
        return None
    except StopIteration:
        return None
