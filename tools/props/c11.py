"""C11 - validator attributes become exactly the declared Zod constraints.
Implementation side: harness c11-fields (syn -> StructParser::parse_struct / ValidatorParser -> ZodSchemaBuilder::build_schema),
plus the real CLI in Zod mode on a sample (types.ts field chains). Model side: coq/Model/C11Validator.v (extracted).
Oracle: coq/Spec/C11Spec.v c11_field_ok applied to the chain the implementation emitted."""
import json
import os
import random
import re

from tools import vlib
from tools.vlib import Outcome
from tools.props import c11_gen as G

MANIFEST = {
    "level_text": "Coq theorems (Properties/C11.v, no axioms) about a function-by-function Gallina transcription of validator_parser.rs (substring scanners over tokens.to_string(), the character-index/byte-index message slice with its panic, the five-step replace chain) and of schema_builder.rs (render_type, apply_*, escape_js_string): escape_js_string followed by JavaScript string-literal reading is the identity for every byte string; every parsed ValidatorAttributes value is rendered to a chain that reads back as exactly those constraints; on every list of attributes built from email/url flags and other validators (custom(..), must_match(..), required, nested, .. - inert exactly when their printed text contains none of email/url/length/range) around one length/range validator (any argument order, message bodies with escapes) the attribute loop returns exactly the fold of the declared components (C11_loop_exact_partial, C11_other_validators_condition_exact, C11_later_attrs_only_add), the replace chain is exact on literals with the five supported escapes (C11_unescape_exact_partial, threaded into the loop theorem by C11_loop_escaped_messages), a Vec field's chain reads back as z.array(<bare element>) + length methods for every readable element type (C11_exact_render_arrays), the text printed for a u64 bound denotes the declared decimal (C11_u64_bound_exact), and the conclusion of the full statement itself - no panic and the oracle accepts the chain - is proved on the loop grammar for String and Vec<T> fields with one length validator among arbitrary flag / other-validator attributes, on numeric fields with one range validator among other-validator attributes (for every f64 printer that is exact on the declared bounds), on String fields with flags and other validators only (C11_full_loop_string_partial, C11_full_loop_vec_partial, C11_full_loop_num_partial, C11_full_flags_string_partial, C11_full_canon_length_partial, C11_full_canon_length_vec_partial, C11_full_canon_range_partial); fields without #[validate] get the bare schema; a field's chain depends on its own attributes only; the boolean oracle is proved equivalent to its Prop statement; one refutation lemma with a computed witness per remaining known-finding class (eight), and positive statements on the witnesses of the two repaired ones (C11-5 multi-byte messages, C11-7 Option below Vec). The model is tied to /repo on every run by differential execution on generated structs (token strings, ValidatorAttributes, chains), and the extracted oracle (declared meta tree vs constraints read back from the emitted chain, exact decimal comparison, JS string decoding) is applied to the implementation's output.",
    "design_ref": "DESIGN.md section 5 C11",
    "level_note": "Partial. Proved for all inputs: C11_escape_roundtrip (every byte string); C11_exact_render_partial (every ValidatorAttributes value with number-text bounds, any number of Option wrappers, string / number / array-of-string fields: the chain reads back as exactly its constraints); C11_array_elements_bare (EVERY element type: a Vec field's chain is z.array(<bare element schema>) + length methods) with C11_exact_render_arrays (round 7: read back for EVERY readable element type - string/number/boolean/void primitives, Option, Vec, identifier-named custom types, arbitrarily nested - by induction over read_schema with symbolic fuel, Proofs/C11Arr.v; only the z.unknown() /* comment */ form of an unknown primitive and non-identifier custom names are outside) and C11_array_element_no_constraint (the element schema never carries a constraint); C11_none; C11_not_misattached; C11_oracle_exact (boolean oracle <-> Prop C11_holds). Scanning half (dispf = f64 parse+print stays a Section variable throughout): C11_exact_scan_partial - one length(..)/range(..) validator with any subset of min, max, message in ANY of the six orders, bounds any number texts, message (round 7) ANY double-quoted source body on which the closing-quote scan ends at the literal's own quote (closes: every double quote escaped, not ending inside an escape; escapes and multi-byte allowed), without closing parenthesis / validator keyword: the scanners return exactly the declared bounds and unescape(body) as the message (C11_plain_bodies_instance: the plain bodies of the earlier rounds are an instance with unescape body = body; C11_loop_escaped_messages: a lit_ok literal is admissible, unescape gives its value and that is the value rust_body_value assigns to the declared literal); C11_loop_exact_partial - ANY list of attributes in any order, each #[validate(sides.., length|range(..), sides..)] (sides = any number, before and after, of email / url flags and - round 7 - OTHER validators IOther name [(k = lit, ..)]: custom(function = ..), must_match(other = ..), required, nested ..; exact side condition side_ok/inert: the printed item text contains none of email, url, length, range; C11_other_validators_condition_exact + C11_keyword_in_item: if an item does contain one, the flag is set / the slot is occupied, so the condition cannot be weakened), #[validate(sides..)], #[validate()], #[validate] or a non-validate attribute: parse_validator_attributes does not panic and equals the left fold of the per-attribute effects, Some iff a validate attribute is present; C11_later_attrs_only_add - attributes that declare no length (range) leave the length (range) parsed so far untouched and flags stay set (the loop the seeds C11-1 / C11-4 break); C11_unescape_exact_partial + C11_message_escapes_partial - message literals with escapes backslash + double quote / single quote / n / t / backslash (an escaped backslash not directly before a plain n, t, single quote): the five-step replace chain computes exactly the literal's value and parse_message returns it wherever the literal stands; C11_exact_canon_partial composes scanning and rendering for String / numeric / Vec<String> fields. Round 7: C11_u64_bound_exact (every u64 literal, leading zeros included: parse_u64 prints show_N (n_of_digits lit), whose dec_of_text equals dec_of_text lit = dec_of_num of the declaration), C11_show_N_value / C11_show_N_reads (dec_of_text (show_N n) has value n; via DecimalN.Unsigned.to_of, Proofs/C11Dec.v); C11_full_canon_length_partial / C11_full_canon_range_partial - the CONCLUSION of C11_exact_full_statement (exists v chain, field_chain = Ok (v, chain) and c11_field_ok f chain = true) for one canonical length validator with u64 bounds on String / Vec<String> and one canonical range validator on a numeric field (premise okb dispf: dispf prints a number text denoting the declared decimal = complement of class C11-9), any k Options, any argument order, messages with msg_agrees (lit_value body = unescape body: holds on the escape sub-language and on plain bodies); C11_full_canon_length_vec_partial (Vec<T>, every readable T); C11_full_loop_string_partial - the same conclusion on the LOOP GRAMMAR: attribute lists A ++ [#[validate(pr.., length(..), po..)]] ++ B with A, B any lists of attributes without length/range (#[validate(sides..)], #[validate()], #[validate], non-validate), sides = email/url flags and inert other validators, at most one email and one url over all side items (cnt <= 1, the in_domain clause), String field under k Options; C11_full_loop_vec_partial (same lists on Vec<T>, readable T, no email/url among the sides); C11_full_flags_string_partial (String fields without length: flags and other validators only, e.g. #[validate(email)]); Example C11_ex_full_loop_premises computes that such a field satisfies in_domain, lits_consistent and kf_any = false, i.e. the sub-domain lies inside the domain of the full statement. C11_full_loop_num_partial (the same lists around one RANGE validator on a numeric field, no flags, premise okb dispf on the bounds). NOT proved (kept in Definition C11_exact_full_statement, enforced at run time on every generated case outside the eight classes): two length/range validators on one field (a second one of the same kind is outside in_domain; length + range on one field is outside item_ok for every field kind, so nothing in-domain is lost there); Vec fields without length and numeric fields without range (other validators only); fields whose attributes are all non-validate at oracle level (C11_none gives the bare chain); derivation of the theorems' premises from in_domain / lits_consistent / kf_any = false for arbitrary fields (messages in single quotes, raw strings, arguments code = .., equal = .. outside C11-10, arbitrary spacing are outside the canonical grammar); inertness is stated on the printed item text, the equivalent condition on the pieces (name, keys, literals) is not derived; escaped backslash directly before a plain single quote (right value, not proved atom by atom); email(message = ..) forms (class C11-8); f64: dispf stays a Section variable (the OCaml f64 printer is compared with Rust on every case, not proved); unknown-primitive comment schemas in array elements. Eight C11_kf*_refuted witnesses (C11-10 length(equal = n) dropped, added with the argument-order stream), two C11_fixed*_ok, C11_classes_separate. f64 parse/Display is hand-written OCaml in the runner (compared with the harness on every case). Trusted: syn/proc_macro2 printing (token strings compared on every case), python Rust-source printer (literal values cross-checked against syn::LitStr::value), the Zod/ECMAScript reading in Spec/C11Spec.v, ASCII-only trim().",
    "technique": "Rocq/Coq proof over hand-written model + correspondence check (extracted OCaml vs Rust harness and real CLI)"
}

RULE = ("corpus: every known-finding witness and regression case; exhaustive: every subset/order of length{min,max,message} x email x url "
        "on String/Option<String>, range subsets on numbers, length subsets on Vec shapes, one attribute or one per validator; "
        "orders: every argument order (message / code first, bounds after) x messages made of key-like words (equal, code, required, "
        "digits, = and ,) for length and range on String/Vec/Option fields; offsets: a 2-, 3-, 4-byte character at every offset of ASCII messages up to 4 (quick) / 8 (thorough) characters; "
        "clean: random structs of 1-5 fields outside every known class (multi-byte messages and Option-below-Vec types included since their repair); "
        "wild: random structs with trigger-bearing messages, negative/large bounds, raw/rich literals, other validators; cli: the real binary in Zod mode on generated projects. "
        "A struct is non-trivial when at least one field carries #[validate(...)]; distinct = distinct structs")
TRUSTED = [
    "Spec/C11Spec.v: the reading of Zod method chains (.min/.max/.email/.url/.optional, { message: <string literal> }) and of JavaScript string escapes is a model of Zod/ECMAScript, not proved against them",
    "f64: str::parse::<f64> + Display are re-implemented in runner/cmds_c11.ml (grammar check, strtod, shortest round-trip digits, positional printing) and compared with the harness on every case; exactness of short decimals through f64 is assumed (<= 15 significant digits)",
    "tools/props/c11_gen.py prints the declared tree as Rust source; every string literal's value is cross-checked against syn::LitStr::value, every token string against tokens.to_string()",
]
ASSUMPTIONS = ["in-domain fields carry at most one length/range/email/url validator, each applicable to the field's type (validator crate rules)",
               "char::is_whitespace beyond ASCII is not modelled in trim()/trim_start()"]

# the order of Spec/C11Spec.v kf_flags (C11-5 and C11-7 were repaired and have no class any more)
KF_IDS = ["C11-1", "C11-2", "C11-3", "C11-4", "C11-6", "C11-8", "C11-9", "C11-10"]
# when several triggers are present the earliest pipeline stage is named
KF_PRIORITY = [1, 4, 0, 6, 7, 2, 3, 5]


def corpus_cases():
    out = []
    for e in vlib.load_known_findings("C11"):
        out.append(("kf:" + e["id"], e["witness"]))
    d = os.path.join(vlib.VERIF, "corpus", "C11")
    if os.path.isdir(d):
        for n in sorted(os.listdir(d)):
            if n.endswith(".json"):
                out.append((n, json.load(open(os.path.join(d, n)))))
    return out


def canon_va(v):
    """harness JSON -> the runner's shape (length range email url), strings as str"""
    if v is None:
        return None

    def c(x):
        return None if x is None else [[o(x["min"]), o(x["max"]), o(x["message"])]]

    def o(x):
        return [] if x is None else [x]
    return [c(v["length"]) or [], c(v["range"]) or [], "true" if v["email"] else "false", "true" if v["url"] else "false"]


MAX_DROPPED_SHARE = 0.05


def is_skipped(o):
    return isinstance(o.detail, dict) and o.detail.get("skipped") == "out-of-domain"


def add_judged(rep, stream, outs, **kw):
    """rep.add without the out-of-domain cases: they are not judged, their number goes to the evidence
    (rep.extra["out_of_domain_dropped"][stream]); more than 5 % of a stream dropped is a broken generator."""
    outs = list(outs)
    dropped = [o for o in outs if is_skipped(o)]
    kept = [o for o in outs if not is_skipped(o)]
    if dropped:
        d = rep.extra.setdefault("out_of_domain_dropped", {})
        e = d.setdefault(stream, {"dropped": 0, "of": 0, "samples": []})
        e["dropped"] += len(dropped)
        e["samples"] = (e["samples"] + [o.detail.get("fields") for o in dropped])[:3]
    if outs:
        tot = rep.extra.setdefault("out_of_domain_dropped", {}).setdefault(stream, {"dropped": 0, "of": 0, "samples": []})
        tot["of"] += len(outs)
        if len(outs) >= 20 and len(dropped) > MAX_DROPPED_SHARE * len(outs):
            raise vlib.BuildError("stream %s: %d of %d cases are outside the domain (more than 5 %%): %s"
                                  % (stream, len(dropped), len(outs), json.dumps(dropped[0].detail.get("fields"))[:600]))
    rep.add(stream, kept, **kw)


def evaluate(structs, check_whole=True):
    """structs: list of {"fields": [...]}; returns one Outcome per struct"""
    cases = [{"id": i, "src": G.struct_rust(s["fields"])} for i, s in enumerate(structs)]
    obs = vlib.run_harness("c11-fields", cases, per_case_timeout=20)
    sexps = []
    for s, o in zip(structs, obs):
        if "fields" not in o:
            raise vlib.BuildError("c11 harness: %s on\n%s" % (o, G.struct_rust(s["fields"])))
        impls = []
        for fo in o["fields"]:
            a = fo["alone"]
            impls.append(None if "panic" in a else [G.Q(a["chain"])])
        sexps.append(G.sx([[G.field_sx(f) for f in s["fields"]], impls]))
    res = vlib.run_runner("c11-fields", sexps)
    outs = []
    for s, o, r in zip(structs, obs, res):
        if r and r[0] == "runner-error":
            raise vlib.BuildError("runner: %s on %s" % (r, G.struct_rust(s["fields"])))
        corr = ok = True
        kfs = []
        details = []
        whole = o["whole"]
        any_panic = False
        # a struct holding a field outside the domain (Spec in_domain, decided by the extracted model) is not judged:
        # it is dropped by add_judged, which counts it in the evidence and fails only above 5 % of a stream
        ood = [f for f, m in zip(s["fields"], r) if m[2] != "true"]
        if ood:
            outs.append(Outcome({"fields": s["fields"]}, True, True, None, {"skipped": "out-of-domain", "fields": ood}, False))
            continue
        for i, (f, fo, m) in enumerate(zip(s["fields"], o["fields"], r)):
            model, toks, domain, flags, ok_impl, read_impl, read_model, ok_model, expected = m
            # generator / printer validation against syn
            lits = [x["value"] for x in fo["lits"]]
            if lits != G.declared_literals(f):
                raise vlib.BuildError("literal values differ from syn: %r vs %r" % (lits, G.declared_literals(f)))
            mtoks = [t for t in toks if t != []]          # drop non-validate attributes
            mtoks = [None if t == [[]] else t[0][0] for t in mtoks]
            f_corr = mtoks == fo["toks"]
            a = fo["alone"]
            d = {"field": f["name"], "impl": a.get("chain", "PANIC " + a.get("panic", "")), "model": model, "expected": expected}
            if "panic" in a:
                any_panic = True
                f_ok = False                      # the whole generation aborts: every constraint is lost
                f_corr = f_corr and model[0] == "panic" and "panic" in fo["direct"]
            else:
                f_ok = ok_impl == "true"
                if model[0] != "ok":
                    f_corr = False
                else:
                    mva = model[1][0] if model[1] else None
                    f_corr = f_corr and canon_va(a["va"]) == mva and fo["direct"].get("va") == a["va"]
                    if read_impl and read_model:
                        f_corr = f_corr and read_impl == read_model
                    else:
                        f_corr = f_corr and a["chain"] == model[2]
                # the field in the context of the other fields behaves as on its own
                if check_whole and "fields" in whole:
                    w = whole["fields"][i] if i < len(whole["fields"]) else None
                    if w is None or w["name"] != f["name"] or w["chain"] != a["chain"] or w["va"] != a["va"]:
                        f_ok = False
                        d["whole"] = w
            d["ok"] = f_ok
            d["corr"] = f_corr
            corr = corr and f_corr
            if not f_ok:
                ok = False
                cls = [k for k in KF_PRIORITY if flags[k] == "true"]
                kfs.append(KF_IDS[cls[0]] if cls else None)
                d["classes"] = [KF_IDS[k] for k in range(len(KF_IDS)) if flags[k] == "true"]
            if not (f_ok and f_corr) or len(details) < 2:
                details.append(d)
        if check_whole and ("panic" in whole) != any_panic:
            corr = False
            details.append({"whole": whole})
        kf = None
        if kfs and all(k is not None for k in kfs):
            kf = kfs[0]
        nontrivial = any(a["k"] == "validate" for f in s["fields"] for a in f["attrs"])
        outs.append(Outcome({"fields": s["fields"]}, corr, ok, kf, {"src": G.struct_rust(s["fields"]), "fields": details}, nontrivial))
    return outs


# ---------------------------------------------------------------- the real binary (Zod mode)
def cli_project(structs):
    src = ["use serde::{Deserialize, Serialize};\nuse validator::Validate;\n"]
    for k, s in enumerate(structs):
        src.append("#[derive(Serialize, Deserialize, Validate)]\n" + G.struct_rust(s["fields"], "S%d" % k))
        src.append("#[tauri::command]\npub fn cmd%d(arg: S%d) -> Result<S%d, String> { Ok(arg) }\n" % (k, k, k))
    for n in ("Inner", "Address", "Profile"):
        src.append("#[derive(Serialize, Deserialize)]\npub struct %s { pub v: String }\n" % n)
    return "\n".join(src)


def read_types_ts(text):
    """{struct name: {key: chain text}} from `export const XSchema = z.object({ key: chain, ... });` blocks
    (one field per line as the template prints them)."""
    out = {}
    cur = None
    for line in text.split("\n"):
        m = re.match(r"export const (\w+)Schema = z\.object\(\{", line)
        if m:
            cur = out.setdefault(m.group(1), {})
            continue
        if line.startswith("});"):
            cur = None
            continue
        if cur is not None:
            m = re.match(r"\s+([A-Za-z_$][\w$]*): (.*),\s*$", line)
            if m:
                cur[m.group(1)] = m.group(2)
    return out


def evaluate_cli(structs, tag="c11", batch=150):
    """Projects of at most `batch` structs each, in parallel."""
    parts = [structs[i:i + batch] for i in range(0, len(structs), batch)]
    vlib.build_repo_bin()
    return [o for part in vlib.pmap(lambda p: evaluate_cli_one(p, tag), parts, workers=8) for o in part]


def evaluate_cli_one(structs, tag="c11"):
    """Runs the real binary on one project holding all structs; compares, per field, the chain printed in
    types.ts with the chain the harness obtained from build_schema; the oracle is applied to the file's chain."""
    with vlib.Sandbox(tag) as sb:
        sb.write("proj/src-tauri/src/lib.rs", cli_project(structs))
        sb.write("proj/src-tauri/Cargo.toml", "[package]\nname = \"p\"\nversion = \"0.1.0\"\nedition = \"2021\"\n")
        rc, out = sb.cli(["generate", "-p", sb.path("proj/src-tauri/src"), "-o", sb.path("out"), "-v", "zod", "--force"],
                         cwd=sb.path("proj"))
        try:
            text = open(sb.path("out/types.ts"), encoding="utf-8").read()
        except OSError:
            text = None
    if rc == -1:
        raise vlib.BuildError("c11 cli: the binary timed out on a project of %d structs" % len(structs))
    if text is None:
        return [Outcome({"fields": s["fields"]}, False, False, None, {"cli": "no types.ts", "rc": rc, "out": out[-500:]}) for s in structs]
    got = read_types_ts(text)
    return judge_chains(structs, [got.get("S%d" % k, {}) for k in range(len(structs))])


def judge_chains(structs, gots, via="cli"):
    """gots[k] = {field name: chain text found in the generated file} for struct k. The file's chains go through the
    extracted oracle (declared attributes of struct k) and are compared with the model's chains."""
    base = evaluate(structs, check_whole=False)
    sexps = []
    for s, got in zip(structs, gots):
        impls = []
        for f in s["fields"]:
            c = got.get(f["name"])
            impls.append(None if c is None else [G.Q(c)])
        sexps.append(G.sx([[G.field_sx(f) for f in s["fields"]], impls]))
    res = vlib.run_runner("c11-fields", sexps)
    outs = []
    for s, got, b, r in zip(structs, gots, base, res):
        if is_skipped(b):
            outs.append(Outcome({"fields": s["fields"], "via": via}, True, True, None, dict(b.detail), False))
            continue
        ok = True
        corr = b.corr
        kfs = []
        details = []
        for f, m in zip(s["fields"], r):
            c = got.get(f["name"])
            flags = m[3]
            f_ok = c is not None and m[4] == "true"
            # correspondence: file chain reads like the model's chain
            if c is None or m[0][0] != "ok":
                corr = False
            elif m[5] and m[6]:
                corr = corr and m[5] == m[6]
            else:
                corr = corr and c == m[0][2]
            if not f_ok:
                ok = False
                cls = [j for j in KF_PRIORITY if flags[j] == "true"]
                kfs.append(KF_IDS[cls[0]] if cls else None)
            if not f_ok or len(details) < 2:
                details.append({"field": f["name"], "file": c, "model": m[0], "ok": f_ok})
        kf = kfs[0] if kfs and all(x is not None for x in kfs) else None
        outs.append(Outcome({"fields": s["fields"], "via": via}, corr, ok, kf, {"fields": details}, True))
    return outs


# ---------------------------------------------------------------- run histories into one output directory
def run_history(h, tag="c11h"):
    """h = {"steps": [{"structs": [...], "force": bool}, ...]}: the real binary is run once per step into the SAME
    output directory, the source being rewritten between the runs. Returns per step the chains found in types.ts."""
    texts = []
    with vlib.Sandbox(tag) as sb:
        sb.write("proj/src-tauri/Cargo.toml", "[package]\nname = \"p\"\nversion = \"0.1.0\"\nedition = \"2021\"\n")
        for st in h["steps"]:
            sb.write("proj/src-tauri/src/lib.rs", cli_project(st["structs"]))
            args = ["generate", "-p", sb.path("proj/src-tauri/src"), "-o", sb.path("out"), "-v", "zod"] + (["--force"] if st["force"] else [])
            rc, out = sb.cli(args, cwd=sb.path("proj"))
            if rc == -1:
                raise vlib.BuildError("c11 history: the binary timed out")
            try:
                texts.append((rc, open(sb.path("out/types.ts"), encoding="utf-8").read()))
            except OSError:
                texts.append((rc, None))
    return texts


def evaluate_histories(hists):
    """After EVERY run of a history the schema on disk must reflect the attributes declared at that moment."""
    vlib.build_repo_bin()
    results = vlib.pmap(run_history, hists, workers=8)
    structs, gots, index = [], [], []
    for hi, (h, texts) in enumerate(zip(hists, results)):
        for si, (st, (rc, text)) in enumerate(zip(h["steps"], texts)):
            got = read_types_ts(text) if text is not None else {}
            for k, s in enumerate(st["structs"]):
                structs.append(s)
                gots.append(got.get("S%d" % k, {}))
                index.append((hi, si, k))
    judged = judge_chains(structs, gots, via="history")
    outs = []
    for hi, h in enumerate(hists):
        ok = corr = True
        det = []
        skipped = [o for (a, si, k), o in zip(index, judged) if a == hi and is_skipped(o)]
        if skipped:
            outs.append(Outcome({"steps": h["steps"], "edits": h.get("edits"), "via": "history"}, True, True, None,
                                {"skipped": "out-of-domain", "fields": skipped[0].detail.get("fields")}, False))
            continue
        for (a, si, k), o in zip(index, judged):
            if a != hi:
                continue
            ok = ok and o.ok
            corr = corr and o.corr
            if not (o.ok and o.corr):
                det.append({"step": si, "force": h["steps"][si]["force"], "struct": k, "fields": o.detail["fields"],
                            "src": G.struct_rust(h["steps"][si]["structs"][k]["fields"], "S%d" % k)})
        outs.append(Outcome({"steps": h["steps"], "edits": h.get("edits"), "via": "history"}, corr, ok, None,
                            {"failing": det[:4], "edits": h.get("edits")}, True))
    return outs


def no_panic_struct(s):
    """since the char_indices repair no validator input panics; every struct goes to the CLI stream"""
    return True


def run(rep):
    vlib.build_harness("c11")
    vlib.build_runner("c11")
    rng = random.Random(rep.seed)
    quick = rep.tier == "quick"
    cor = corpus_cases()
    add_judged(rep, "corpus", evaluate([c for _, c in cor if "steps" not in c]), sample_count=3)
    add_judged(rep, "corpus-history", evaluate_histories([c for _, c in cor if "steps" in c]))
    ex = G.exhaustive_structs()
    add_judged(rep, "exhaustive", evaluate(ex))
    add_judged(rep, "offsets", evaluate(G.offset_structs(rep.tier)))
    orders = G.order_structs(rep.tier)
    add_judged(rep, "orders", evaluate(orders))
    n_clean, n_wild = (8000, 3000) if quick else (60000, 25000)
    clean = [G.gen_struct(rng, False) for _ in range(n_clean)]
    add_judged(rep, "clean", evaluate(clean))
    wild = [G.gen_struct(rng, True) for _ in range(n_wild)]
    add_judged(rep, "wild", evaluate(wild))
    # the real binary: the exhaustive structs, a sample of clean ones and ASCII-only wild ones
    n_cli = 300 if quick else 2000
    cli = ex + orders[:60] + clean[:n_cli] + [s for s in wild if no_panic_struct(s)][:n_cli]
    add_judged(rep, "cli", evaluate_cli(cli))
    hists = G.history_cases(rng, 40 if quick else 400)
    add_judged(rep, "history", evaluate_histories(hists))
    rep.extra["history_edits"] = {k: sum(1 for h in hists for e in h["edits"] if e == k) for k in sorted({e for h in hists for e in h["edits"]})}
    nf = lambda ss: sum(len(s["fields"]) for s in ss)
    rep.extra["distribution"] = {
        "structs": {"corpus": len(cor), "exhaustive": len(ex), "clean": n_clean, "wild": n_wild, "cli": len(cli)},
        "fields": {"exhaustive": nf(ex), "clean": nf(clean), "wild": nf(wild), "cli": nf(cli)},
        "outside_every_class_share": round((nf(ex) + nf(clean)) / float(nf(ex) + nf(clean) + nf(wild)), 3),
    }


def replay(rep, payload):
    vlib.build_harness("c11")
    vlib.build_runner("c11")
    items = payload.get("disagreeing_cases") or [payload]
    for it in items:
        c = it["case"]
        if c.get("via") == "history":
            add_judged(rep, "history", evaluate_histories([{"steps": c["steps"], "edits": c.get("edits") or []}]))
        elif c.get("via") == "cli":
            add_judged(rep, "cli", evaluate_cli([{"fields": c["fields"]}]))
        else:
            add_judged(rep, it.get("stream", "replay"), evaluate([{"fields": c["fields"]}]))
