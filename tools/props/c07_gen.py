"""Project cases for C07 / C09: type dependency graphs realised as Rust projects (wrapping tools/projgen.py),
their s-expression form for the extracted model (runner/cmds_c07.ml, cmds_c09.ml), and the runs of the
real CLI. A *graph spec* is a plain JSON value (so that it can live in replay files and known_findings):

  {"types":  [{"name": N, "kind": "struct"|"enum"|"unit"|"tuple", "derives": [...], "file": k}],
   "edges":  [[i, j, ctx]],                      # field of type i mentioning type j through CONTEXTS[ctx]
   "cmds":   [{"name": n, "file": k, "roots": [[how, j, ctx]]}],   # how: param | ret | channel | event | err
   "helpers":[{"name": n, "file": k, "roots": [[how, j, ctx]]}],   # non-command fns: event (emits) | param (no root)
   "nfiles": K, "alias": bool}                   # alias: type Result<T> = std::result::Result<T, String>;
"""
import itertools
import json
import os

from tools import vlib, projgen
from tools.projgen import P, Ref, Tup

CONTEXTS = dict(projgen.CONTEXTS)
CONTEXTS.update({
    "result_alias": lambda t: P("Result", t),                       # one-argument alias
    "result_err": lambda t: P("Result", P("String"), t),            # error arm
    "result_both": lambda t: P("Result", t, t),
    "vec_result_alias": lambda t: P("Vec", P("Result", t)),
    "map_key": lambda t: P("HashMap", t, P("i32")),
    "tuple_mid": lambda t: Tup(P("i32"), t, P("bool")),
    "opt_tuple_vec": lambda t: P("Option", Tup(P("Vec", t), P("String"))),
    "map_tuple": lambda t: P("HashMap", P("String"), Tup(t, P("i32"))),
    "result_tuple": lambda t: P("Result", Tup(t, P("i32")), P("String")),
    "ref_ref": lambda t: Ref(Ref(t)),
    "opt_result_err": lambda t: P("Option", P("Result", P("String"), t)),      # error arm below another constructor
    "vec_result_err": lambda t: P("Vec", P("Result", P("i32"), t)),
    "tuple4_last": lambda t: Tup(P("i32"), P("String"), P("bool"), t),
})
# contexts that mention the enclosing type itself next to the target (self-referential field with another type)
SELF_CONTEXTS = {
    "self_vec_tuple": lambda me, t: P("Vec", Tup(me, t)),
    "self_map_tuple": lambda me, t: P("HashMap", P("String"), Tup(t, P("Option", me))),
    "self_opt_tuple": lambda me, t: P("Option", Tup(P("Vec", me), t, P("i32"))),
}


LIT = "%s { ..Default::default() }"
# event payload expressions: (statements before the emit, payload expression, what the model is told)
PAYLOAD_FORMS = {
    "literal": lambda n, v: ([], LIT % n, ["lit", n]),
    "literal_q1": lambda n, v: ([], LIT % ("events::" + n), ["lit", n]),
    "literal_q2": lambda n, v: ([], LIT % ("crate::events::" + n), ["lit", n]),
    "literal_self": lambda n, v: ([], LIT % ("self::" + n), ["lit", n]),
    "literal_super": lambda n, v: ([], "&" + LIT % ("super::model::" + n), ["lit", n]),
    "let_literal": lambda n, v: (["let %s = %s;" % (v, LIT % n)], v, ["lit", n]),
    "let_literal_q": lambda n, v: (["let %s = %s;" % (v, LIT % ("crate::events::" + n))], "&" + v, ["lit", n]),
    "new": lambda n, v: (["let %s = %s::new();" % (v, n)], v, ["new", [], n]),
    # the tool does not read the type off these (class C07-8)
    "new_q": lambda n, v: (["let %s = events::%s::new();" % (v, n)], v, ["new", ["events"], n]),
    "variant_struct": lambda n, v: ([], "%s::Active { code: 1 }" % n, ["variant", n, "Active", True]),
    "variant_path": lambda n, v: ([], "%s::Active" % n, ["variant", n, "Active", False]),
}
# shadowing: the variable is bound twice in the function, the emit sees the later binding
PAYLOAD_FORMS.update({
    "shadow_param": lambda n, v: (["let %s = %s;" % (v, LIT % n)], v, ["lit", n], Ref(P("ShadowedAway"))),
    "shadow_let": lambda n, v: (["let %s = %s;" % (v, LIT % "ShadowedAway"), "let %s = %s;" % (v, LIT % n)], "&" + v, ["lit", n]),
    "shadow_typed": lambda n, v: (["let %s: ShadowedAway = Default::default();" % v, "let %s = %s;" % (v, LIT % ("crate::" + n))], v, ["lit", n]),
    "shadow_param_new": lambda n, v: (["let %s = %s::new();" % (v, n)], v, ["new", [], n], P("ShadowedAway")),
})
CLEAN_PAYLOAD_FORMS = ["shadow_param", "shadow_let", "shadow_typed", "shadow_param_new", "literal", "literal_q1", "literal_q2", "literal_self", "literal_super", "let_literal", "let_literal_q", "new"]
KF_PAYLOAD_FORMS = ["new_q", "variant_struct", "variant_path"]
# type names whose first character is a caseless letter (Lo), a titlecase letter (Lt), an upper-case non-ASCII letter;
# lower-case and underscore initials belong to class C07-6
UNICODE_NAMES = ["\u6ce8\u6587", "\u72b6\u614bKind", "\u30c7\u30fc\u30bf", "\u05e9\u05dc\u05d5\u05dd", "\u0633\u0644\u0627\u0645",
                 "\u0928\u092e\u0938\u094d\u0924\u0947", "\u00c9tatCivil", "\u03a9mega", "\u0414\u0430\u0442\u0430", "\u01c5ungla"]
ODD_INITIAL_NAMES = ["\u00e9lan", "\u00dftrasse", "\u0434\u0430\u0442\u0430", "\u03c9mega", "_Hidden2", "lower_case"]


# spellings HEAD and serde both read as "not on the wire": the skip word in the first / second / third attribute, in
# combined lists, split over skip_serializing + skip_deserializing in two attributes
SKIP_SPELLINGS = [["skip"], ["default", "skip"], ["skip", "default"], ["default", "rename = \"x_y\"", "skip"], ["default, skip"],
                  ["skip, default"], ["skip_serializing", "skip_deserializing"], ["rename = \"zz\", skip"]]
# spellings that do not skip the field
KEEP_SPELLINGS = [["default"], ["skip_serializing_if = \"Option::is_none\""], ["rename = \"kept\""], ["default", "skip_serializing_if = \"Vec::is_empty\""]]


def field_type(ctx, me, t):
    return SELF_CONTEXTS[ctx](me, t) if ctx in SELF_CONTEXTS else CONTEXTS[ctx](t)


# contexts outside every known class, usable in a struct field
CLEAN_FIELD = ["direct", "option", "vec", "map_value", "btree_value", "set", "btree_set", "tuple_first", "tuple_last",
               "ref", "opt_vec", "vec_opt", "map_vec", "vec_tuple", "opt_opt", "map_key", "tuple_mid", "opt_tuple_vec",
               "map_tuple", "ref_ref", "tuple4_last", "result_alias", "vec_result_alias", "tuple_map"]
KF_FIELD = ["result_ok", "result_err"]
CLEAN_PARAM = ["direct", "option", "vec", "map_value", "tuple_last", "ref", "opt_vec", "vec_tuple", "set", "map_tuple", "tuple_map"]
KF_PARAM = []
CLEAN_RET = ["direct", "option", "vec", "result_ok", "map_value", "tuple_first", "opt_vec", "result_alias", "result_map", "tuple_map",
             "result_tuple"]
KF_RET = []

TYPE_NAMES = ["User", "Profile", "Settings", "Item", "Order", "Address", "Status", "Kind", "Report", "Node", "Leaf", "Meta",
              "Account", "Token", "Batch", "Zone"]
# names that overlap with std type names used in field types (HashMap, Option, HashSet, BTreeMap, String, Result, Vec, Channel)
STD_LIKE = ["Map", "Set", "Opt", "Hash", "Tree", "Str", "Res", "Vec2", "Box2", "Chan", "Tup", "Has", "Ion"]
BASES = ["Order", "User", "Node", "T1", "Item", "A", "Ab", "Job", "Log", "Cfg"]
# project type names that collide with std / tauri / TypeScript names
NAME_CLASH = ["Path", "PathBuf", "OsString", "OsStr", "Duration", "Uuid", "Value", "Date", "Error", "Map", "Set", "Record", "Promise",
              "Array", "Channel", "State", "Window", "Number", "Boolean", "Object", "Char", "Str", "Bool", "Unit", "Tuple", "Box", "Arc"]
SUFFIXES = ["Item", "Kind", "List", "Profile", "Data", "Entry", "2", "0", "Ref", "Id", "X", "s"]
PREFIXES = ["Sub", "My", "New", "Re", "X"]
FIELD_NAMES = ["id", "name", "user_id", "created_at", "value", "items", "is_active", "x1", "http_code", "a", "data_2d",
               "b2", "next", "left", "right", "extra"]
FN_NAMES = ["get_user", "save", "list_items", "do_it", "fetch_all", "update_profile", "ping", "compute_2x", "load", "sync_now"]
HELPER_NAMES = ["notify", "broadcast", "emit_change", "log_it"]
DERIVES = [["Serialize", "Deserialize"], ["Debug", "Clone", "Serialize", "Deserialize"], ["Serialize"], ["Deserialize"],
           ["Debug", "Serialize"]]
NON_SERDE = [["Debug", "Clone"], [], ["Default"]]


def file_name(k):
    return "src/lib.rs" if k == 0 else ("src/m%d.rs" % k if k % 2 else "src/sub/deep/m%d.rs" % k)


def fname(spec, k):
    """relative path of file k of a graph spec: spec["paths"][k] when given (directory layout dimension), else file_name(k)"""
    ps = spec.get("paths")
    return ps[k] if ps and k < len(ps) and ps[k] else file_name(k)


NOISE_ATTRS = ["/// documentation comment of the item", "#[allow(dead_code)]", "#[cfg_attr(test, allow(unused))]",
               "#[serde(deny_unknown_fields)]", "#[doc = \"attribute form\"]", "#[non_exhaustive]"]


def attr_lines(derives, shape):
    """Attribute lines of a type item: the derive idents split over several #[derive] attributes in an order and
    grouping chosen by `shape` (an int), other attributes before / between / after, serde:: path spelling."""
    ds = list(derives)
    if not ds:
        return ([NOISE_ATTRS[shape % len(NOISE_ATTRS)]] if shape % 2 else []), []
    if shape % 7 == 3:
        ds = [("serde::" + d) if d in ("Serialize", "Deserialize") else d for d in ds]
    k = shape % 5
    if k == 0:
        groups = [ds]
    elif k == 1:
        groups = [[d] for d in ds]                                   # one attribute per trait
    elif k == 2:
        groups = [ds[:1], ds[1:]] if len(ds) > 1 else [ds]
    elif k == 3:
        groups = [ds[:-1], ds[-1:]] if len(ds) > 1 else [ds]
    else:                                                             # serde traits last, in an attribute of their own
        a = [d for d in ds if "erialize" not in d]
        b = [d for d in ds if "erialize" in d]
        groups = [g for g in (a, b) if g]
    if (shape // 5) % 3 == 1:
        groups = groups[::-1]
    if (shape // 15) % 2 == 1 and all("erialize" in d for d in ds):   # a non-serde derive first
        groups = [["Debug", "Clone"]] + groups
    lines = []
    noise = [NOISE_ATTRS[(shape + i) % len(NOISE_ATTRS)] for i in range(3)]
    if shape % 3 != 0:
        lines.append(noise[0])
    for i, g in enumerate(groups):
        lines.append("#[derive(%s)]" % ", ".join(g))
        if i + 1 < len(groups) and shape % 4 >= 2:
            lines.append(noise[1])
    if shape % 3 == 2:
        lines.append(noise[2])
    return lines, [d for g in groups for d in g]


def shaped(it, shape):
    """a struct / enum item printed with the attribute shape; the model sees the flattened derive idents"""
    lines, flat = attr_lines(it["derives"], shape)
    body = projgen.render_item(dict(it, derives=[]))
    it2 = dict(it, derives=flat)
    return {"kind": "raw", "text": "\n".join(lines + [body]), "c07": sx_item(it2)}


def build(spec):
    """graph spec -> projgen case"""
    nfiles = spec.get("nfiles", 1)
    items = {fname(spec, k): [] for k in range(nfiles)}
    assert len(items) == nfiles, "paths of a spec must be distinct"
    types = spec["types"]
    if spec.get("alias"):
        for k in range(nfiles):
            items[fname(spec, k)].append({"kind": "raw", "text": "pub type Result<T> = std::result::Result<T, String>;"})
    inline = {}                      # file -> [(text, sx)] of definitions placed in an inline module
    fnames = spec.get("field_names") or FIELD_NAMES
    for i, t in enumerate(types):
        f = fname(spec, t.get("file", 0))
        name, kind = t["name"], t["kind"]
        if t.get("inline") and kind in ("struct", "unit"):
            fields = []
            k = 0
            for (a, b, ctx) in spec["edges"]:
                if a == i:
                    fields.append({"name": fnames[k % len(fnames)], "ty": field_type(ctx, P(name), P(types[b]["name"])), "serde": [], "validate": []})
                    k += 1
            for extra in t.get("plain", [["id", "i32"]]):
                fields.append({"name": "p_" + extra[0], "ty": P(extra[1]), "serde": [], "validate": []})
            it = {"kind": "struct", "name": name, "derives": t["derives"], "serde": [], "fields": [] if kind == "unit" else fields,
                  "unit": kind == "unit"}
            inline.setdefault(f, []).append((projgen.render_item(it), sx_item(it)[1:]))
            continue
        if kind == "enum" and t.get("data_variants"):
            # tuple and struct variants (primitive payloads only: variant fields are not harvested at HEAD)
            body = ["Active", "Point(i32, i32)", "Named { code: i32, label: String }", "Inactive"][: 2 + t["data_variants"] % 3]
            if t["data_variants"] % 2:
                body = body[1:] + body[:1]
            items[f].append({"kind": "raw", "text": "%spub enum %s {\n%s\n}" % (
                "#[derive(%s)]\n" % ", ".join(t["derives"]) if t["derives"] else "", name, "\n".join("    %s," % b for b in body)),
                "c07": ["def", name, list(t["derives"]), ["enum"]]})
        elif kind == "enum":
            items[f].append({"kind": "enum", "name": name, "derives": t["derives"], "serde": [],
                             "variants": [{"name": v, "serde": []} for v in ("Active", "Inactive", "InProgress")[:1 + i % 3]]})
            if t.get("attr_shape") is not None:
                items[f][-1] = shaped(items[f][-1], t["attr_shape"])
        elif kind == "tuple":
            items[f].append({"kind": "raw", "text": "%spub struct %s(pub u32);" % (
                "#[derive(%s)]\n" % ", ".join(t["derives"]) if t["derives"] else "", name),
                "c07": ["def", name, list(t["derives"]), ["tuple"]]})
        elif kind == "unit":
            items[f].append({"kind": "struct", "name": name, "derives": t["derives"], "serde": [], "unit": True, "fields": []})
            if t.get("attr_shape") is not None:
                items[f][-1] = shaped(items[f][-1], t["attr_shape"])
        else:
            fields = []
            k = 0
            for (a, b, ctx) in spec["edges"]:
                if a == i:
                    fields.append({"name": fnames[k % len(fnames)] + ("" if k < len(fnames) else str(k)),
                                   "ty": field_type(ctx, P(name), P(types[b]["name"])), "serde": [], "validate": []})
                    k += 1
            for extra in t.get("plain", [["id", "i32"]]):
                fields.append({"name": "p_" + extra[0], "ty": P(extra[1]), "serde": [], "validate": []})
            for sk in t.get("skipped", []):      # #[serde(skip)] field mentioning type sk
                fields.append({"name": "sk_%d" % sk, "ty": P(types[sk]["name"]), "serde": [{"skip": True}], "validate": []})
            for (a, b, ctx, spelling) in spec.get("skip_edges", []):     # a field the wire shape does not have
                if a == i:
                    attrs = SKIP_SPELLINGS[spelling % len(SKIP_SPELLINGS)]
                    fields.append({"name": "back_%d_%d" % (b, spelling), "ty": field_type(ctx, P(name), P(types[b]["name"])),
                                   "serde": [{"raw": x} for x in attrs], "validate": [], "serde_texts": list(attrs),
                                   "noise": spelling // len(SKIP_SPELLINGS)})
            items[f].append({"kind": "struct", "name": name, "derives": t["derives"], "serde": [], "fields": fields})
            if t.get("attr_shape") is not None:
                items[f][-1] = shaped(items[f][-1], t["attr_shape"])
    for raw in spec.get("raw_items", []):            # decoy mentions in non-root positions: aliases, impl blocks, consts
        items[fname(spec, raw[0])].append({"kind": "raw", "text": raw[1]})
    for f, defs_ in inline.items():
        body = "\n".join("    " + ln for text, _ in defs_ for ln in text.split("\n"))
        items[f].append({"kind": "raw",
                         "text": "pub mod inner_types {\n    use super::*;\n    use serde::{Deserialize, Serialize};\n%s\n}\npub use inner_types::*;" % body,
                         "c07": ["mod", [sx for _, sx in defs_]]})
    for is_cmd, fns in ((True, spec.get("cmds", [])), (False, spec.get("helpers", []))):
        for c in fns:
            params, ret, body = [], None, []
            need_app = False
            for n, root in enumerate(c["roots"]):
                how, j, ctx = root[:3]
                ename = root[3] if len(root) > 3 else "evt-%s-%d" % (c["name"], n)      # several sites may share a name
                tj = P(types[j]["name"])
                if how == "param":
                    params.append({"name": "arg%d" % n, "ty": CONTEXTS[ctx](tj)})
                elif how == "named_param":         # a parameter that binds the identifier c["var"]
                    params.append({"name": c.get("var", "payload"), "ty": CONTEXTS[ctx](tj)})
                elif how == "ret":
                    ret = CONTEXTS[ctx](tj)
                elif how == "err":
                    ret = P("Result", P("String") if ret is None else ret, tj)
                elif how == "channel":
                    params.append({"name": "on_event%d" % n, "ty": P("Channel", CONTEXTS[ctx](tj),
                                                                    segs=[[], ["tauri", "ipc"], ["ipc"]][(n + len(c["name"])) % 3])})
                elif how == "event":
                    need_app = True
                    if ctx == "untyped":           # let v = call(..); emit(.., v): no type can be read off the syntax
                        v = c.get("var", "payload")
                        body.append("let %s = compute_value(%d);" % (v, n))
                        body.append({"emit": ename, "recv": "app", "payload": v if n % 2 else "&" + v,
                                     "c07": ["var", v]})
                    elif ctx in PAYLOAD_FORMS:       # payload written as a literal / variant / constructor call
                        nm = types[j]["name"]
                        form = PAYLOAD_FORMS[ctx](nm, "pv%d" % n)
                        stmts, expr, pay = form[:3]
                        if len(form) > 3:              # the payload variable is first bound as a parameter of another type
                            params.append({"name": "pv%d" % n, "ty": form[3]})
                        body += stmts
                        ev = {"emit": ename, "recv": "app", "payload": expr, "c07": pay}
                        if n % 2:
                            ev["to"] = "\"main\""              # emit_to(label, name, payload)
                        body.append(ev)
                    else:
                        v = c.get("var") or "payload%d" % n
                        params.append({"name": v, "ty": CONTEXTS[ctx](tj)})
                        expr = {0: v, 1: "&" + v, 2: v + ".clone()"}[n % 3]
                        body.append({"emit": ename, "recv": "app", "payload": expr, "c07": ["var", v]})
            if need_app or c.get("app"):
                params.insert(0, {"name": "app", "ty": P("AppHandle", segs=["tauri"])})
            fitems = items[fname(spec, c.get("file", 0))]
            (fitems.insert if c.get("first") else (lambda _i, x: fitems.append(x)))(0, {
                "kind": "fn", "name": c["name"], "attrs": [["tauri", "command"] if len(c["name"]) % 2 else ["command"]] if is_cmd else [],
                "async": bool(len(c["name"]) % 3 == 0), "vis": "pub", "params": params, "ret": ret, "body": body})
    cfg = {"typeMappings": dict(spec["type_mappings"])} if spec.get("type_mappings") else {}
    case = {"files": items, "config": cfg}
    # files below directories the tool must not scan (exactly target/ and .git/ at any depth): written to disk, but no
    # part of the project the model and the specification see
    hidden = []
    modelled = True
    for ent in spec.get("excluded_files", []):
        rel, text = ent[0], ent[1]
        assert rel not in items
        if len(ent) > 2:                         # the same text item by item, each with its C07 syntax (sx_item): the file can be
            items[rel] = [dict(i) for i in ent[2]]   # handed to the extracted c07_layout_eval, which decides that it is ignored
        else:
            items[rel] = [{"kind": "raw", "text": text}]
            modelled = False
        hidden.append(rel)
    if hidden:
        case["c07_hidden"] = hidden
        case["c07_hidden_modelled"] = modelled
    if spec.get("under"):
        case["under"] = spec["under"]            # the project path handed to the CLI (default proj)
    return case


def sx_mapping(spec):
    return sorted([k, v] for k, v in (spec.get("type_mappings") or {}).items())


def sx_item(it):
    k = it["kind"]
    if k == "struct":
        kind = ["unit"] if it.get("unit") else ["struct", [[f["serde_texts"] if f.get("serde_texts") else any(a.get("skip") for a in f.get("serde", [])),
                                                             projgen.sx_type(f["ty"])] for f in it["fields"]]]
        return ["def", it["name"], list(it.get("derives", [])), kind]
    if k == "enum":
        return ["def", it["name"], list(it.get("derives", [])), ["enum"]]
    if k == "fn":
        emits = [s["c07"] if "c07" in s else ["other"] for s in it.get("body", []) if isinstance(s, dict)]
        return ["fn", it["name"], [a.split("::") if isinstance(a, str) else list(a) for a in it.get("attrs", [])],
                [[p["name"], projgen.sx_type(p["ty"])] for p in it.get("params", [])],
                [projgen.sx_type(it["ret"])] if it.get("ret") is not None else [], emits]
    if k == "raw" and "c07" in it:
        return it["c07"]
    return ["other"]


def sx_project(case):
    hidden = set(case.get("c07_hidden", []))
    return [[rel, [sx_item(i) for i in case["files"][rel]]] for rel in sorted(case["files"]) if rel not in hidden]


def sx_walk(case):
    """the walk of the source tree for the extracted c07_layout_eval (Model/C07Layout.v lproject): EVERY file written to
    disk with its components below the project path, the files below target/ and .git/ included; None when a hidden file
    is only known as text (corpus cases written before the items were recorded): the caller then drops the hidden files
    itself, as before"""
    if case.get("c07_hidden") and not case.get("c07_hidden_modelled"):
        return None
    return [[rel.split("/"), ["parsed", [sx_item(i) for i in case["files"][rel]]]] for rel in sorted(case["files"])]


def run_cli(case, modes=("none", "zod"), tag="c07", reps=1):
    """Run the real CLI on the project; returns {mode: [types.ts text or None, ...]} (one per fresh process)."""
    out = {}
    with vlib.Sandbox(tag) as sb:
        under = case.get("under", "proj")
        projgen.write_project(sb, case, under=under)
        for mode in modes:
            texts = []
            for r in range(reps):
                res = projgen.generate(sb, case, mode, out="out-%s-%d" % (mode, r), under=under, write=False)
                texts.append(res["files"].get("types.ts") if res["status"] == 0 else None)
            out[mode] = texts
    return out


# ------------------------------------------------------------------ graph specs

def snake(name):
    out = []
    for i, ch in enumerate(name):
        if ch.isupper() and i and not name[i - 1].isupper():
            out.append("_")
        out.append(ch.lower())
    return "".join(out)


RUST_KEYWORDS = {"as", "box", "break", "const", "continue", "crate", "dyn", "else", "enum", "extern", "false", "fn", "for", "if", "impl",
                 "in", "let", "loop", "match", "mod", "move", "mut", "pub", "ref", "return", "self", "static", "struct", "super",
                 "trait", "true", "type", "unsafe", "use", "where", "while", "async", "await", "abstract", "become", "do", "final",
                 "macro", "override", "priv", "try", "typeof", "unsized", "virtual", "yield", "union"}


def ident(name):
    """a lower-case ASCII identifier derived from a type name; never a Rust keyword (struct As gives as_); names with
    non-ASCII letters give f_<code points> (field and command names stay ASCII: their case conversion is C04/C06 matter)"""
    if not name.isascii():
        return "f_" + "_".join("%x" % ord(ch) for ch in name[:3])
    return name + "_" if name in RUST_KEYWORDS else name


# mirror of Model/C07Harvest.v lower_ranges / upper_ranges / caseless_ranges: the domain predicate (first_classified) admits a
# type name only if its first code point is ASCII or lies in one of these ranges
CLASSIFIED_RANGES = [(97, 122), (223, 246), (248, 255), (945, 969), (1072, 1103),
                     (65, 90), (192, 214), (216, 222), (913, 929), (931, 937), (1040, 1071),
                     (453, 453), (456, 456), (459, 459), (498, 498), (1488, 1514), (1569, 1610), (2308, 2361), (12353, 12438),
                     (12449, 12538), (19968, 40959)]


def first_classified(name):
    cp = ord(name[0]) if name else -1
    return 0 <= cp < 128 or any(a <= cp <= b for a, b in CLASSIFIED_RANGES)


def lowered(name):
    """the lower-case form of a type name (class C07-6) when it stays inside the domain predicate and is no Rust keyword
    (struct box / struct ǆungla: unparsable file / first character outside the transcribed tables); else the name itself"""
    low = name.lower()
    return low if first_classified(low) and low not in RUST_KEYWORDS and low != name else name


def bad_name(nm, taken):
    return (nm in taken or nm.endswith("Params") or nm.endswith("Schema") or len(nm) > 40 or (nm[0].isascii() and not nm[0].isupper())
            or nm in ("Option", "Result", "Vec", "HashMap", "BTreeMap", "HashSet", "BTreeSet", "String", "Hidden", "PlainData", "AppError",
                      "AuditRecord", "AuditMeta", "Sink", "AppHandle", "WebviewWindow"))


def overlap_names(rng, types, edges, n):
    """Rename the first n types so that names overlap along the edges of the graph: a child's name extends,
    prefixes or wraps its parent's (Order/OrderItem/OrderItemKind, T1/T10, Node/SubNode/MyNodeData), or is a
    component of it (OrderItem -> Item), or a name resembles a std type used in field types (Map, Opt, Set, Vec2)."""
    taken = set(t["name"] for t in types[n:])
    names = [None] * n
    for i in range(n):
        parents = [a for (a, b, _) in edges if b == i and a < i and names[a]]
        cand = None
        for _ in range(20):
            r = rng.random()
            if parents and r < 0.75:
                pn = names[rng.choice(parents)]
                style = rng.choice(["suffix", "suffix", "prefix", "infix", "component"])
                if style == "suffix":
                    cand = pn + rng.choice(SUFFIXES)
                elif style == "prefix":
                    cand = rng.choice(PREFIXES) + pn
                elif style == "infix":
                    cand = rng.choice(PREFIXES) + pn + rng.choice(SUFFIXES)
                else:
                    parts = [x for x in SUFFIXES + BASES + PREFIXES if x in pn and x != pn and x[0].isupper()]
                    cand = rng.choice(parts) if parts else pn + "0"
            elif r < 0.8:
                cand = rng.choice(STD_LIKE + BASES + NAME_CLASH)
            elif r < 0.9:
                cand = rng.choice(UNICODE_NAMES)
            else:
                cand = rng.choice(BASES) + rng.choice(SUFFIXES)
            if not bad_name(cand, taken):
                break
            cand = None
        if cand is None:
            cand = "Zq%d" % i
        names[i] = cand
        taken.add(cand)
    for i in range(n):
        types[i]["name"] = names[i]


def mk_types(rng, n, nfiles, p_enum=0.15, serde_all=True):
    names = rng.sample(TYPE_NAMES, n)
    ts = []
    for nm in names:
        r = rng.random()
        kind = "enum" if r < p_enum else ("unit" if r < p_enum + 0.05 else "struct")
        ts.append({"name": nm, "kind": kind, "derives": list(rng.choice(DERIVES)), "file": rng.randrange(nfiles)})
        if kind == "enum" and rng.random() < 0.5:
            ts[-1]["data_variants"] = rng.randint(1, 6)
    return ts


def random_edges(rng, types, shape, contexts, acyclic):
    n = len(types)
    idx = list(range(n))
    pairs = []
    if shape == "chain":
        pairs = [(i, i + 1) for i in range(n - 1)]
    elif shape == "diamond" and n >= 4:
        pairs = [(0, 1), (0, 2), (1, 3), (2, 3)] + [(3, k) for k in range(4, n)]
    elif shape == "fanout":
        pairs = [(0, k) for k in range(1, n)]
    else:
        dens = rng.choice([0.2, 0.35, 0.5])
        pairs = [(a, b) for a in idx for b in idx if a < b and rng.random() < dens]
    if not acyclic:
        extra = rng.randint(1, 2)
        for _ in range(extra):
            a, b = rng.randrange(n), rng.randrange(n)
            if a >= b:
                pairs.append((a, b))        # back edge or self loop
    edges = []
    seen = set()
    for a, b in pairs:
        if types[a]["kind"] != "struct" or (a, b) in seen:
            continue
        seen.add((a, b))
        edges.append([a, b, rng.choice(contexts)])
    return edges


def random_spec(rng, clean=True, acyclic=None, max_types=8, events=True):
    n = rng.randint(2, max_types)
    nfiles = rng.randint(1, 5)
    types = mk_types(rng, n, nfiles)
    shape = rng.choice(["chain", "diamond", "fanout", "random", "random"])
    if acyclic is None:
        acyclic = rng.random() < 0.6
    fctx = CLEAN_FIELD if clean else CLEAN_FIELD + KF_FIELD * 2
    pctx = CLEAN_PARAM if clean else CLEAN_PARAM + KF_PARAM
    rctx = CLEAN_RET if clean else CLEAN_RET + KF_RET
    edges = random_edges(rng, types, shape, fctx, acyclic)
    naming = rng.choice(["plain", "overlap", "overlap"])
    if naming == "overlap":
        overlap_names(rng, types, edges, n)
    if not acyclic and edges and rng.random() < 0.4:       # self-referential field that also mentions another type
        e = rng.choice(edges)
        if e[2] in CLEAN_FIELD:
            e[2] = rng.choice(sorted(SELF_CONTEXTS))
    # decoys: unreachable serde type, non-serde type referenced from a field, error-arm-only serde type
    decoy_roles = {}
    if rng.random() < 0.7:
        types.append({"name": "Hidden", "kind": "struct", "derives": list(rng.choice(DERIVES)), "file": rng.randrange(nfiles)})
        decoy_roles["unreachable"] = len(types) - 1
    if rng.random() < 0.6:
        types.append({"name": "PlainData", "kind": rng.choice(["struct", "tuple", "enum"]), "derives": list(rng.choice(NON_SERDE)),
                      "file": rng.randrange(nfiles)})
        owners = [i for i in range(n) if types[i]["kind"] == "struct"]
        if owners:
            edges.append([rng.choice(owners), len(types) - 1, rng.choice(CLEAN_FIELD[:6])])
        decoy_roles["non_serde"] = len(types) - 1
    if rng.random() < 0.5:
        types.append({"name": "AppError", "kind": "struct", "derives": ["Debug", "Serialize"], "file": rng.randrange(nfiles)})
        decoy_roles["err_only"] = len(types) - 1
    if "err_only" in decoy_roles and rng.random() < 0.7:
        # the error type is resolved (it is in the analyzer's graph) but not emitted; it points into the emitted set
        for _ in range(rng.randint(1, 2)):
            edges.append([decoy_roles["err_only"], rng.randrange(n), rng.choice(CLEAN_FIELD[:8])])
    if rng.random() < 0.25:
        owners = [i for i in range(n) if types[i]["kind"] == "struct"]
        if owners and "unreachable" in decoy_roles:
            types[rng.choice(owners)]["skipped"] = [decoy_roles["unreachable"]]
    cmds = []
    field_names = None
    if naming == "overlap":                 # field and command names built from the type names
        field_names = list(dict.fromkeys([ident(snake(t["name"])) for t in types[:n]] + [ident(snake(t["name"])) + "_id" for t in types[:n]]))
        pool = list(dict.fromkeys(["get_" + ident(snake(t["name"])) for t in types[:n]] + [ident(snake(t["name"])) for t in types[:n]] + FN_NAMES))
        names = rng.sample(pool, rng.randint(1, 4))
    else:
        names = rng.sample(FN_NAMES, rng.randint(1, 4))
    for cn in names:
        roots = []
        for _ in range(rng.randint(0, 2)):
            roots.append(["param", rng.randrange(n), rng.choice(pctx)])
        if rng.random() < 0.7:
            roots.append(["ret", rng.randrange(n), rng.choice(rctx)])
            if "err_only" in decoy_roles and roots[-1][2] in ("direct", "option", "vec") and rng.random() < 0.6:
                roots.append(["err", decoy_roles["err_only"], "direct"])
        elif "err_only" in decoy_roles and rng.random() < 0.3:
            roots.append(["ret", decoy_roles["err_only"], rng.choice(["result_err", "opt_result_err", "vec_result_err"])])
        if rng.random() < 0.25:
            roots.append(["channel", rng.randrange(n), rng.choice(["direct", "vec", "option"])])
        if events and rng.random() < 0.2:
            j = rng.randrange(n)
            if types[j]["kind"] == "struct":
                roots.append(["event", j, rng.choice(["direct", "ref"] + (CLEAN_PAYLOAD_FORMS if clean else CLEAN_PAYLOAD_FORMS + KF_PAYLOAD_FORMS[:1]))])
            elif not clean and types[j]["kind"] == "enum":
                roots.append(["event", j, rng.choice(KF_PAYLOAD_FORMS[1:])])
        cmds.append({"name": cn, "file": rng.randrange(nfiles), "roots": roots})
    helpers = []
    if rng.random() < 0.35:
        roots = []
        j = rng.randrange(len(types))
        roots.append(["param", j, rng.choice(CLEAN_PARAM[:4])])            # not a command: must not count
        if events and rng.random() < (0.3 if clean else 0.7):
            k = rng.randrange(n)
            if types[k]["kind"] == "struct":
                roots.append(["event", k, rng.choice(["direct", "ref"])])
        helpers.append({"name": rng.choice(HELPER_NAMES), "file": rng.randrange(nfiles), "roots": roots})
    if not any(c["roots"] for c in cmds):
        cmds[0]["roots"].append(["param", 0, "direct"])
    if rng.random() < 0.5:                            # all emit sites of the project use one event name
        shared = rng.choice(["changed", "progress-update", "item:added"])
        for c in cmds + helpers:
            for r in c["roots"]:
                if r[0] == "event" and len(r) == 3:
                    r.append(shared)
    type_mappings = {}
    if rng.random() < 0.2:                            # type_mappings naming project-defined types (and one foreign name)
        for t in rng.sample(types[:n], min(n, rng.randint(1, 2))):
            if t["name"][0].isupper():
                type_mappings[t["name"]] = rng.choice(["string", "number", "boolean"])
        type_mappings["ForeignDateTime"] = "string"
    raw_items = []
    for t in types:                                   # attribute shapes of type items
        if t["kind"] != "tuple" and rng.random() < 0.5:
            t["attr_shape"] = rng.randrange(60)
    if events and rng.random() < 0.25:
        # an emit whose payload is an untyped local, in a file whose earlier helper binds the same identifier to an
        # otherwise unreachable serde type (with a child of its own): neither may be declared
        v = rng.choice(["payload", "record", "entry", "msg"])
        c = rng.choice(cmds)
        c["roots"].append(["event", 0, "untyped"])
        c["var"] = v
        types.append({"name": "AuditRecord", "kind": "struct", "derives": ["Serialize", "Deserialize"], "file": rng.randrange(nfiles)})
        types.append({"name": "AuditMeta", "kind": "struct", "derives": ["Serialize"], "file": rng.randrange(nfiles)})
        edges.append([len(types) - 2, len(types) - 1, rng.choice(CLEAN_FIELD[:6])])
        helpers.append({"name": "write_audit", "file": c["file"], "first": True, "var": v,
                        "roots": [["named_param", len(types) - 2, rng.choice(["ref", "direct"])]]})
        raw_items.append([c["file"], "pub type AuditAlias = AuditRecord;"])
        raw_items.append([rng.randrange(nfiles), "pub struct Sink;\nimpl Sink {\n    pub fn push(&self, %s: AuditRecord) -> AuditMeta { todo!() }\n}" % v])
    if "unreachable" in decoy_roles and rng.random() < 0.4:
        raw_items.append([rng.randrange(nfiles), "pub type HiddenList = Vec<Hidden>;\npub const HIDDEN_LIMIT: usize = 3;"])
    if not clean and rng.random() < 0.08:
        k = rng.randrange(n)
        if lowered(types[k]["name"]) not in [t["name"] for t in types]:
            types[k]["name"] = lowered(types[k]["name"])     # odd name: lower-case initial
    if not clean and rng.random() < 0.12:
        cands = [i for i in range(n) if types[i]["kind"] in ("struct", "unit")]
        if cands:
            types[rng.choice(cands)]["inline"] = True
    alias = any(ctx in ("result_alias", "vec_result_alias") for (_, _, ctx) in edges) or \
        any(r[2] == "result_alias" for c in cmds for r in c["roots"])
    return {"types": types, "edges": edges, "cmds": cmds, "helpers": helpers, "nfiles": nfiles, "alias": alias,
            "shape": shape, "acyclic": acyclic, "clean": clean, "decoys": decoy_roles, "naming": naming,
            "field_names": field_names, "raw_items": raw_items, "type_mappings": type_mappings}


def dag_shapes(n):
    """all edge sets of DAGs on n nodes with edges i->j, i<j (every DAG shape up to relabelling is among them)"""
    pairs = [(a, b) for a in range(n) for b in range(a + 1, n)]
    for mask in range(1 << len(pairs)):
        yield [p for k, p in enumerate(pairs) if mask >> k & 1]


SMALL_SCHEMES = [TYPE_NAMES,
                 ["Order", "OrderItem", "OrderItemKind", "OrderItemKindTag"],       # child extends parent
                 ["T1", "T10", "T100", "T1000"],
                 ["Map", "Opt", "Set", "Str"],                                      # substrings of std names in the field text
                 ["MyNodeListData", "NodeList", "Node", "No"]]                      # child is a component of the parent


def small_spec(n, edge_list, ctxs, root_mode, nfiles=2, scheme=0):
    """exhaustive small shapes: types T0..Tn-1 all structs; roots: every source node as a parameter (root_mode 0)
    or node 0 only via return (1)"""
    names = SMALL_SCHEMES[scheme % len(SMALL_SCHEMES)][:n]
    types = [{"name": names[i], "kind": "struct", "derives": ["Serialize", "Deserialize"], "file": i % nfiles} for i in range(n)]
    edges = [[a, b, c] for (a, b), c in zip(edge_list, ctxs)]
    targets = {b for a, b in edge_list}
    if root_mode == 0:
        roots = [["param", i, "direct"] for i in range(n) if i not in targets]
    elif root_mode == 2:                       # every type is a root of its own (C09: all schemas are emitted)
        roots = [["param", i, ["direct", "option", "vec"][i % 3]] for i in range(n)]
    else:
        roots = [["ret", 0, "result_ok"]]
    alias = any(c in ("result_alias", "vec_result_alias") for c in ctxs)
    return {"types": types, "edges": edges, "cmds": [{"name": "run_it", "file": 0, "roots": roots}], "helpers": [],
            "nfiles": nfiles, "alias": alias, "shape": "small", "acyclic": True, "clean": all(c in CLEAN_FIELD for c in ctxs),
            "naming": "scheme%d" % (scheme % len(SMALL_SCHEMES))}


ROOT_KINDS = [("cmd", ["param", "direct"]), ("cmd", ["param", "opt_vec"]), ("cmd", ["ret", "result_ok"]), ("cmd", ["ret", "vec"]),
              ("cmd", ["channel", "direct"]), ("cmd", ["event", "direct"]), ("cmd", ["event", "literal"]),
              ("helper", ["event", "ref"]), ("helper", ["event", "direct"]), ("helper", ["event", "literal"])]


def crossfile_specs(rng):
    """every kind of root with the root type defined in another file than the function that mentions it, the
    root type reachable through that root only, its child in a third file; other commands elsewhere"""
    specs = []
    for where, (how, ctx) in ROOT_KINDS:
        for variant in range(3):
            nfiles = 3 + variant % 2
            pool = rng.sample(TYPE_NAMES, 4)
            types = [{"name": pool[0], "kind": "struct", "derives": ["Serialize", "Deserialize"], "file": 1},
                     {"name": pool[1], "kind": "struct", "derives": ["Serialize", "Deserialize"], "file": 2},
                     {"name": pool[2], "kind": "struct", "derives": ["Serialize", "Deserialize"], "file": variant % nfiles},
                     {"name": pool[3], "kind": "enum", "derives": ["Serialize"], "file": (variant + 1) % nfiles}]
            edges = [[0, 1, rng.choice(CLEAN_FIELD)], [2, 3, "direct"]]
            if how == "event" and variant < 2:      # without a child the event roots stay outside class C07-4
                edges = edges[1:]
            fn = {"name": "emit_it" if how == "event" else "use_it", "file": 0, "roots": [[how, 0, ctx]]}
            other = {"name": "other_cmd", "file": variant % nfiles, "roots": [["param", 2, "direct"]]}
            cmds, helpers = ([fn, other], []) if where == "cmd" else ([other], [fn])
            specs.append({"types": types, "edges": edges, "cmds": cmds, "helpers": helpers, "nfiles": nfiles, "alias": False,
                          "shape": "crossfile", "acyclic": True, "clean": True, "naming": "plain"})
    return specs


SD2 = ["Serialize", "Deserialize"]


def shape_specs(rng):
    """attribute shapes of type items and untyped event payloads, one feature per project:
    chain A -> B -> C with the shape on A / B / C; a non-serde type with split derives mentioned by A stays out"""
    specs = []
    for shape in range(60):
        derives = [SD2, ["Debug", "Clone", "Serialize", "Deserialize"], ["Serialize"], ["Debug", "Deserialize"]][shape % 4]
        pool = rng.sample(TYPE_NAMES, 4)
        types = [{"name": pool[i], "kind": "enum" if (i == 2 and shape % 3 == 0) else "struct", "derives": list(SD2), "file": i % 2}
                 for i in range(3)]
        k = shape % 3
        types[k]["derives"] = list(derives)
        types[k]["attr_shape"] = shape
        types.append({"name": pool[3], "kind": "struct", "derives": ["Debug", "Clone", "Default"], "file": 1, "attr_shape": shape})
        edges = [[0, 1, "vec"], [1, 2, "option"], [0, 3, "direct"]]
        specs.append({"types": types, "edges": edges, "cmds": [{"name": "use_it", "file": 0, "roots": [["param", 0, "direct"]]}],
                      "helpers": [], "nfiles": 2, "alias": False, "shape": "attrs", "acyclic": True, "clean": True, "naming": "plain"})
    for k, v in enumerate(["payload", "record", "entry", "data", "payload", "msg"]):
        pool = rng.sample(TYPE_NAMES, 3)
        types = [{"name": pool[0], "kind": "struct", "derives": list(SD2), "file": 0},
                 {"name": pool[1], "kind": "struct", "derives": list(SD2), "file": k % 2},       # decoy bound by the helper
                 {"name": pool[2], "kind": "struct", "derives": ["Serialize"], "file": 1}]      # its child
        cmd = {"name": "increment", "file": 0, "var": v, "roots": [["param", 0, "direct"], ["event", 0, "untyped"]]}
        helper = {"name": "write_audit", "file": 0, "first": True, "var": v, "roots": [["named_param", 1, ["ref", "direct"][k % 2]]]}
        raw = [[0, "pub type Alias%d = %s;" % (k, pool[1])], [1, "pub struct Sink;\nimpl Sink { pub fn push(&self, %s: %s) {} }" % (v, pool[1])]]
        specs.append({"types": types, "edges": [[1, 2, "vec"]], "cmds": [cmd], "helpers": [helper], "nfiles": 2, "alias": False,
                      "shape": "untyped-payload", "acyclic": True, "clean": True, "naming": "plain", "raw_items": raw})
    return specs


def deep_specs():
    """beyond the small-scope bound: a chain of 200 types, a ladder of 150 (i -> i+1, i -> i+2), a fan of 200 fields;
    names N0..Nk overlap as substrings (N1 / N10 / N100)"""
    specs = []
    ctxs = CLEAN_FIELD[:8]
    for shape, n in (("chain", 200), ("ladder", 150), ("fan", 200)):
        types = [{"name": "N%d" % i, "kind": "struct", "derives": list(SD2), "file": i % 3} for i in range(n)]
        if shape == "chain":
            edges = [[i, i + 1, ctxs[i % len(ctxs)]] for i in range(n - 1)]
        elif shape == "ladder":
            edges = [[i, i + 1, ctxs[i % len(ctxs)]] for i in range(n - 1)] + [[i, i + 2, ctxs[(i + 3) % len(ctxs)]] for i in range(n - 2)]
        else:
            edges = [[0, i, ctxs[i % len(ctxs)]] for i in range(1, n)]
        specs.append({"types": types, "edges": edges, "cmds": [{"name": "run_it", "file": 0, "roots": [["param", 0, "direct"]]}],
                      "helpers": [], "nfiles": 3, "alias": False, "shape": "deep-" + shape, "acyclic": True, "clean": True, "naming": "digits"})
    return specs


def same_event_specs():
    """one event name emitted from three sites (command / helper / command) with three different payload types, each
    otherwise unreachable and with a child of its own; every assignment of the sites to files and every source order"""
    import itertools
    specs = []
    kinds = [("cmd", "direct"), ("helper", "ref"), ("cmd", "literal")]
    for perm in itertools.permutations(range(3)):
        for same_file in (False, True):
            types = []
            edges = []
            for k in range(3):
                types.append({"name": ["Started", "Progress", "Finished"][k], "kind": "struct", "derives": list(SD2), "file": (k + 1) % 3})
                types.append({"name": ["StartInfo", "ProgressInfo", "FinishInfo"][k], "kind": "struct", "derives": list(SD2), "file": k})
                edges.append([2 * k, 2 * k + 1, ["vec", "option", "map_value"][k]])
            types.append({"name": "Meta", "kind": "struct", "derives": list(SD2), "file": 0})
            cmds, helpers = [{"name": "other_cmd", "file": 0, "roots": [["param", 6, "direct"]]}], []
            for pos, k in enumerate(perm):          # pos = source/file order of the site emitting payload type k
                where, ctx = kinds[k]
                fn = {"name": "site_%d_%s" % (pos, "abc"[k]), "file": 1 if same_file else pos, "roots": [["event", 2 * k, ctx, "job-status"]]}
                (cmds if where == "cmd" else helpers).append(fn)
            specs.append({"types": types, "edges": edges, "cmds": cmds, "helpers": helpers, "nfiles": 3, "alias": False,
                          "shape": "same-event", "acyclic": True, "clean": True, "naming": "plain"})
    return specs


def name_clash_specs():
    """project types named like std / tauri / TypeScript types, as a root (parameter or return) and as an inner node"""
    specs = []
    for k, nm in enumerate(NAME_CLASH):
        # root: fn(arg: Nm) with a child; inner: Holder -> Nm -> Leaf
        types = [{"name": nm, "kind": "struct", "derives": list(SD2), "file": k % 2},
                 {"name": "Leaf", "kind": "struct", "derives": list(SD2), "file": 1},
                 {"name": "Holder", "kind": "struct", "derives": list(SD2), "file": 0}]
        ctx = CLEAN_FIELD[k % 10]
        root = [["param", 0, ["direct", "option", "vec"][k % 3]]] if k % 2 else [["ret", 0, ["direct", "result_ok"][k % 4 // 2]]]
        specs.append({"types": types, "edges": [[0, 1, ctx]], "cmds": [{"name": "use_it", "file": 0, "roots": root}], "helpers": [],
                      "nfiles": 2, "alias": False, "shape": "name-root", "acyclic": True, "clean": True, "naming": "clash"})
        specs.append({"types": types, "edges": [[2, 0, ctx], [0, 1, "direct"]],
                      "cmds": [{"name": "use_it", "file": 1, "roots": [["param", 2, "direct"]]}], "helpers": [],
                      "nfiles": 2, "alias": False, "shape": "name-inner", "acyclic": True, "clean": True, "naming": "clash"})
    return specs


def error_graph_specs():
    """types that are in the analyzer's graph but not emitted (error position of a Result, at several nestings) and point
    into the emitted set; the emitted struct they point to has a dependency that sorts after / before it"""
    specs = []
    for (a, b) in (("Order", "Product"), ("Zeta", "Alpha"), ("Item", "ItemKind")):
        for rk, rctx in enumerate(["err", "result_err", "opt_result_err", "vec_result_err"]):
            for ectx in ("direct", "vec", "option"):
                types = [{"name": a, "kind": "struct", "derives": list(SD2), "file": 0},
                         {"name": b, "kind": "struct", "derives": list(SD2), "file": 1},
                         {"name": "RejectedInput", "kind": "struct", "derives": ["Debug", "Serialize"], "file": 1},
                         {"name": "Meta", "kind": "struct", "derives": list(SD2), "file": 0}]
                edges = [[0, 1, ["direct", "vec_tuple", "map_value"][rk % 3]], [2, 0, ectx], [2, 3, "direct"]]
                ret = [["ret", 3, "direct"], ["err", 2, "direct"]] if rctx == "err" else [["ret", 2, rctx]]
                cmds = [{"name": "submit", "file": 0, "roots": [["param", 0, "direct"]] + ret},
                        {"name": "lookup", "file": 1, "roots": [["param", 1, "option"], ["param", 3, "direct"]]}]
                specs.append({"types": types, "edges": edges, "cmds": cmds, "helpers": [], "nfiles": 2, "alias": False,
                              "shape": "error-graph", "acyclic": True, "clean": True, "naming": "plain"})
    return specs


def mapping_specs():
    """type_mappings naming a project-defined serde type that has fields of other project types, crossed with the small
    dependency shapes: the mapped type as a leaf, as an inner node, as a root; its field type also a root or only below it"""
    specs = []
    for (m, u) in (("Money", "Unit"), ("Amount", "Zone"), ("Stamp", "Clock")):
        for target in ("string", "number"):
            for shape in range(4):
                types = [{"name": "Invoice", "kind": "struct", "derives": list(SD2), "file": 0},
                         {"name": m, "kind": "struct", "derives": list(SD2), "file": 1},
                         {"name": u, "kind": "struct", "derives": list(SD2), "file": shape % 2},
                         {"name": "Line", "kind": "struct", "derives": list(SD2), "file": 1}]
                edges = [[0, 1, ["direct", "vec", "option", "map_value"][shape]], [1, 2, ["direct", "opt_vec", "tuple_last", "vec"][shape]]]
                roots = [["param", 0, "direct"]]
                if shape % 2 == 0:
                    edges.append([0, 2, "option"])              # the field's type is mentioned by an emitted type as well
                if shape == 1:
                    edges += [[3, 1, "vec"], [0, 3, "vec"]]     # mapped type below two holders
                if shape == 3:
                    roots.append(["ret", 1, "result_ok"])       # the mapped type is a root itself
                specs.append({"types": types, "edges": edges, "cmds": [{"name": "bill", "file": 0, "roots": roots}], "helpers": [],
                              "nfiles": 2, "alias": False, "shape": "mapping", "acyclic": True, "clean": True, "naming": "plain",
                              "type_mappings": {m: target, "ForeignDateTime": "string"}})
    return specs


def unicode_name_specs():
    """type names whose first character is not an ASCII upper-case letter, at every harvesting site: parameter, return,
    channel, event payload (variable, literal forms), field (direct and nested generics), each with a child"""
    specs = []
    sites = [("param", "direct"), ("param", "opt_vec"), ("ret", "result_ok"), ("channel", "vec"), ("event", "ref"),
             ("event", "literal_q1"), ("field", "direct"), ("field", "map_tuple"), ("field", "vec_tuple")]
    for k, nm in enumerate(UNICODE_NAMES + ODD_INITIAL_NAMES):
        for s_i, (how, ctx) in enumerate(sites):
            if (k + s_i) % 3 and nm in ODD_INITIAL_NAMES:
                continue                                   # a third of the sites for the names of class C07-6
            child = UNICODE_NAMES[(k + 1) % len(UNICODE_NAMES)] if s_i % 2 else "Leaf"
            types = [{"name": nm, "kind": "struct", "derives": list(SD2), "file": k % 2},
                     {"name": child, "kind": "struct", "derives": list(SD2), "file": 1},
                     {"name": "Holder", "kind": "struct", "derives": list(SD2), "file": 0}]
            if child == nm:
                continue
            edges = [[0, 1, CLEAN_FIELD[(k + s_i) % 10]]]
            if how == "field":
                edges.append([2, 0, ctx])
                roots = [["param", 2, "direct"]]
            else:
                roots = [[how, 0, ctx], ["param", 2, "direct"]]
            specs.append({"types": types, "edges": edges, "cmds": [{"name": "use_it", "file": (k + s_i) % 2, "roots": roots}], "helpers": [],
                          "nfiles": 2, "alias": False, "shape": "unicode-" + how, "acyclic": True, "clean": nm in UNICODE_NAMES, "naming": "unicode"})
    return specs


def payload_form_specs():
    """every payload expression form x emit / emit_to x command / helper, the payload type reachable no other way"""
    specs = []
    for k, form in enumerate(CLEAN_PAYLOAD_FORMS + KF_PAYLOAD_FORMS):
        for where in ("cmd", "helper"):
            enum = form.startswith("variant")
            types = [{"name": "Progress", "kind": "enum" if enum else "struct", "derives": list(SD2), "file": 1},
                     {"name": "Detail", "kind": "struct", "derives": list(SD2), "file": 0},
                     {"name": "Meta", "kind": "struct", "derives": list(SD2), "file": 0},
                     # the type of the earlier binding: in a helper it is mentioned nowhere else and must stay undeclared
                     {"name": "ShadowedAway", "kind": "struct", "derives": list(SD2), "file": 1},
                     {"name": "ShadowedChild", "kind": "struct", "derives": list(SD2), "file": 0}]
            edges = ([] if enum else [[0, 1, "vec"]]) + [[3, 4, "option"]]
            fn = {"name": "notify_it", "file": k % 2, "roots": [["param", 2, "direct"], ["event", 0, form]] if where == "cmd" else [["event", 0, form]]}
            other = {"name": "other_cmd", "file": 0, "roots": [["param", 2, "direct"]]}
            cmds, helpers = ([fn], []) if where == "cmd" else ([other], [fn])
            specs.append({"types": types, "edges": edges, "cmds": cmds, "helpers": helpers, "nfiles": 2, "alias": False,
                          "shape": "payload-" + form, "acyclic": True, "clean": form in CLEAN_PAYLOAD_FORMS, "naming": "plain"})
    return specs


def skip_edge_specs():
    """edges that must not exist: back references through skipped fields make an otherwise cyclic graph acyclic; every
    spelling of the skip; kept spellings (default, skip_serializing_if, rename) on forward edges stay edges"""
    specs = []
    for sp in range(len(SKIP_SPELLINGS)):
        for shape in range(3):
            names = [["Playlist", "Song", "Artist"], ["Album", "Track", "Label"], ["Zone", "Area", "Cell"]][shape]
            types = [{"name": names[i], "kind": "struct", "derives": list(SD2), "file": i % 2} for i in range(3)]
            if shape == 0:      # Playlist -> Song, Song -(skip)-> Playlist
                edges, skips = [[0, 1, "vec"], [1, 2, "option"]], [[1, 0, "option", sp]]
            elif shape == 1:    # Album -> Track -> Label, Label -(skip)-> Album, Track -(skip)-> Track
                edges, skips = [[0, 1, "vec"], [1, 2, "direct"]], [[2, 0, "vec", sp], [1, 1, "option", sp + 1]]
            else:               # Zone -> Area, Zone -> Cell, Area -> Cell, Cell -(skip)-> Zone and -(skip)-> Area
                edges, skips = [[0, 1, "vec"], [0, 2, "map_value"], [1, 2, "opt_vec"]], [[2, 0, "direct", sp], [2, 1, "vec", sp + 2]]
            roots = [["param", i, "direct"] for i in range(3)]
            specs.append({"types": types, "edges": edges, "skip_edges": skips,
                          "cmds": [{"name": "save_all", "file": 0, "roots": roots}], "helpers": [], "nfiles": 2, "alias": False,
                          "shape": "skip-edges", "acyclic": True, "clean": True, "naming": "plain"})
    return specs


def enum_target_specs():
    """enums with tuple / struct variants as field types of structs at several nestings, in chains"""
    specs = []
    for k, ctx in enumerate(["direct", "option", "vec", "map_value", "tuple_last", "opt_vec", "vec_tuple", "map_tuple"]):
        for dv in (1, 2, 3, 4):
            types = [{"name": "Shape", "kind": "enum", "derives": list(SD2), "file": k % 2, "data_variants": dv},
                     {"name": "Canvas", "kind": "struct", "derives": list(SD2), "file": 0},
                     {"name": "Album", "kind": "struct", "derives": list(SD2), "file": 1},
                     {"name": "Mode", "kind": "enum", "derives": ["Serialize"], "file": 0}]
            edges = [[1, 0, ctx], [2, 1, "vec"], [2, 0, "option"], [1, 3, "direct"]]
            specs.append({"types": types, "edges": edges, "cmds": [{"name": "draw", "file": 0, "roots": [["param", 2, "direct"], ["ret", 0, "result_ok"]]}],
                          "helpers": [], "nfiles": 2, "alias": False, "shape": "enum-target", "acyclic": True, "clean": True, "naming": "plain"})
    return specs


def stale_generator_histories():
    """one generator object over 2-3 different projects (a fresh analysis each): a name that is a serde type with
    dependencies in project A is only mentioned, or a non-serde type, in project B"""
    hs = []
    for k in range(6):
        A = {"types": [{"name": "Profile", "kind": "struct", "derives": list(SD2), "file": 0},
                       {"name": "Settings", "kind": "struct", "derives": list(SD2), "file": 1},
                       {"name": "Theme", "kind": "struct", "derives": list(SD2), "file": 0},
                       {"name": "Badge", "kind": "struct", "derives": list(SD2), "file": 1}],
             "edges": [[0, 1, ["direct", "option", "vec"][k % 3]], [1, 2, "vec"], [0, 3, "option"]],
             "cmds": [{"name": "load_profile", "file": 0, "roots": [["ret", 0, "result_ok"]]}], "helpers": [], "nfiles": 2, "alias": False,
             "shape": "gen-rounds", "acyclic": True, "clean": True, "naming": "plain"}
        B = json.loads(json.dumps(A))
        if k % 2:
            B["types"][1]["derives"] = ["Debug", "Clone"]          # Settings is no longer a serde type
        else:
            B["types"][1]["kind"] = "tuple"; B["types"][1]["derives"] = ["Debug"]
        B["edges"] = [e for e in B["edges"] if e[0] != 1]
        C = json.loads(json.dumps(A)); C["edges"] = [[0, 3, "vec"]]   # Profile no longer mentions Settings at all
        hs.append([A, B] if k < 3 else [A, C, B])
    return hs


def edit_histories():
    """C09: rounds that EDIT existing types with one long-lived analyzer: reverse an edge, remove an edge, retarget a field"""
    hs = []
    for k, ctx in enumerate(["direct", "option", "vec", "map_value"]):
        base = {"types": [{"name": n, "kind": "struct", "derives": list(SD2), "file": i % 2} for i, n in enumerate(["Alpha", "Beta", "Gamma"])],
                "cmds": [{"name": "save_all", "file": 0, "roots": [["param", i, "direct"] for i in range(3)]}], "helpers": [], "nfiles": 2,
                "alias": False, "shape": "edit-rounds", "acyclic": True, "clean": True, "naming": "plain"}
        def v(edges):
            x = json.loads(json.dumps(base)); x["edges"] = edges; return x
        hs.append([v([[0, 1, ctx]]), v([[1, 0, ctx]]), v([[1, 0, ctx]])])                    # reversed
        hs.append([v([[0, 1, ctx], [1, 2, "vec"]]), v([[0, 1, ctx]]), v([[2, 1, "option"], [0, 1, ctx]])])   # removed, then reversed
        hs.append([v([[0, 1, ctx]]), v([[0, 2, ctx]]), v([[2, 0, ctx]])])                    # retargeted, then reversed
    return hs


# ------------------------------------------------------------------ directory layout (near-misses of the excluded names)
# directory names that are NOT the excluded names target / .git but share a prefix, suffix, infix or the letters in another case
NEAR_MISS_DIRS = ["targets", "target_kinds", "target-tauri", "target_wasm", "targeting", "target2", "target.d", "target.rs", "target.",
                  "mytarget", "my_target", "xtarget", "sub-target-x", ".target", "Target", "TARGET", "tarGet", "targe", "arget", "target 2",
                  ".github", ".gitignore.d", ".gitx", ".git_", ".git.", ".git2", "x.git", "repo.git", "a.git.b", ".Git", ".GIT", "git", "_git",
                  ".gi", "dot.git.d"]
# file names (not directories) equal to an excluded name plus the extension
NEAR_MISS_FILES = ["target.rs", ".git.rs", "src/target.rs", "src/.git.rs", "src/sub/target.rs", "targets.rs", "src/Target.rs"]
DEPTH_TEMPLATES = ["%s/m.rs", "src/%s/m.rs", "src/%s/mod.rs", "src/a/%s/b/m.rs", "%s/%s/m.rs", "src/%s/sub/deep/m.rs", "src/x/y/z/%s/m.rs"]
EXCLUDED_TEMPLATES = ["target/debug/build/gen.rs", ".git/hooks/x.rs", "src/target/m.rs", "src/sub/.git/y.rs", "src/a/target/b/c.rs",
                      "target/targets/z.rs", "src/targets/target/w.rs"]
GHOST = ("use serde::{Deserialize, Serialize};\n#[derive(Serialize, Deserialize)]\npub struct Ghost%d { pub id: i32, pub inner: GhostInner%d }\n"
         "#[derive(Serialize, Deserialize)]\npub struct GhostInner%d { pub id: i32 }\n"
         "#[tauri::command]\npub fn ghost_cmd%d(a: Ghost%d) -> Ghost%d { a }\n")


def ghost_items(i):
    """GHOST % i item by item, with the C07 syntax of each item"""
    lines = (GHOST % ((i,) * 6)).split("\n")
    assert len(lines) == 8 and lines[7] == ""
    t = lambda n: projgen.sx_type(P(n))
    sd = ["Serialize", "Deserialize"]
    return [{"kind": "raw", "text": lines[0]},
            {"kind": "raw", "text": lines[1] + "\n" + lines[2],
             "c07": ["def", "Ghost%d" % i, sd, ["struct", [[False, t("i32")], [False, t("GhostInner%d" % i)]]]]},
            {"kind": "raw", "text": lines[3] + "\n" + lines[4], "c07": ["def", "GhostInner%d" % i, sd, ["struct", [[False, t("i32")]]]]},
            {"kind": "raw", "text": lines[5] + "\n" + lines[6],
             "c07": ["fn", "ghost_cmd%d" % i, [["tauri", "command"]], [["a", t("Ghost%d" % i)]], [t("Ghost%d" % i)], []]}]


def near_path(d, k):
    t = DEPTH_TEMPLATES[k % len(DEPTH_TEMPLATES)]
    return t % ((d,) * t.count("%s"))


def layout_spec(paths, role, excluded=(), under=None, tag="layout"):
    """files: 0 = paths[0] (default src/lib.rs), 1 and 2 = the paths under test, 3 = an ordinary file.
    role root: the root type and its child are defined in files 1 / 2, the command elsewhere;
    role inner: Holder (file 0) -> Mid (file 1) -> Leaf (file 2), and Via (file 3) -> Deep (file 1);
    role cmd: the commands and a helper emitting an event are in files 1 / 2, every type elsewhere or next to them"""
    T = lambda n, f, kind="struct": {"name": n, "kind": kind, "derives": list(SD2), "file": f}
    if role == "root":
        types = [T("BuildTarget", 1), T("Profile", 2), T("TargetKind", 2, "enum"), T("BuildPlan", 0), T("Unused", 1)]
        edges = [[0, 1, "vec"], [0, 2, "option"], [3, 0, "map_value"]]
        cmds = [{"name": "list_targets", "file": 0, "roots": [["ret", 0, "result_ok"]]},
                {"name": "plan", "file": 3, "roots": [["param", 2, "direct"], ["ret", 3, "direct"]]}]
        helpers = []
    elif role == "inner":
        types = [T("Holder", 0), T("Mid", 1), T("Leaf", 2), T("Via", 3), T("Deep", 1), T("Unused", 2)]
        edges = [[0, 1, "opt_vec"], [1, 2, "map_value"], [3, 4, "tuple_last"]]
        cmds = [{"name": "use_it", "file": 0, "roots": [["param", 0, "direct"], ["channel", 3, "direct"]]}]
        helpers = []
    else:
        types = [T("Request", 0), T("Reply", 3), T("ReplyPart", 1), T("Progress", 3), T("Step", 0), T("Unused", 3)]
        edges = [[1, 2, "vec"], [3, 4, "option"]]
        cmds = [{"name": "handle_it", "file": 1, "roots": [["param", 0, "direct"], ["ret", 1, "result_ok"]]},
                {"name": "ping_it", "file": 0, "roots": []}]
        helpers = [{"name": "notify_it", "file": 2, "roots": [["event", 3, "ref"]]}]
    ps = list(paths) + [None] * (4 - len(paths))
    spec = {"types": types, "edges": edges, "cmds": cmds, "helpers": helpers, "nfiles": 4, "alias": False, "paths": ps,
            "shape": tag + "-" + role, "acyclic": True, "clean": True, "naming": "plain"}
    if excluded:
        spec["excluded_files"] = [[rel, GHOST % ((i,) * 6), ghost_items(i)] for i, rel in enumerate(excluded)]
    if under:
        spec["under"] = under
    return spec


def layout_specs():
    """types and commands defined below directories whose names are near-misses of the excluded target / .git (prefix,
    suffix, infix, case variants) at several depths, files named target.rs / .git.rs, a project path that itself lies below
    target/ or .git/, and controls: files below directories called exactly target / .git define ghost commands and types
    that must stay out"""
    specs = []
    roles = ["root", "inner", "cmd"]
    for i, d in enumerate(NEAR_MISS_DIRS):
        d2 = NEAR_MISS_DIRS[(i + 7) % len(NEAR_MISS_DIRS)]
        for v in range(2):
            k = 2 * i + v
            specs.append(layout_spec([None, near_path(d, k), near_path(d2, k + 3)], roles[k % 3]))
    for i, f in enumerate(NEAR_MISS_FILES):
        g = NEAR_MISS_FILES[(i + 3) % len(NEAR_MISS_FILES)]
        specs.append(layout_spec([None, f, g], roles[i % 3], tag="layout-file"))
        specs.append(layout_spec([f, g, "src/m2.rs"], roles[(i + 1) % 3], tag="layout-file"))
    for i, u in enumerate(["target", "target/app", ".git/x", "targets", "w/target/src-tauri", "proj/.git"]):
        specs.append(layout_spec([None, "src/m1.rs", near_path(NEAR_MISS_DIRS[i], i)], roles[i % 3], under=u, tag="layout-under"))
    for i in range(len(EXCLUDED_TEMPLATES)):
        ex = [EXCLUDED_TEMPLATES[i], EXCLUDED_TEMPLATES[(i + 2) % len(EXCLUDED_TEMPLATES)]]
        specs.append(layout_spec([None, near_path(NEAR_MISS_DIRS[3 * i], i), "src/m2.rs"], roles[i % 3], excluded=ex, tag="layout-excluded"))
    return specs


def assign_paths(spec, rng):
    """random projects: move some files of a multi-file spec below near-miss directories / to near-miss file names"""
    n = spec.get("nfiles", 1)
    ps, used = [None] * n, {file_name(k) for k in range(n)}
    for k in range(n):
        if rng.random() < 0.6:
            for _ in range(5):
                cand = rng.choice(NEAR_MISS_FILES) if rng.random() < 0.15 else near_path(rng.choice(NEAR_MISS_DIRS), rng.randrange(7)).replace("/m.rs", "/m%d.rs" % k)
                # a file path may not be a directory of another file (src/target.rs next to src/target.rs/m2.rs)
                if cand not in used and not any(u.startswith(cand + "/") or cand.startswith(u + "/") for u in used):
                    ps[k] = cand
                    used.add(cand)
                    break
    spec["paths"] = ps
    return spec
