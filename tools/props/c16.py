"""C16 - only the tool's own files in the output directory are ever written or removed.

Correspondence: a scenario is a small world (project, configuration files, an output
directory pre-populated with foreign files and subdirectories whose names are close to
the reserved ones) and a history of 1-3 runs of the three entry points (real CLI
`generate`, real CLI `init`, build-script entry through harness/src/bin/c16.rs). Around
every run the whole world is snapshotted; the same run is evaluated by the extracted
model (coq/Model/C16Fs.v) on the snapshot taken before it; compared: the complete file
system afterwards (hence the sets of created / modified / deleted paths) and the run's
decision. Oracle: the extracted `c16_ok_b` (coq/Spec/C16Reserved.v) on the change set
the IMPLEMENTATION produced."""
import json
import os
import random

from tools import vlib
from tools.vlib import Outcome, sx
from tools.props import c16_world as W

MANIFEST = {
    "level_text": "Coq theorems (Properties/C16.v, no axioms) about a Gallina transcription of every file-system effect of the three entry points (FileWriter, GenerationCache::save, the two visualisation writes, run_generate, run_init, BuildSystem::run_generation with OutputManager::prepare_output_directory / cleanup_old_files / is_generated_file / finalize_generation, as repaired for C16-1 and C16-2) on an abstract file system, for every file system, every effective configuration, every analysis result and every history of runs, with no known-finding premise: every path that is not (a reserved name directly inside the run's output directory and not a project source) and is not the file init was pointed at keeps its bytes, no foreign file appears, no directory disappears and new directories are output directories or their ancestors; reserved_b is proved equivalent to the property text's list, is_generated_file to select only reserved names and never a project source; the witnesses of the two repaired defects are theorems that the files survive. The model is tied to /repo on every run by executing the real binary and the real build entry in pre-populated sandboxes and comparing the whole resulting tree and the decision with the model's.",
    "design_ref": "DESIGN.md section 5 C16",
    "level_note": "Partial: symbolic links, dot-dot components, permissions and concurrent writers are the operating system's and are outside the model (paths are normalised component lists; dot-dot behind a symbolic link to a directory is exercised only by the oracle-judged sandbox stream symlinks, where the run's directories are the OS-resolved ones; permissions and concurrent writers by nothing). Analysis result and rendered contents are parameters of a run (universally quantified in the theorems; taken from a reference generation in the correspondence). The configuration resolution (flag > file > default) is C19's; here the effective configuration is an input, recomputed in python for the sandboxes. Reserved is read as: a regular file DIRECTLY inside the output directory bearing a reserved name (the strict reading; nested files with reserved names count as foreign). Trusted: Coq kernel; the hand-written model's tie to the code is differential (bounded).",
    "technique": "Rocq/Coq proof over hand-written model + correspondence check (extracted OCaml vs real CLI binary and Rust build-entry driver in sandboxes)"
}

RULE = ("scenario = world layout (11 layouts: output beside / nested in / equal to the source directory / outside the app / "
        "deep missing parents / dot / trailing slash / absolute paths / working directory inside the project) x foreign files, "
        "directories and nested directories with reserved, near-miss and random fragment names in the output directory and "
        "elsewhere x history of 1-3 runs over {generate, init, build-script} with source switches (commands / other commands / "
        "events / no commands), zod/none/invalid mode, visualisation, force, configuration from flags / tauri.conf.json / "
        "typegen.json / defaults; plus a name sweep (every listed name alone and all together, as file and as directory, on "
        "both entries; several candidate configuration files at once (./tauri.conf.json, src-tauri/tauri.conf.json, ../tauri.conf.json each absent / without typegen section / with a section naming its own output directory / malformed: all 64 layouts, 4 runs each, foreign reserved-named files in every directory any candidate names); foreign entries carrying the names of the tool's transient / probe / auxiliary artefacts (.write_test, <name>.tmp in both spellings, .typecache.tmp, lock / swap / backup names: 23 names) in every shape (empty file, non-empty file, directory, symbolic link to a file / to a directory / dangling, read-only empty / non-empty) in, below and beside the output directory, on all four entries across 5-run histories with a regenerating run; besides the bytes the lstat facts (mode, mtime, inode, size) of every non-directory are compared before / after and a touched foreign file counts as changed; output and project paths spelled with dot-dot components behind a symbolic link to a directory with a different parent (link/../gen, ./link/../gen, link/./../gen, link/sub/../../gen, link/.., gen/../link/../out, absolute, doubled slash; relative / absolute / chained / nested / far links, a link into the project, plus controls: sibling link, link/gen, the link itself, dot-dot inside the target, no link) through -o, a -c file, tauri.conf.json read by the CLI, init -g and init -o, the build script's tauri.conf.json / typegen.json and the library entry, with foreign reserved-named files in the directory a lexical folding names and in the directory the OS reaches - the run's output directory is the OS-resolved one and the whole sandbox is judged; the configured output directory through every configuration source (-o flag, -c file, tauri.conf.json read by the CLI, tauri.conf.json and typegen.json read by the build script, the library entry generate_from_config) x 45 directory names a layer might normalise (backslash, trailing dot / space, dot-dot through existing directories, ./ prefix, doubled and trailing slashes, ~, $HOME, percent escapes, non-ASCII, glob and shell characters, names equal to reserved file names) with foreign reserved-named files in the directories a normaliser would pick; foreign files whose CONTENT resembles generated output (header at the start / after an offset / in the middle / truncated / CRLF / BOM, whole and partial copies of generated files) across 4-run histories with a regenerating run on all entries; build-script and CLI runs from working directories one and two levels below the detected project root (marker tauri.conf.json or src-tauri + typegen.json above the crate), relative and absolute output paths, foreign reserved-named files in every directory a relative output path could be anchored at; init / generate with crate directories of arbitrary names and several crates in one workspace with their own configurations and pre-populated output directories, -g / -v / -o combinations (the run's output directory for init is the -g argument); generations and failing runs (a directory under the name of each written file) with TMPDIR, HOME and XDG_* pointed at watched directories, TMPDIR on the sandbox's file system and on a second one (/dev/shm); every systematic near-miss of every reserved name - stem.x.ts, stem.ts.x, x.stem.ts, stem-x.ts, stemx.ts, xstem.ts, case and extension variants, .tmp siblings of the written files, affix words alone and with other extensions - all together as files, as directories, nested and beside the output directory, on both entries, 3 runs each) and a malformed stream (blocked or missing paths, broken JSON, directories under reserved names). "
        "Non-trivial = at least one run changed the tree or ran against foreign files; distinct = distinct scenarios")
TRUSTED = [
    "tools/props/c16_world.py: sandbox construction, snapshot/diff, python re-computation of the effective configuration (mirrors run_generate / load_configuration / detect_project) and of init's target path",
    "reference generation (real binary, --force, output outside the world) supplies the rendered contents given to the model; the timestamp line is stripped on both sides",
    "init's new configuration text is taken from the observation (its content is C19's subject); only its path is checked here",
]
ASSUMPTIONS = [
    "no permission faults, no concurrent writer in the output directory; symbolic links only as opaque foreign entries and as directory links on the way to the output / project directory (stream symlinks: the run's directories are what the OS resolves the configured strings to); no dangling link and no link under a reserved name on that way",
    "single-source-file projects in the sandboxes, so the serialised cache record is a deterministic function of sources and configuration (several files: C13/C14)",
]

CORPUS = os.path.join(vlib.VERIF, "corpus", "C16")


# ---------------------------------------------------------------- evaluation

def fs_sexp(snap):
    items = []
    for rel in sorted(snap):
        v = snap[rel]
        items.append([W.comps(rel), ["f", v] if v is not None else ["d"]])
    return items


def run_sexp(st):
    e = st["entry"]
    if e == "generate":
        entry = ["generate"]
    elif e == "api":
        entry = ["api"]
    elif e == "build":
        entry = ["build", bool(st["detected"])]
    else:
        entry = ["init", st["tgt"], bool(st["i_force"]), bool(st["i_parses"]), st["i_new"]]
    cfg = [st["out"], st["proj"], bool(st["lib_ok"]), bool(st["force"]), bool(st["viz"])]
    k = st["contents"]
    ana = [True, bool(st["has_cmds"]), k.get("types.ts", ""), k.get("commands.ts", ""),
           [k["events.ts"]] if "events.ts" in k else None, k.get("index.ts", ""),
           k.get("dependency-graph.txt", ""), k.get("dependency-graph.dot", ""), k.get(".typecache", "")]
    return [entry, cfg, ana]


def model_fs(sexp):
    out = {}
    for p, n in sexp:
        rel = "/".join(p)
        if rel in out:
            continue                      # first binding wins (lookup)
        out[rel] = n[1] if n[0] == "f" else None
    return out


def coarse(entry, outcome):
    """model outcome -> what is observable of the implementation"""
    if entry == "build":
        return "failed" if outcome == "failed" else "ok"
    return outcome


def evaluate(scenarios):
    """Run every scenario against the implementation, then the model and the oracle in two batches."""
    obs = vlib.pmap(W.execute, scenarios)
    broken = [o["machinery_error"] for o in obs if o.get("machinery_error")]
    if broken:
        raise vlib.BuildError("scenario construction failed (generator fault): %s" % broken[:3])
    hist, orac, index = [], [], []
    for i, o in enumerate(obs):
        if o.get("error"):
            continue
        for k, st in enumerate(o["steps"]):
            hist.append(sx([fs_sexp(st["before"]), [run_sexp(st)]]))
            d = st["diff"]
            orac.append(sx([st["out"], st["proj"], [st["tgt"]] if st["entry"] == "init" else None,
                            [W.comps(p) for p in d["changed_files"] + d.get("meta_changed", [])],
                            [W.comps(p) for p in d["new_dirs"]],
                            [W.comps(p) for p in d["gone_dirs"]]]))
            index.append((i, k))
    hres = vlib.run_runner("c16-history", hist)
    ores = vlib.run_runner("c16-oracle", orac)
    by = {}
    for key, h, r in zip(index, hres, ores):
        if h and h[0] == "runner-error":
            raise vlib.BuildError("runner: %s" % h)
        if r and r[0] == "runner-error":
            raise vlib.BuildError("runner: %s" % r)
        by[key] = (h[0], r)
    outs = []
    stats = {"runs": 0, "changed_paths": 0, "by_entry": {}, "by_decision": {},
             "scenarios_tmpdir_other_fs": sum(1 for o in obs if o.get("tmp_other_fs")),
             "scenarios_tmpdir_fallback_no_second_fs": sum(1 for o in obs if o.get("tmp_fallback"))}
    for i, (sc, o) in enumerate(zip(scenarios, obs)):
        case = sc
        if o.get("error"):
            outs.append(Outcome(case, False, False, detail={"harness_error": o["error"]}))
            continue
        corr = ok = True
        det = None
        nontriv = False
        steps_summary = []
        for k, st in enumerate(o["steps"]):
            (m_out, m_fs), (o_ok, o_bad) = by[(i, k)]
            mfs = model_fs(m_fs)
            this_corr = mfs == st["after"] and coarse(st["entry"], m_out) == st["decision"]
            this_ok = o_ok == "true"
            d = st["diff"]
            stats["runs"] += 1
            stats["changed_paths"] += len(d["changed_files"]) + len(d["new_dirs"])
            stats["by_entry"][st["entry"]] = stats["by_entry"].get(st["entry"], 0) + 1
            stats["by_decision"][st["decision"]] = stats["by_decision"].get(st["decision"], 0) + 1
            if d["changed_files"] or d["new_dirs"] or st["foreign_in_out"]:
                nontriv = True
            bad = ["/".join(p) for p in o_bad]
            summ = {"run": k, "entry": st["entry"], "decision": st["decision"], "model_decision": m_out,
                    "out": "/".join(st["out"]), "proj": "/".join(st["proj"]), "changed_files": d["changed_files"],
                    "touched_same_bytes": d.get("meta_changed", []),
                    "new_dirs": d["new_dirs"], "gone_dirs": d["gone_dirs"], "offending": bad, "oracle_ok": this_ok,
                    "corr": this_corr}
            if not this_corr:
                summ["model_vs_impl"] = W.dict_diff(mfs, st["after"])
                summ["impl_output"] = st["output"][-600:]
            steps_summary.append(summ)
            corr &= this_corr
            ok &= this_ok
        det = {"steps": steps_summary}
        kf = None                      # no recorded class is left (C16-1 and C16-2 are repaired)
        outs.append(Outcome(case, corr, ok, kf, det, nontriv))
    return outs, stats


def merge_stats(rep, name, stats):
    rep.extra.setdefault("distribution", {})[name] = stats


# ---------------------------------------------------------------- names stream (pure model + independent reading of the text)

def reserved_py(n):
    """The property text's list, written independently of the Coq definition."""
    stems = ["types", "commands", "events", "index", "schemas", "models", "bindings"]
    if any(n == s + e for s in stems for e in (".ts", ".d.ts")):
        return True
    if n in (".typecache", "dependency-graph.txt", "dependency-graph.dot"):
        return True
    return n.startswith("generated_") or "_generated" in n


def names_stream(rng, tier):
    names = list(W.ALL_NAMES) + list(W.SYSTEMATIC)
    for _ in range(600 if tier == "quick" else 20000):
        names.append(W.random_name(rng))
    names = sorted(set(names))
    res = vlib.run_runner("c16-names", [sx([n, []]) for n in names])
    outs = []
    for n, r in zip(names, res):
        model_reserved = r[0] == "true"
        model_gen = r[1] == "true"
        # corr: the extracted reserved_name_b is the text's list; ok: what cleanup may select is reserved
        outs.append(Outcome({"name": n}, model_reserved == reserved_py(n), (not model_gen) or reserved_py(n),
                            detail={"reserved_b": model_reserved, "is_generated_file": model_gen},
                            nontrivial=True))
    return outs


# ---------------------------------------------------------------- entry points

def prepare():
    vlib.build_harness("c16")
    vlib.build_runner("c16")
    vlib.build_repo_bin()


def corpus_cases():
    cases = []
    if os.path.isdir(CORPUS):
        for n in sorted(os.listdir(CORPUS)):
            if n.endswith(".json"):
                cases.append(json.load(open(os.path.join(CORPUS, n))))
    return cases


def run(rep):
    prepare()
    rng = random.Random(rep.seed)
    thorough = rep.tier == "thorough"
    streams = [
        ("corpus", corpus_cases()),
        ("sweep", W.sweep_scenarios() + W.below_root_scenarios(None, 0) + W.workspace_init_scenarios(None, 0)),
        ("outdir", W.outdir_scenarios() if thorough else W.outdir_scenarios()[::1]),
        ("symlinks", W.symlink_dotdot_scenarios(full=thorough)),
        ("candidates", W.candidate_scenarios() + (W.candidate_scenarios(rng, 200) if thorough else [])),
        ("artefacts", W.artefact_scenarios() + (W.artefact_scenarios(rng, 60) if thorough else W.artefact_scenarios(rng, 8))),
        ("content", W.content_scenarios() + (W.content_scenarios(rng, 40) if thorough else [])),
        ("roots", W.below_root_scenarios(rng, 60 if not thorough else 600)
                  + W.workspace_init_scenarios(rng, 60 if not thorough else 600)),
        ("structured", W.structured_scenarios(rng, 220 if not thorough else 4000)),
        ("malformed", W.malformed_scenarios(rng, 60 if not thorough else 800)),
    ]
    for name, scs in streams:
        outs, stats = evaluate(scs)
        stats["scenarios"] = len(scs)
        merge_stats(rep, name, stats)
        rep.add(name, outs)
    rep.add("names", names_stream(rng, rep.tier), sample_count=1)
    total = sum(s["cases"] for n, s in rep.streams.items() if n != "names")
    inside = sum(s["in_known_class"] for n, s in rep.streams.items() if n != "names")
    rep.extra["watched_environment"] = {
        "variables": sorted(W.ENV_DIRS) + ["current directory"], "second_file_system": W.SECOND_FS,
        "second_file_system_usable": any(d.get("scenarios_tmpdir_other_fs") for d in rep.extra.get("distribution", {}).values()),
        "note": "TMPDIR, HOME and XDG_* point into directories that are part of every snapshot; TMPDIR is on the second file system where a scenario says so, with a recorded fall-back to the sandbox's file system when none is writable"}
    rep.extra["outside_every_class"] = total - inside
    rep.extra["inside_a_class"] = inside


def replay(rep, payload):
    prepare()
    items = payload.get("disagreeing_cases") or [payload]
    for it in items:
        if "runs" in it and "case" not in it:
            it = {"stream": "replay", "case": it}            # a bare scenario file (corpus/C16/*.json)
        if it.get("stream") == "names":
            n = it["case"]["name"]
            r = vlib.run_runner("c16-names", [sx([n, []])])[0]
            rep.add("names", [Outcome({"name": n}, (r[0] == "true") == reserved_py(n),
                                      (r[1] != "true") or reserved_py(n), detail={"runner": r})])
        else:
            outs, _ = evaluate([it["case"]])
            rep.add(it.get("stream", "replay"), outs)
