"""C18, stream decl-model: the declaration model (coq/Model/C18Decl.v: which project types types.ts exports under a
mapping table - TypeCollector::collect_used_types with the nested discovery, the table never consulted) against the
real CLI binary on random projects, and the clause N is never declared (Gallina oracle c18_decl_ok) on the
implementation's declarations. A case carries the whole project, so a replay is deterministic."""
import json
import os
import re

from tools import vlib
from tools.vlib import Outcome, sx
from tools.props import c05_types as T

HEADER = "use serde::{Deserialize, Serialize};\nuse tauri::ipc::Channel;\nuse tauri::Emitter;\n\n"
P = lambda n, *a: ["p", n, list(a)]
STR, I64, I32, BOOL = P("String"), P("i64"), P("i32"), P("bool")
EXTERNAL = ["Uuid", "PathBuf"]          # names the project does not declare


def wrap(rng, leaf):
    k = rng.randrange(7)
    if k == 0:
        return leaf
    if k == 1:
        return P("Vec", leaf)
    if k == 2:
        return P("Option", leaf)
    if k == 3:
        return P("HashMap", STR, leaf)
    if k == 4:
        return ["t", [leaf, I32]]
    if k == 5:
        return P("Vec", P("Option", leaf))
    return P("Result", leaf, STR)


def gen_case(rng, i):
    k = rng.randint(2, 5)
    names = ["S%d" % j for j in range(k)]
    pool = names + EXTERNAL
    structs = []
    for n in names:
        fields = []
        for _ in range(rng.randint(0, 2)):
            leaf = P(rng.choice(pool)) if rng.random() < 0.7 else rng.choice([STR, I64, BOOL])
            fields.append(wrap(rng, leaf))
        structs.append([n, fields])
    params = [wrap(rng, P(rng.choice(pool))) for _ in range(rng.randint(0, 2))]
    ret = wrap(rng, P(rng.choice(pool))) if rng.random() < 0.6 else STR
    chans = [wrap(rng, P(rng.choice(pool)))] if rng.random() < 0.3 else []
    # an event whose payload is bound by a let with a plain type name (ts/generator.rs:157-181: its closure is added)
    events = [P(rng.choice(pool))] if rng.random() < 0.35 else []
    table = {"Uuid": rng.choice(["string", "number", "boolean"])}
    r = rng.random()
    if r < 0.45:
        table[rng.choice(names)] = rng.choice(["string", "number"])          # class C18-4 when that struct is reached
    elif r < 0.6:
        table["PathBuf"] = "string"
    return {"what": "decl-model", "structs": structs, "params": params, "ret": ret, "channels": chans, "events": events,
            "table": table, "mode": ["none", "zod"][i % 2]}


def source(c):
    out = [HEADER]
    for n, fields in c["structs"]:
        out.append("#[derive(Serialize, Deserialize)]\npub struct %s {\n%s}\n\n" % (
            n, "".join("    pub f%d: %s,\n" % (j, T.tts(f)) for j, f in enumerate(fields))))
    args = ["p%d: %s" % (j, T.tts(p)) for j, p in enumerate(c["params"])]
    args += ["ch%d: Channel<%s>" % (j, T.tts(p)) for j, p in enumerate(c["channels"])]
    out.append("#[tauri::command]\npub fn c0(%s) -> %s { todo!() }\n" % (", ".join(args), T.tts(c["ret"])))
    for j, e in enumerate(c.get("events", [])):
        out.append("\n#[tauri::command]\npub fn job%d(app: tauri::AppHandle) {\n    let id: %s = todo!();\n    app.emit(\"ev-%d\", id).unwrap();\n}\n" % (j, T.tts(e), j))
    return "".join(out)


def run_one(c):
    with vlib.Sandbox("c18d") as sb:
        sb.write("proj/src-tauri/src/lib.rs", source(c))
        cfg = {"project_path": sb.path("proj/src-tauri"), "output_path": sb.path("proj", "out"), "validation_library": c["mode"],
               "type_mappings": c["table"]}
        sb.write("cfg.json", json.dumps(cfg))
        rc, log = sb.cli(["generate", "-c", sb.path("cfg.json"), "--force"])
        files = {k: v.decode("utf-8", "replace") for k, v in sb.snapshot(os.path.join("proj", "out")).items()
                 if v is not None and k.endswith(".ts")}
    names = sorted(set(re.findall(r"export (?:interface|type|const) (\w+)", files.get("types.ts", ""))))
    return {"exit": rc, "log_tail": log[-200:] if rc else "", "declared": names}


def evaluate(cases):
    obs = vlib.pmap(run_one, cases)
    sexps = []
    for c, o in zip(cases, obs):
        sexps.append(sx([c["mode"] == "zod", [[k, v] for k, v in sorted(c["table"].items())],
                         [[n, [T.sx_ty(f) for f in fs]] for n, fs in c["structs"]],
                         [T.sx_ty(t) for t in c["params"] + [c["ret"]] + c["channels"] + c.get("events", [])], o["declared"]]))
    res = vlib.run_runner("c18-declared", sexps)
    outs = []
    for c, o, (model_names, clause_ok, in_class) in zip(cases, obs, res):
        cand = set()
        for n, _ in c["structs"]:
            cand |= {n, n + "Schema"}
        seen = sorted(x for x in o["declared"] if x in cand)
        o["declared_project_types"] = seen
        o["model_declared_project_types"] = sorted(model_names)
        corr = o["exit"] == 0 and seen == sorted(model_names)
        okb = clause_ok == "true"
        kf = "C18-4" if in_class == "true" else None
        outs.append(Outcome(c, corr, okb, kf=kf, detail=o, nontrivial=bool(seen)))
    return outs


def cases_for(tier, rng):
    return [gen_case(rng, i) for i in range(600 if tier == "thorough" else 120)]
