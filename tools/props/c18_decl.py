"""C18, stream decl-model: the declaration model (coq/Model/C18Decl.v: which project types types.ts exports under a
mapping table - TypeCollector::collect_used_types with the nested discovery, the table never consulted) against the
real CLI binary on random projects, and the clause N is never declared (Gallina oracle c18_decl_ok) on the
implementation's declarations. A case carries the whole project, so a replay is deterministic."""
import json
import os
import re

from tools import vlib
from tools.vlib import Outcome, sx
from tools.props import c05_types as T

HEADER = "use serde::{Deserialize, Serialize};\nuse tauri::ipc::Channel;\nuse tauri::Emitter;\n\n"
P = lambda n, *a: ["p", n, list(a)]
STR, I64, I32, BOOL = P("String"), P("i64"), P("i32"), P("bool")
EXTERNAL = ["Uuid", "PathBuf"]          # names the project does not declare


def wrap(rng, leaf):
    k = rng.randrange(7)
    if k == 0:
        return leaf
    if k == 1:
        return P("Vec", leaf)
    if k == 2:
        return P("Option", leaf)
    if k == 3:
        return P("HashMap", STR, leaf)
    if k == 4:
        return ["t", [leaf, I32]]
    if k == 5:
        return P("Vec", P("Option", leaf))
    return P("Result", leaf, STR)


# one type expression that mentions BOTH a mapped plain name and a project type (class of seeded/C18-11: a dependency
# walk that drops the whole field when any of its names is mapped loses the project type)
COMBOS = ["map_key", "map_val", "tuple", "tuple_rev", "vec_tuple", "map_vec", "result", "opt_tuple", "nested_map"]


def combo(kind, mapped, proj):
    if kind == "map_key":
        return P("HashMap", mapped, proj)
    if kind == "map_val":
        return P("HashMap", STR, ["t", [mapped, proj]])
    if kind == "tuple":
        return ["t", [mapped, proj]]
    if kind == "tuple_rev":
        return ["t", [proj, I32, mapped]]
    if kind == "vec_tuple":
        return P("Vec", ["t", [mapped, proj]])
    if kind == "map_vec":
        return P("HashMap", mapped, P("Vec", proj))
    if kind == "result":
        return P("Result", ["t", [proj, mapped]], STR)
    if kind == "opt_tuple":
        return P("Option", ["t", [P("Vec", mapped), P("Option", proj)]])
    if kind == "nested_map":
        return P("HashMap", STR, P("HashMap", mapped, proj))
    raise ValueError(kind)


def chain_cases():
    """deterministic: Root (parameter) -> field combining the mapped external name with Inner -> Inner -> field combining it with
    Leaf; Inner and Leaf are reachable ONLY through such fields. Every combination shape x mode x (external name mapped | a table that
    maps only an absent name)."""
    out = []
    for i, kind in enumerate(COMBOS):
        for mode in ("none", "zod"):
            for table in ({"Uuid": ["string", "number", "boolean"][i % 3]}, {"Uuid": "string", "PathBuf": "string"}, {"Absent": "string"}):
                k2 = COMBOS[(i + 3) % len(COMBOS)]
                structs = [["Root", [combo(kind, P("Uuid"), P("Inner")), STR]],
                           ["Inner", [I64, combo(k2, P("Uuid"), P("Leaf"))]],
                           ["Leaf", [P("Option", P("Uuid"))]],
                           ["Unused", [P("Leaf")]]]
                out.append({"what": "decl-model", "structs": structs, "params": [P("Root")], "ret": STR, "channels": [], "events": [],
                            "table": table, "mode": mode, "shape": kind + "+" + k2})
    return out


def gen_case(rng, i):
    k = rng.randint(2, 5)
    names = ["S%d" % j for j in range(k)]
    pool = names + EXTERNAL
    structs = []
    for n in names:
        fields = []
        for _ in range(rng.randint(0, 2)):
            leaf = P(rng.choice(pool)) if rng.random() < 0.7 else rng.choice([STR, I64, BOOL])
            if rng.random() < 0.35:      # a mapped external name and a project type in ONE field type
                fields.append(combo(rng.choice(COMBOS), P(rng.choice(EXTERNAL)), P(rng.choice(names))))
            else:
                fields.append(wrap(rng, leaf))
        structs.append([n, fields])
    params = [wrap(rng, P(rng.choice(pool))) for _ in range(rng.randint(0, 2))]
    ret = wrap(rng, P(rng.choice(pool))) if rng.random() < 0.6 else STR
    chans = [wrap(rng, P(rng.choice(pool)))] if rng.random() < 0.3 else []
    # an event whose payload is bound by a let with a plain type name (ts/generator.rs:157-181: its closure is added)
    events = [P(rng.choice(pool))] if rng.random() < 0.35 else []
    table = {"Uuid": rng.choice(["string", "number", "boolean"])}
    r = rng.random()
    if r < 0.45:
        table[rng.choice(names)] = rng.choice(["string", "number"])          # class C18-4 when that struct is reached
    elif r < 0.6:
        table["PathBuf"] = "string"
    return {"what": "decl-model", "structs": structs, "params": params, "ret": ret, "channels": chans, "events": events,
            "table": table, "mode": ["none", "zod"][i % 2]}


def source(c):
    out = [HEADER]
    for n, fields in c["structs"]:
        out.append("#[derive(Serialize, Deserialize)]\npub struct %s {\n%s}\n\n" % (
            n, "".join("    pub f%d: %s,\n" % (j, T.tts(f)) for j, f in enumerate(fields))))
    args = ["p%d: %s" % (j, T.tts(p)) for j, p in enumerate(c["params"])]
    args += ["ch%d: Channel<%s>" % (j, T.tts(p)) for j, p in enumerate(c["channels"])]
    out.append("#[tauri::command]\npub fn c0(%s) -> %s { todo!() }\n" % (", ".join(args), T.tts(c["ret"])))
    for j, e in enumerate(c.get("events", [])):
        out.append("\n#[tauri::command]\npub fn job%d(app: tauri::AppHandle) {\n    let id: %s = todo!();\n    app.emit(\"ev-%d\", id).unwrap();\n}\n" % (j, T.tts(e), j))
    return "".join(out)


def run_one(c):
    """the project generated with the table and - same project - without any table"""
    res = {}
    with vlib.Sandbox("c18d") as sb:
        sb.write("proj/src-tauri/src/lib.rs", source(c))
        for tag, table in (("with", c["table"]), ("without", None)):
            cfg = {"project_path": sb.path("proj/src-tauri"), "output_path": sb.path("proj", "out-" + tag), "validation_library": c["mode"]}
            if table is not None:
                cfg["type_mappings"] = table
            sb.write("cfg-%s.json" % tag, json.dumps(cfg))
            rc, log = sb.cli(["generate", "-c", sb.path("cfg-%s.json" % tag), "--force"])
            files = {k: v.decode("utf-8", "replace") for k, v in sb.snapshot(os.path.join("proj", "out-" + tag)).items()
                     if v is not None and k.endswith(".ts")}
            res[tag] = (rc, log, sorted(set(re.findall(r"export (?:interface|type|const) (\w+)", files.get("types.ts", "")))))
    rc, log, names = res["with"]
    return {"exit": rc or res["without"][0], "log_tail": log[-200:] if rc else "", "declared": names, "declared_without_table": res["without"][2]}


def evaluate(cases):
    obs = vlib.pmap(run_one, cases)
    sexps = []
    for c, o in zip(cases, obs):
        sexps.append(sx([c["mode"] == "zod", [[k, v] for k, v in sorted(c["table"].items())],
                         [[n, [T.sx_ty(f) for f in fs]] for n, fs in c["structs"]],
                         [T.sx_ty(t) for t in c["params"] + [c["ret"]] + c["channels"] + c.get("events", [])], o["declared"], o["declared_without_table"]]))
    res = vlib.run_runner("c18-declared", sexps)
    outs = []
    for c, o, (model_names, clause_ok, in_class, frame_ok) in zip(cases, obs, res):
        cand = set()
        for n, _ in c["structs"]:
            cand |= {n, n + "Schema"}
        seen = sorted(x for x in o["declared"] if x in cand)
        o["declared_project_types"] = seen
        o["model_declared_project_types"] = sorted(model_names)
        o["only_with_table"] = sorted(set(o["declared"]) - set(o["declared_without_table"]))
        o["only_without_table"] = sorted(set(o["declared_without_table"]) - set(o["declared"]))
        o["decl_frame_ok"], o["decl_clause_ok"] = frame_ok, clause_ok
        corr = o["exit"] == 0 and seen == sorted(model_names)
        # property: (never declared) no key of the table is exported, and (frame, C18_declared_frame) the table changes
        # nothing about the exported declarations: same set with and without it
        okb = clause_ok == "true" and frame_ok == "true"
        # C18-4 is the class of the first clause only; a broken frame is never covered by it
        kf = "C18-4" if in_class == "true" and frame_ok == "true" else None
        outs.append(Outcome(c, corr, okb, kf=kf, detail=o, nontrivial=bool(seen)))
    return outs


def cases_for(tier, rng):
    return chain_cases() + [gen_case(rng, i) for i in range(600 if tier == "thorough" else 120)]
