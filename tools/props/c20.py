"""C20 - dependency ordering routines. Correspondence: equal lists between
TypeDependencyGraph::topological_sort_types and Model/Topo.v when the model is
fed the hash-set iteration orders the implementation actually used; for
DependencyResolver (orders not observable) Ok/Err agreement, which
C20_kahn_ok_iff shows to be order independent. Oracle: Spec/P20.v."""
import itertools
import random

from tools import vlib
from tools.vlib import Outcome, sx

MANIFEST = {
    "level_text": "Coq theorems (Properties/C20.v, no axioms) about a statement-by-statement Gallina transcription of topological_visit/topological_sort_types and of resolve_build_order, for every graph, request set and hash iteration order: termination, exactly-once, exactly the reachable set, every direct dependency first unless on a common cycle (transitively on acyclic graphs), Kahn Ok iff acyclic and Ok lists valid. The model is tied to /repo on every run by running both on the same graphs: the implementation's output must equal the model's under the hash iteration orders the process actually had or under sorted name order (the tree sorts before iterating since the C13 repair; the theorems hold for every order), exhaustively on small graphs.",
    "design_ref": "DESIGN.md section 5 C20",
    "level_note": "Trusted: Coq kernel; the hand-written model's tie to the code is differential (bounded); run-time oracle proved equivalent to the statements (C20_*_oracle_exact); hash orders of DependencyResolver are not observable so only Ok/Err and validity are compared there.",
    "technique": "Rocq/Coq proof over hand-written model + correspondence check (extracted OCaml vs Rust harness)"
}

RULE = ("topo: every digraph on <=3 (quick) / <=4 (thorough) labelled nodes incl. self-loops x every non-empty request set, "
        "plus random graphs up to 12 nodes, each evaluated under 3 fresh RandomState keys, plus chains / ladders / trees / fans / large cycles of 40-200 (thorough: -500) nodes; kahn: every dependency multiset "
        "drawn from those digraphs, the same with every edge doubled and tripled, random multigraphs with duplicate edges, and long chains / ladders; "
        "resolver-history: every history of add_node / add_dependency / resolve_build_order of length <=5 (thorough 6) on one resolver over two nodes sharing a name, <=3 (4) over three, "
        "plus random histories over up to 9 nodes whose (name, path, kind) identities collide on the name; graph-history: every history of add_dependency / add_dependencies / "
        "topological_sort_types of length <=3 (4) over two names plus random ones over up to 9 names, interleaved with add_resolved_type (is_enum true / false) and add_type_definition; "
        "size thresholds (streams *-size, topo-huge): complete digraphs with and without self-loops on 8-24 (thorough -40) nodes, dense random graphs on 13-26 nodes, 150-600 (thorough -1500) self-recursive / pairwise recursive types flat and under one root, chains of recursive types, two-way chains, all-back-to-root and long cycles of 60-110 nodes with the oracle and 300-700 (thorough -2000) judged through the model alone; for the resolver transitive tournaments, complete digraphs, stars, isolated nodes and self-loops up to 600 (1500) nodes; both history streams build such graphs on one object, sort / resolve, extend and sort / resolve again; every sort runs in a child process on a 64 MB stack, a death or stall of which is outcome PANIC for the case in flight; "
        "node labels include module-qualified spellings (a::T<k>, b::T<k>) sharing their last segment with plain labels; node paths are drawn from spellings of the same file (backslashes, ./ prefix, doubled slash, case, empty). A case is non-trivial when it has at least "
        "one edge; distinct = distinct (graph, request) pairs")
TRUSTED = ["Spec/P20.v boolean checkers are the run-time oracle applied to the implementation's answers; proved equivalent to the Prop statements (C20_topo_oracle_exact, C20_kahn_oracle_exact)"]
ASSUMPTIONS = ["HashSet iteration order of an unmodified set is stable between two traversals (used to feed the observed order to the model)", "the implementation iterates each set either in its hash order or in sorted name order; any other deterministic order would show as a correspondence break (no-failing-input-found), not as a property violation"]


def all_graphs(n):
    pairs = [(a, b) for a in range(n) for b in range(n)]
    for mask in range(1 << len(pairs)):
        yield [p for i, p in enumerate(pairs) if mask >> i & 1]


def adj_of(n, edges):
    adj = {}
    for a, b in edges:
        adj.setdefault(a, []).append(b)
    return [[a, adj[a]] for a in sorted(adj)]


def topo_cases(tier, rng):
    cases = []
    maxn = 3 if tier == "quick" else 4
    for n in range(1, maxn + 1):
        for edges in all_graphs(n):
            # graphs on exactly n nodes are a superset of smaller ones; keep all (labelled)
            if n < maxn and n > 1:
                continue
            for k in range(1, 1 << n):
                req = [i for i in range(n) if k >> i & 1]
                cases.append({"adj": adj_of(n, edges), "req": req, "reps": 3, "n": n})
    nrand = 5000 if tier == "quick" else 200000
    for _ in range(nrand):
        n = rng.randint(2, 12)
        dens = rng.choice([0.1, 0.2, 0.35, 0.6])
        edges = [(a, b) for a in range(n) for b in range(n) if rng.random() < dens]
        req = [i for i in range(n) if rng.random() < 0.4] or [rng.randrange(n)]
        # requests and dependencies may name nodes without an entry in the map
        if rng.random() < 0.2:
            req.append(n + rng.randint(0, 2))
        if rng.random() < 0.3:
            # relabel some nodes with module-qualified spellings (a::T<k>, b::T<k>) next to plain T<k>
            m = {i: rng.choice([i, 100 + rng.randrange(n), 200 + rng.randrange(n)]) for i in range(n)}
            if len(set(m.values())) == n:
                edges = [(m[a], m[b]) for a, b in edges]
                req = [m.get(r, r) for r in req]
        cases.append({"adj": adj_of(n, edges), "req": sorted(set(req)), "reps": 3, "n": n})
    # beyond the small scope: long chains, ladders, deep trees and large cycles (the theorems are
    # unbounded; a depth guard or a quadratic blow-up only shows at sizes like these)
    sizes = [40, 70, 130] if tier == "quick" else [40, 66, 70, 129, 130, 200, 300, 500]
    for n in sizes:
        chain = [(i, i + 1) for i in range(n - 1)]
        shapes = {
            "chain": chain,
            "chain+back": chain + [(n - 1, 0)],
            "ladder": chain + [(i, i + 2) for i in range(n - 2)],
            "tree": [(i, 2 * i + 1) for i in range(n) if 2 * i + 1 < n] + [(i, 2 * i + 2) for i in range(n) if 2 * i + 2 < n],
            "fan": [(0, i) for i in range(1, n)] + [(i, n - 1) for i in range(1, n - 1)],
        }
        for name, edges in shapes.items():
            for req in ([0], list(range(0, n, 7))):
                cases.append({"adj": adj_of(n, edges), "req": req, "reps": 2, "n": n, "big": name})
    for i, c in enumerate(cases):
        c["id"] = i
    return cases


def kahn_cases(tier, rng):
    cases = []
    maxn = 3 if tier == "quick" else 4
    for edges in all_graphs(maxn):
        cases.append({"nodes": list(range(maxn)), "deps": [list(e) for e in edges], "reps": 2})
    nrand = 3000 if tier == "quick" else 100000
    for _ in range(nrand):
        n = rng.randint(1, 10)
        m = rng.randint(0, 2 * n)
        shape = rng.random()
        deps = []
        for _ in range(m):
            a, b = rng.randrange(n), rng.randrange(n)
            if shape < 0.5 and a <= b:      # mostly acyclic: edges go from higher to lower
                if a == b:
                    continue
                a, b = b, a
            deps.append([a, b])
            if rng.random() < 0.15:
                deps.append([a, b])          # duplicate dependency (Vec keeps both)
        extra = [n + i for i in range(rng.randint(0, 2))]
        cases.append({"nodes": list(range(n)) + extra, "deps": deps, "reps": 2})
    # every edge doubled / tripled (the dependency list is a Vec: the same pair may be recorded several
    # times), on all DAGs and some cyclic graphs of the small scope
    for edges in all_graphs(3):
        for mult in (2, 3):
            cases.append({"nodes": list(range(3)), "deps": [list(e) for e in edges for _ in range(mult)], "reps": 1})
    # long chains and ladders
    for n in ([60, 150] if tier == "quick" else [60, 150, 400]):
        chain = [[i, i + 1] for i in range(n - 1)]
        cases.append({"nodes": list(range(n)), "deps": chain, "reps": 1})
        cases.append({"nodes": list(range(n)), "deps": chain + [[n - 1, 0]], "reps": 1})
        cases.append({"nodes": list(range(n)), "deps": chain + [[i, i + 2] for i in range(n - 2)] + chain, "reps": 1})
    for i, c in enumerate(cases):
        c["id"] = i
    return cases


def eval_topo(cases):
    obs = vlib.run_harness("c20-topo", cases, per_case_timeout=10)
    sexps, index = [], []
    for c, o in zip(cases, obs):
        if "panic" in o or o.get("skipped"):
            continue
        for k, r in enumerate(o["runs"]):
            # the model is evaluated under the hash iteration orders the process had and under
            # sorted name order; the implementation must equal the model under one of them
            # (C20's theorems hold for every order, so either validates the model)
            sexps.append(sx([r["adj"], r["req"], r["out"]]))
            index.append((c["id"], k, "hash"))
            sexps.append(sx([r["adj_sorted"], r["req_sorted"], r["out"]]))
            index.append((c["id"], k, "sorted"))
    res = vlib.run_runner("c20-topo", sexps)
    by = {}
    for key, r in zip(index, res):
        by[key] = r
    outs = []
    for c, o in zip(cases, obs):
        case = {k: c[k] for k in ("adj", "req")}
        if o.get("skipped"):
            continue
        if "panic" in o:
            outs.append(Outcome(case, False, False, detail={"impl": "PANIC " + o["panic"]}))
            continue
        corr = ok = True
        det = None
        for k, r in enumerate(o["runs"]):
            this_corr = False
            model_outs = {}
            for which in ("hash", "sorted"):
                m = by[(c["id"], k, which)]
                if m and m[0] == "runner-error":
                    raise vlib.BuildError("runner: %s" % m)
                model_outs[which] = [int(x) for x in m[0][0]] if m[0] else None
                this_corr = this_corr or model_outs[which] == r["out"]
            this_ok = m[1] == "true"       # the oracle looks at the graph and the output only
            if det is None or not (this_corr and this_ok):
                det = {"orders": {"adj": r["adj"], "req": r["req"]}, "impl": r["out"], "model": model_outs,
                       "oracle_ok": this_ok}
            corr &= this_corr
            ok &= this_ok
        outs.append(Outcome(case, corr, ok, detail=det, nontrivial=bool(c["adj"])))
    return outs


def eval_kahn(cases):
    obs = vlib.run_harness("c20-kahn", cases, per_case_timeout=10)
    sexps, index = [], []
    for c, o in zip(cases, obs):
        if "panic" in o or o.get("skipped"):
            continue
        for k, r in enumerate(o["runs"]):
            res = [r["out"]] if r["ok"] else None
            sexps.append(sx([c["nodes_all"], c["deps"], res]))
            index.append((c["id"], k))
    res = vlib.run_runner("c20-kahn", sexps)
    by = dict(zip(index, res))
    outs = []
    for c, o in zip(cases, obs):
        case = {k: c[k] for k in ("nodes", "deps")}
        if o.get("skipped"):
            continue
        if "panic" in o:
            outs.append(Outcome(case, False, False, detail={"impl": "PANIC " + o["panic"]}))
            continue
        corr = ok = True
        det = None
        for k, r in enumerate(o["runs"]):
            m = by[(c["id"], k)]
            if m and m[0] == "runner-error":
                raise vlib.BuildError("runner: %s" % m)
            model_ok = m[0][0] == "ok"
            this_corr = model_ok == r["ok"]
            this_ok = m[1] == "true"
            if det is None or not (this_corr and this_ok):
                det = {"impl": r, "model": m[0], "oracle_ok": this_ok}
            corr &= this_corr
            ok &= this_ok
        outs.append(Outcome(case, corr, ok, detail=det, nontrivial=bool(c["deps"])))
    return outs


# ---------------------------------------------------------------- histories on one object
def hist_cases(tier, rng):
    """DependencyResolver histories: add_node / add_dependency / resolve interleaved on one resolver;
    node identity is (name, path, kind) and distinct nodes may share a name."""
    cases = []
    clash2 = [[0, 0, 1], [0, 1, 1]]                      # same name, two files
    clash3 = [[0, 0, 1], [0, 1, 1], [0, 0, 4]]           # ... and a module of the same name
    slash2 = [[0, 0, 1], [0, 3, 1]]                      # one file spelled src/p0.rs and src\p0.rs
    modules2 = [[0, 0, 4], [1, 1, 4]]                    # two modules, every dependency an Import record
    def alphabet(n):
        return [["n", i] for i in range(n)] + [["d", a, b] for a in range(n) for b in range(n)] + [["r"]]
    for idents, maxlen in ((clash2, 5 if tier == "quick" else 6), (clash3, 3 if tier == "quick" else 4),
                           (slash2, 4 if tier == "quick" else 5)):
        al = alphabet(len(idents))
        for L in range(1, maxlen + 1):
            for ops in itertools.product(al, repeat=L):
                if ops[-1] != ["r"]:
                    continue
                cases.append({"idents": idents, "ops": [list(o) for o in ops]})
    # every kind of dependency record between every pair of node kinds, acyclic and cyclic
    for ka in range(5):
        for kb in range(5):
            for dt in range(5):
                ids = [[0, 0, ka], [1, 1, kb], [2, 2, ka]]
                cases.append({"idents": ids, "ops": [["d", 0, 1, dt], ["d", 1, 2, dt], ["r"]]})
                cases.append({"idents": ids, "ops": [["d", 0, 1, dt], ["d", 1, 0, dt], ["r"]]})
                cases.append({"idents": ids, "ops": [["d", 0, 1, dt], ["d", 1, 2, (dt + 1) % 5], ["d", 2, 0, dt], ["r"]]})
    al_m = [["n", 0], ["n", 1], ["d", 0, 1, 3], ["d", 1, 0, 3], ["r"]]
    for L in range(1, 5):
        for ops in itertools.product(al_m, repeat=L):
            if ops[-1] == ["r"]:
                cases.append({"idents": modules2, "ops": [list(o) for o in ops]})
    # every small-scope graph, built completely then resolved, with all nodes sharing one name, and with
    # nodes that differ only in how their path is spelled
    spell3 = [[0, 0, 1], [0, 3, 1], [0, 4, 1]]
    user3 = [[1, 8, 1], [2, 9, 1], [3, 9, 2]]
    for edges in all_graphs(3):
        for idents in (clash3, spell3, user3):
            cases.append({"idents": idents, "ops": [["n", i] for i in range(3)] + [["d", a, b] for a, b in edges] + [["r"]]})
            cases.append({"idents": idents, "ops": [["d", a, b] for a, b in edges] + [["r"]]})
    nrand = 3000 if tier == "quick" else 60000
    for _ in range(nrand):
        n = rng.randint(2, 9)
        names = rng.choice([1, 2, 3, n])
        idents = []
        while len(idents) < n:
            t = [rng.randrange(names), rng.randrange(10), rng.randrange(5)]
            if t not in idents:
                idents.append(t)
        acyclic = rng.random() < 0.6
        ops = []
        for _ in range(rng.randint(2, 3 * n)):
            x = rng.random()
            if x < 0.3:
                ops.append(["n", rng.randrange(n)])
            elif x < 0.75:
                a, b = rng.randrange(n), rng.randrange(n)
                if acyclic:
                    if a == b:
                        continue
                    a, b = max(a, b), min(a, b)
                ops.append(["d", a, b, rng.randrange(5)])
            else:
                ops.append(["r"])
                if rng.random() < 0.5:
                    ops.append(["n", rng.randrange(n)])      # resolve, add_node, resolve ...
                    ops.append(["r"])
        ops.append(["r"])
        cases.append({"idents": idents, "ops": ops})
    for i, c in enumerate(cases):
        c["id"] = i
    return cases


def eval_hist(cases):
    obs = vlib.run_harness("c20-hist", cases, per_case_timeout=10)
    sexps, index = [], []
    for c, o in zip(cases, obs):
        if "panic" in o or o.get("skipped"):
            continue
        unknown = len(c["idents"]) + 1
        outs = [([[x if x >= 0 else unknown for x in r["out"]]] if r["ok"] else None) for r in o["outs"]]
        sexps.append(sx([[o[:3] if o[0] == "d" else o for o in c["ops"]], outs]))
        index.append(c["id"])
    by = dict(zip(index, vlib.run_runner("c20-hist", sexps)))
    res = []
    for c, o in zip(cases, obs):
        case = {k: c[k] for k in ("idents", "ops")}
        if o.get("skipped"):
            continue
        if "panic" in o:
            res.append(Outcome(case, False, False, detail={"impl": "PANIC " + o["panic"]}))
            continue
        m = by[c["id"]]
        if m and m[0] == "runner-error":
            raise vlib.BuildError("runner: %s" % m)
        model = [r[0] == "ok" for r in m[0]]
        corr = model == [r["ok"] for r in o["outs"]]
        ok = m[1] == "true"
        res.append(Outcome(case, corr, ok, detail={"impl": o["outs"], "model": m[0], "oracle_ok": ok},
                           nontrivial=sum(1 for x in c["ops"] if x[0] == "r") > 1 or any(x[0] == "d" for x in c["ops"])))
    return res


def ghist_cases(tier, rng):
    """TypeDependencyGraph histories: add_dependency / add_dependencies / topological_sort_types on one
    graph. Node names T10..T99: sorted name order is numeric order (what the model traverses)."""
    cases = []
    ns = [10, 11]
    subsets = [[], [10], [11], [10, 11]]
    al = ([["d", a, b] for a in ns for b in ns] + [["ds", a, s] for a in ns for s in subsets] + [["s", s] for s in subsets[1:]]
          + [["rt", a, e] for a in ns for e in (True, False)] + [["td", a] for a in ns])
    for L in range(1, (3 if tier == "quick" else 4) + 1):
        for ops in itertools.product(al, repeat=L):
            if ops[-1][0] != "s":
                continue
            cases.append({"ops": [list(o) for o in ops]})
    # every digraph on three names with a partially populated definitions map (subset = graph index mod 8,
    # so every subset meets 64 graphs), all three / two of them requested
    for gi, edges in enumerate(all_graphs(3)):
        pre = [["td", 10 + k] for k in range(3) if gi % 8 >> k & 1]
        deps = [["d", 10 + a, 10 + b] for a, b in edges]
        cases.append({"ops": pre + deps + [["s", [10, 11, 12]], ["s", [10 + gi % 3, 10 + (gi + 1) % 3]]]})
    # the same small scope over a plain label and a qualified label with the same last segment
    qs = [10, 110]
    qsub = [[], [10], [110], [10, 110]]
    qal = [["d", a, b] for a in qs for b in qs] + [["ds", a, s] for a in qs for s in qsub] + [["s", s] for s in qsub[1:]]
    for L in range(1, 4):
        for ops in itertools.product(qal, repeat=L):
            if ops[-1][0] == "s":
                cases.append({"ops": [list(o) for o in ops]})
    nrand = 3000 if tier == "quick" else 60000
    for _ in range(nrand):
        n = rng.randint(2, 9)
        pool = rng.sample(range(10, 100), n)
        if rng.random() < 0.5:
            # module-qualified labels sharing their last segment with a plain label (and each other)
            for k in rng.sample(pool, min(len(pool), rng.randint(1, 3))):
                pool.append(100 + k)
                if rng.random() < 0.5:
                    pool.append(200 + k)
        ops = []
        if rng.random() < 0.4:
            # a partially populated definitions / resolved-types map (external names have no entry)
            for k in rng.sample(pool, rng.randint(1, len(pool))):
                ops.append(rng.choice([["td", k], ["rt", k, rng.random() < 0.5]]))
        for _ in range(rng.randint(2, 3 * n)):
            x = rng.random()
            if x < 0.5:
                ops.append(["d", rng.choice(pool), rng.choice(pool)])
            elif x < 0.62:
                ops.append(["ds", rng.choice(pool), sorted(set(rng.choice(pool) for _ in range(rng.randint(0, 3))))])
            elif x < 0.72:
                # annotations of the other maps of the struct (resolved StructInfo, definition path)
                ops.append(rng.choice([["rt", rng.choice(pool), rng.random() < 0.6], ["td", rng.choice(pool)]]))
            else:
                ops.append(["s", sorted(set(rng.choice(pool) for _ in range(rng.randint(1, 3))))])
                if rng.random() < 0.4:                      # the same request again after one more edge
                    ops.append(["d", rng.choice(pool), rng.choice(pool)])
                    ops.append(ops[-2])
        ops.append(["s", sorted(set(rng.choice(pool) for _ in range(rng.randint(1, 3))))])
        cases.append({"ops": ops})
    for i, c in enumerate(cases):
        c["id"] = i
    return cases


def eval_ghist(cases):
    obs = vlib.run_harness("c20-ghist", cases, per_case_timeout=10)
    sexps, index = [], []
    for c, o in zip(cases, obs):
        if "panic" in o or o.get("skipped"):
            continue
        sexps.append(sx([c["ops"], o["outs"]]))
        index.append(c["id"])
    by = dict(zip(index, vlib.run_runner("c20-ghist", sexps)))
    res = []
    for c, o in zip(cases, obs):
        case = {"ops": c["ops"]}
        if o.get("skipped"):
            continue
        if "panic" in o:
            res.append(Outcome(case, False, False, detail={"impl": "PANIC " + o["panic"]}))
            continue
        m = by[c["id"]]
        if m and m[0] == "runner-error":
            raise vlib.BuildError("runner: %s" % m)
        model = [[int(x) for x in r[0]] if r else None for r in m[0]]
        corr = model == o["outs"]
        ok = m[1] == "true"
        res.append(Outcome(case, corr, ok, detail={"impl": o["outs"], "model": model, "oracle_ok": ok},
                           nontrivial=any(x[0] in ("d", "ds") for x in c["ops"])))
    return res


def prep_kahn(cases):
    for c in cases:
        ns = list(c["nodes"])
        for a, b in c["deps"]:
            for x in (a, b):
                if x not in ns:
                    ns.append(x)
        c["nodes_all"] = ns
    return cases


def corpus_items():
    """corpus/C20/*.json: minimised past misses, {"stream": ..., "case": ...}, replayed first"""
    import glob
    import json
    import os
    items = []
    for path in sorted(glob.glob(os.path.join(vlib.VERIF, "corpus", "C20", "*.json"))):
        with open(path) as f:
            it = json.load(f)
        it["file"] = os.path.basename(path)
        items.append(it)
    return items


def eval_stream(stream, cases):
    from tools.props import c20_size
    base = stream.replace("corpus-", "")
    if base in ("topo", "topo-size"):
        return eval_topo(cases)
    if base == "topo-huge":
        return c20_size.eval_topo_huge(cases)
    if base in ("resolver-history", "resolver-history-size"):
        return eval_hist(cases)
    if base in ("graph-history", "graph-history-size"):
        return eval_ghist(cases)
    return eval_kahn(prep_kahn(cases))


def run(rep):
    from tools.props import c20_size
    vlib.build_harness("c20")
    vlib.build_runner("c20")
    # corpus first (one harness process per case: a case that kills the process costs no other case)
    for i, it in enumerate(corpus_items()):
        c = dict(it["case"])
        c["id"] = i
        c.setdefault("reps", 2)
        rep.add("corpus-" + it["stream"], eval_stream(it["stream"], [c]), sample_count=1)
    rng = random.Random(rep.seed)
    rep.add("topo", eval_topo(topo_cases(rep.tier, rng)))
    rep.add("kahn", eval_kahn(prep_kahn(kahn_cases(rep.tier, rng))))
    rep.add("resolver-history", eval_hist(hist_cases(rep.tier, rng)))
    rep.add("graph-history", eval_ghist(ghist_cases(rep.tier, rng)))
    # size thresholds (tools/props/c20_size.py): large and dense graphs, in streams of their own so that a
    # process death on one of them (at most 3 per shard are retried) never shadows a small-scope case
    rng2 = random.Random(rep.seed * 7919 + 20)
    tc = c20_size.topo_size_cases(rep.tier, rng2)
    rep.extra["topo_size_back_edges_per_sort"] = c20_size.histogram(tc)
    rep.add("topo-size", eval_topo(tc))
    rep.add("topo-huge", c20_size.eval_topo_huge(c20_size.topo_huge_cases(rep.tier, rng2)))
    rep.add("kahn-size", eval_kahn(prep_kahn(c20_size.kahn_size_cases(rep.tier, rng2))))
    rep.add("graph-history-size", eval_ghist(c20_size.ghist_size_cases(rep.tier, rng2)))
    rep.add("resolver-history-size", eval_hist(c20_size.hist_size_cases(rep.tier, rng2)))


def replay(rep, payload):
    vlib.build_harness("c20")
    vlib.build_runner("c20")
    items = payload.get("disagreeing_cases") or [payload]
    for i, it in enumerate(items):
        c = dict(it["case"])
        c["id"] = i
        c["reps"] = 16
        st = it["stream"].replace("corpus-", "")
        rep.add(st, eval_stream(st, [c]))
