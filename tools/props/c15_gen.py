"""C15 generators: adversarial strings for the string functions, attribute payloads, and
grammar-generated exotic Rust source files (project-level search, oracle only)."""
import itertools
import os
import re

E2, E3, E4 = "\u00e9", "\u3000", "\U0001F600"     # 2-, 3- (a white-space char), 4-byte characters
NBSP, EURO = "\u00a0", "\u20ac"
MB = [E2, E3, E4, NBSP, EURO, "\u2003", "\u2028", "\u0085", "\u1680"]


def words(alphabet, maxlen, minlen=0):
    for n in range(minlen, maxlen + 1):
        for t in itertools.product(alphabet, repeat=n):
            yield "".join(t)


def at_every_offset(s, ins):
    """s with `ins` inserted at every character offset, and with every character replaced by it"""
    for i in range(len(s) + 1):
        yield s[:i] + ins + s[i:]
    for i in range(len(s)):
        yield s[:i] + ins + s[i + 1:]


# ------------------------------------------------------------------ attribute payloads

# escape-LOOKING text after an escaped backslash, beside real escapes (Rust source text of the literal body)
ESCAPE_BODIES = [r'\\u{XXXX}', r'\\u{110000}', r'\\u{D800}', r'\\u{}', r'\\u{', r'\\u{41', r'\\u{zz}', r'\\u{FFFFFFFFF}', r'\\u{-1}',
                 r'\\u{f6}', r'\\u', r'\\x41', r'\\xZZ', r'\\x', r'\\n', r'\\t', r'\\\"', r"\\'", r'\\\\', r'\\0', r'\\r',
                 r'\u{f6}', r'\x41', r'\u{1F600}', r'\n\\n', r'\u{f6}\\u{f6}', r'\\u{f6}\u{f6}', r'a\\u{D800}b\u{e9}c', r'\\\\u{110000}',
                 r'\\u{\u{41}}', r'\\u{1F600', r'{}\\u{}', r'\\U{41}', r'\\u {41}', r'\\u{ 41 }', r'\\u{0}', r'\\u{DFFF}', r'\\u{10FFFF}', r'\\u{E000}']


def escape_project(body, i):
    """the literal as validator message, serde rename value, event name and plain string, in one project"""
    return ("use serde::{Serialize, Deserialize};\n#[derive(Serialize, Deserialize)]\npub struct E%d {\n"
            "    #[validate(length(min = 1, message = \"%s\"))]\n    #[serde(rename = \"%s\")]\n    pub a: String,\n"
            "    #[validate(range(min = 0, max = 9, message = \"pre %s post\"), email)]\n    pub b: u8,\n}\n"
            "#[tauri::command]\npub fn c%d(app: tauri::AppHandle, x: E%d) -> E%d { app.emit(\"%s\", \"%s\").ok(); todo!() }\n"
            % (i, body, body, body, i, i, i, body, body))


def validator_payloads(tier, rng):
    out = []
    for b in ESCAPE_BODIES:
        for pre in ("", "a", E2):
            out.append('length(min = 1, message = "%s%s")' % (pre, b))
            out.append('range(max = 2, message = "%s%s%s")' % (b, pre, b))
            out.append("length(message = '%s', min = 3)" % b[:6])
    # exhaustive message bodies over the adversarial alphabet
    alpha = ["a", "_", "\\", "(", ")", ",", "=", " ", "'", E2, E3, E4]
    k = 4 if tier == "quick" else 5
    for m in words(alpha, k):
        out.append('length(min = 1, message = "%s")' % m)
    for m in words(["a", "\\", '"', "'", E2, E3, E4], 4 if tier == "quick" else 6, 1):
        out.append("range(max = 2, message = \"%s\")" % m)
        if '"' not in m:
            out.append("length(message = \"%s\", min = 3)" % m)
    # multi-byte characters at every offset of typical payloads
    bases = ['length(min = 1, max = 10, message = "bad (len) email")',
             'range(min = -5, max = 1e3, message = "h (w) \\"q\\" \\\\ email"), length(min = 1)',
             'email, url, length(min=2,max=3), range(min = 0.5)',
             "length(message = 'x', max = 7)", 'custom(function = "min = 3, message = x")',
             'length(equal = 4), range(exclusive_min = 1, message = "m,ax = 5")',
             'length(min = "message = \\"x\\"", max = 4)', 'range(min = 1, max = 2), message = "top"',
             'length ( min = 1 ) , message = "a\\\\"', 'length(min = +5, max = 18446744073709551616)',
             'range(min = .5, max = 5., message = "")', 'range(min = inf, max = -nan)', 'range(min = 1e, max = e5)',
             'length(min = 1_0, max = 0x10)', 'url(message = "length(min = 9)")']
    for b in bases:
        out.append(b)
        for ins in MB + ['"', "\\", ")", "(", "'", "=", ","]:
            out.extend(at_every_offset(b, ins))
    n = 12000 if tier == "quick" else 150000
    toks = ["length", "range", "email", "url", "min", "max", "message", "(", ")", "=", ",", " ", '"', "'", "\\",
            "1", "-5", "2.5", "a", "b", E2, E3, E4, NBSP, '"x"', '"' + E2 + '"', "'y'", "r#\"z\"#", "b'c'", "'" + E2 + "'"]
    for _ in range(n):
        out.append("".join(rng.choice(toks) for _ in range(rng.randint(1, 12))))
    return out


def serde_payloads(tier, rng):
    out = []
    for b in ESCAPE_BODIES:
        out.append('rename = "%s"' % b)
        out.append('rename_all = "%s", rename(serialize = "%s")' % (b, b))
    alpha = ["a", "_", "\\", "=", " ", E2, E3, NBSP, E4]
    k = 4 if tier == "quick" else 5
    for m in words(alpha, k):
        out.append('rename = "%s"' % m)
        out.append('x = "rename%s_all"' % m)
    for m in words([" ", E3, NBSP, " ", "a", "_"], 4 if tier == "quick" else 6):
        out.append('x = "rename%s_all", rename = "v"' % m)
        out.append('y = "rename%s_all = \\"w\\""' % m)
    bases = ['rename = "userName"', 'rename_all = "camelCase"', 'rename_all = "SCREAMING_SNAKE_CASE", rename = "x"',
             'rename = "a\\"b", skip_serializing_if = "x"', 'skip', 'default, skip_serializing_if = "Option::is_none"',
             'rename(serialize = "s", deserialize = "d")', 'rename_all(serialize = "kebab-case")',
             'alias = "rename", rename = "r"', 'rename_all = "nope"', 'with = "rename_all"', 'rename_all = "PascalCase"',
             'bound = "T: rename_all<U>", rename = "b"', 'rename ="x" , rename_all= "lowercase"', 'tag = "rename = \\"t\\""',
             'rename _all = "UPPERCASE"', 'renamerename_all = "kebab-case"', 'rename(deserialize = "d")',
             'rename_all(serialize = "camelCase", deserialize = "snake_case")', 'rename_all_fields = "camelCase", rename = "r"',
             'prename = "x", rename = "y"', 'rename(deserialize = "d", serialize = "s)"), rename_all = "lowercase"',
             'rename  (  serialize="a"  )', 'y = "renamea_all = \\"w\\""', 'rename(serialize("x"))', 'rename = rename = "z"']
    for b in bases:
        out.append(b)
        for ins in MB + ['"', "\\", "=", " ", "_all"]:
            out.extend(at_every_offset(b, ins))
    n = 12000 if tier == "quick" else 150000
    toks = ["rename", "rename_all", "_all", "skip", "skip_serializing_if", "=", ",", " ", '"', "\\", "(", ")", "a",
            E2, E3, NBSP, E4, '"camelCase"', '"x"', '"' + E3 + '"', '"rename' + E3 + E3 + '_all"', "default"]
    for _ in range(n):
        out.append("".join(rng.choice(toks) for _ in range(rng.randint(1, 10))))
    return out


# ------------------------------------------------------------------ type strings

HEADS = ["Option<", "Result<", "Vec<", "HashMap<", "BTreeMap<", "HashSet<", "BTreeSet<", "(", "&"]


def type_strings(tier, rng):
    out = []
    alpha = ["A", "<", ">", ",", "(", ")", "[", "]", "&", " ", E2, E3, E4]
    if tier == "quick":
        out.extend(words(alpha, 4))
        out.extend(words(["A", "<", ">", ",", "(", ")", "[", E2, E3], 5, 5))
    else:
        out.extend(words(alpha, 5))
        out.extend(words(["A", "<", ">", ",", "(", ")", "]", E2, E3], 6, 6))
    small = list(words(["A", "<", ">", ",", ")", "[", " ", E2, E3], 3 if tier == "quick" else 4))
    for h in HEADS:
        for w in small:
            out.append(h + w)
            out.append(h + w + ">")
            out.append(h + w + ")")
    # every prefix of the head tags (fixed-offset slices on short input)
    for h in HEADS:
        for i in range(len(h) + 1):
            for tail in ["", ">", ")", E2, E2 + ">", E3 + ">"]:
                out.append(h[:i] + tail)
    names = ["String", "i32", "bool", "()", "User", "str", "&str", E2 + "t" + E2, "T" + E4, "my_mod::Ty", "lower", "Vec",
             "Box<dyn Fn(i32) -> i32>", "[u8; 4]", "'a", "impl Trait", "*const u8", "fn(A, B) -> C", "Option", "!"]

    def gen(d):
        r = rng.random()
        if d <= 0 or r < 0.3:
            return rng.choice(names)
        h = rng.choice(HEADS + ["Box<", "Arc<Mutex<", "Foo<"])
        if h == "&":
            return "&" * rng.randint(1, 3) + rng.choice(["", "'a ", "mut "]) + gen(d - 1)
        if h == "(":
            return "(" + ", ".join(gen(d - 1) for _ in range(rng.randint(0, 3))) + ")"
        if h in ("HashMap<", "BTreeMap<", "Result<"):
            return h + gen(d - 1) + ", " + gen(d - 1) + ">"
        if h == "Arc<Mutex<":
            return h + gen(d - 1) + ">>"
        return h + gen(d - 1) + ">"
    n = 20000 if tier == "quick" else 300000
    for _ in range(n):
        t = gen(rng.randint(1, 4))
        out.append(t)
        # unbalanced / mutated
        m = rng.random()
        if m < 0.6 and t:
            i = rng.randrange(len(t))
            op = rng.randrange(4)
            if op == 0:
                out.append(t[:i] + t[i + 1:])
            elif op == 1:
                out.append(t[:i] + rng.choice(["<", ">", ",", "(", ")", "&", " ", E2, E3, E4]) + t[i:])
            elif op == 2:
                out.append(t[:i])
            else:
                out.append(t[i:])
    return out


def prefix_strings(tier, rng):
    out = []
    alpha = ["A", "[", "]", " ", "|", "<", E2, E4]
    out.extend(words(alpha, 4 if tier == "quick" else 6))
    base = ["void", "string", "number", "boolean", "any", "unknown", "null", "undefined", "User", "types.User", "Record<string, User>",
            "Map<string, number>", "[User, number]", "User" + E2, E3 + "T", "string[]", "User[]", "", " ", "[]", "types.", "Foo<Bar>"]
    suf = ["", "[]", " | null", " | undefined", "[][]", " | null | undefined", " | null[]", "| null", " | null ", "]"]
    for b in base:
        for s1 in suf:
            for s2 in suf:
                out.append(b + s1 + s2)
    # every suffix/prefix of the magic strings
    for m in [" | null", " | undefined", "Record<", "Map<", "types.", "[]"]:
        for i in range(len(m) + 1):
            out.extend([m[:i], m[i:], "X" + m[i:], E2 + m[i:], m[:i] + E2])
    return out


def key_strings(tier, rng):
    alpha = ["a", "_", "$", "1", "-", " ", '"', "\\", "\n", E2, E3, E4]
    out = list(words(alpha, 3 if tier == "quick" else 4))
    out += ["userName", "full-name", "a b", "", "type", "1a", "été", "na\"me", "back\\slash", "tab\tx", "cr\rx", "x|y", "中文", "a.b", "[x]"]
    return out


CASE_VALUES = ["lowercase", "UPPERCASE", "PascalCase", "camelCase", "snake_case", "SCREAMING_SNAKE_CASE", "kebab-case",
               "SCREAMING-KEBAB-CASE", "bogus", "", "CamelCase", "camelcase"]


def naming_config_source(idents):
    """structs without serde rename_all, commands and parameters, enum variants, all named by the hostile identifiers"""
    fields = "\n".join("    pub %s: u8," % i for i in idents)
    cmds = "\n".join("#[tauri::command]\npub fn %s(%s: Plain, app: tauri::AppHandle) -> Plain { todo!() }" % (i if i != "_" else "under", i)
                     for i in idents if i != "_")
    return ("use serde::{Serialize, Deserialize};\n#[derive(Serialize, Deserialize)]\npub struct Plain {\n%s\n}\n"
            "#[derive(Serialize, Deserialize)]\npub enum Kinds { %s }\n%s\n#[tauri::command]\npub fn kinds() -> Kinds { todo!() }\n"
            % (fields, ", ".join(("V" + i) if not i[0].isalpha() else i for i in idents if i != "_"), cmds))


HOSTILE_IDENTS = [["\u00e9cole"], ["__"], ["___x"], ["\u00e9"], ["\u4e2d\u6587"], ["_\u00e9t\u00e9"], ["r#type"], ["x_\u00e9"], ["\U0001D4B3y"],
                  ["\u00e9cole", "__", "r#match", "a__b_", "_lead", "\u00dcber_x"]]


def big_project(rng, ntypes, shape, files=1):
    """a project with many types / commands / events / fields: names in random (non-alphabetical) relation to the
    dependency edges, which go in both alphabetical directions"""
    names = ["T%03d%s" % (i, rng.choice(["", "x", "Y"])) for i in range(ntypes)]
    order = names[:]
    rng.shuffle(order)
    deps = {}
    for idx, n in enumerate(order):
        if shape == "dag":
            cands = order[:idx]                  # acyclic, direction unrelated to the alphabet
        elif shape == "chain":
            cands = order[idx - 1:idx] if idx else []
        else:
            cands = order                         # cycles allowed
        deps[n] = rng.sample(cands, min(len(cands), rng.randint(0, 3))) if cands else []
    per_file = {}
    for i, n in enumerate(names):
        fields = ["    pub id: u32,"] + ["    pub f%d: %s," % (j, WRAPS[(i + j) % len(WRAPS)] % d) for j, d in enumerate(deps[n])]
        if i % 7 == 0:
            fields += ["    pub w%02d: Option<String>," % j for j in range(70)]
        item = ("#[derive(Debug, Clone, Serialize, Deserialize)]\npub struct %s {\n%s\n}\n" % (n, "\n".join(fields))) if i % 5 else \
               ("#[derive(Debug, Clone, Serialize, Deserialize)]\npub enum %s { A, B%s }\n" % (n, "".join(", C%d" % j for j in range(i % 70))))
        cmd = "#[tauri::command]\npub fn cmd_%s(app: tauri::AppHandle, a: %s, b: Vec<%s>) -> Result<%s, String> { app.emit(\"ev-%s\", a.clone()).ok(); todo!() }\n" % (
            n.lower(), n, names[(i * 7 + 3) % ntypes], names[(i * 3 + 1) % ntypes], n.lower())
        per_file.setdefault("lib.rs" if files == 1 else "m%02d/f%03d.rs" % (i % 9, i % files), []).append(item + cmd)
    head = "use serde::{Serialize, Deserialize};\nuse std::collections::{HashMap, BTreeMap, HashSet};\n"
    return {f: head + "\n".join(items) for f, items in per_file.items()}


RULES = ["lowercase", "UPPERCASE", "PascalCase", "camelCase", "snake_case", "SCREAMING_SNAKE_CASE", "kebab-case",
         "SCREAMING-KEBAB-CASE", "event"]


def naming_cases(tier, rng):
    out = []
    alpha = ["a", "B", "_", "1", "-", E2, E3, E4, "É"]
    names = list(words(alpha, 4 if tier == "quick" else 5))
    names += ["user_id", "_x", "a__b", "x_1", "foo_2bar", "a1b_c2", "__", "_", "", E2 + "t" + E2, "_" + E2, "r#type", "type",
              "user-login", "UserName", "get_user_by_id", "a_" + E2, "ß", "ǅx", "_" * 5 + "z", "ı", "x" + E3 + "y"]
    for n in names:
        for r in RULES:
            out.append((r, n))
    # the configured default_field_case / default_parameter_case: every convention name and unknown values
    for n in names[:400] + names[-30:] + ["\u00e9cole", "__", "_", "\u00e9", "_\u00e9", "x\u00e9", "\u4e2d_a"]:
        for v in CASE_VALUES:
            out.append(("default:" + v, n))
    # enum variants through compute_variant_name (apply_to_variant)
    vnames = list(words(["a", "B", "_", "1", E2, "É", E4], 3 if tier == "quick" else 4)) + \
        ["Active", "InProgress", "HTTPError", "Id", "État", "V_1", "Self_", "ÀB", "aB", "A", "Éa", "Z42", "ǅx", "İ", "ß"]
    for n in vnames:
        for r in RULES[:8]:
            out.append(("variant:" + r, n))
    return out


# ------------------------------------------------------------------ exotic Rust items (project level)

class RustGen:
    """Random, syntactically valid (mostly) Rust items with exotic syntax. `risky` switches on
    the shapes that lie inside the recorded classes (non-ASCII first letter / underscore-only
    command and parameter names)."""

    def __init__(self, rng, risky=False):
        self.rng = rng
        self.risky = risky
        self.n = 0

    def ident(self, kind="snake"):
        r = self.rng
        self.n += 1
        base = r.choice(["user", "get_item", "x", "data", "value", "cfg", "id", "kind", "a_b_c", "item2"])
        if kind == "type":
            base = r.choice(["User", "Item", "Cfg", "Payload", "Node", "Evt", "Kind"])
        x = r.random()
        if x < 0.12:
            return "r#" + r.choice(["type", "match", "fn", "struct", "async", "loop", "ref", "mod"])
        if x < 0.30:   # non-ASCII identifier characters after an ASCII first letter
            return base + r.choice(["été", "_über", "αβ", "中文", "ñ", "_д"]) + str(self.n)
        if x < 0.36 and kind != "cmd":   # non-ASCII first letter: harmless outside command/parameter names
            return r.choice(["été", "α", "中", "Über"]) + str(self.n)
        if x < 0.40:
            return "_" + base + str(self.n)
        if x < 0.44:
            return base + "__" + str(self.n) + "_"
        return base + str(self.n)

    def cmd_ident(self):
        r = self.rng
        if self.risky and r.random() < 0.5:
            self.n += 1
            return r.choice(["été%d" % self.n, "__", "___", "_é%d" % self.n, "中%d" % self.n])
        return self.ident("cmd")

    def lit_str(self):
        r = self.rng
        return r.choice(['"plain"', '"été \U0001F600"', '"a\\"b\\\\c"', 'r#"raw "quoted" é"#', '"(unbalanced"',
                         '"line\\nbreak\\u{1F600}"', '"rename　_all"', '"message = \\"x\\""', 'b"bytes"', '"' + "　" * 2 + '"', '""'])

    def ty(self, d=2):
        r = self.rng
        leaf = ["String", "i32", "u64", "bool", "f64", "()", "&str", "&'a str", "&'static [u8]", "[u8; 4]", "[String]", "!",
                "*const u8", "*mut T", "fn(i32) -> i32", "Box<dyn Fn(&str) -> String + Send + 'static>", "impl Iterator<Item = u8>",
                "dyn std::any::Any", "<T as Trait>::Out", "std::collections::HashMap<String, i32>", "User", "Item", "T",
                "tauri::AppHandle", "tauri::State<'_, Db>", "State<'_, std::sync::Mutex<Db>>", "tauri::ipc::Channel<Evt>", "Channel<Vec<u8>>",
                "tauri::Window", "Window<R>", "tauri::ipc::Request<'_>", "crate::models::User", "super::Item", "Self",
                "Été", "Ty中", "r#type", "_", "u8", "char", "(i32,)", "Cow<'a, str>", "PhantomData<fn() -> T>",
                "for<'a> fn(&'a str) -> &'a str", "&mut dyn Trait", "Option<Box<Self>>", "[[u8; 2]; 3]", "(((i32)))",
                "HashMap<String, Vec<(u8, Option<User>)>>", "Result<(), Box<dyn std::error::Error>>", "tauri::Result<()>",
                "Option<&'a mut [Option<Item>]>", "Vec<Result<User, String>>", "BTreeMap<(i32, i32), HashSet<String>>"]
        if d <= 0 or r.random() < 0.4:
            return r.choice(leaf)
        k = r.randrange(9)
        if k == 0:
            return "Option<%s>" % self.ty(d - 1)
        if k == 1:
            return "Vec<%s>" % self.ty(d - 1)
        if k == 2:
            return "Result<%s, %s>" % (self.ty(d - 1), self.ty(d - 1))
        if k == 3:
            return "HashMap<%s, %s>" % (self.ty(d - 1), self.ty(d - 1))
        if k == 4:
            return "(%s)" % ", ".join(self.ty(d - 1) for _ in range(r.randint(0, 3)))
        if k == 5:
            return "&" + r.choice(["", "'a ", "mut ", "'static "]) + self.ty(d - 1)
        if k == 6:
            return "Box<%s>" % self.ty(d - 1)
        if k == 7:
            return "BTreeSet<%s>" % self.ty(d - 1)
        return "%s<%s>" % (r.choice(["Arc", "Mutex", "Foo", "my::Wrapper", "Channel", "State"]), self.ty(d - 1))

    def generics(self):
        r = self.rng
        return r.choice(["", "", "", "<T>", "<'a>", "<'a, T: Clone + 'a>", "<T, const N: usize>", "<R: tauri::Runtime>",
                         "<'a, 'b: 'a, T: ?Sized>", "<T = String>", "<T: for<'x> Fn(&'x str)>"])

    def serde_attr(self, field=True):
        r = self.rng
        opts = ['rename = "n%d"' % r.randint(0, 9), 'rename = "full-name"', 'rename = %s' % self.lit_str(), "skip", "default",
                'skip_serializing_if = "Option::is_none"', 'rename(serialize = "s")', "flatten", 'alias = "rename_all"',
                'with = "my_mod"', 'rename = "é"', 'default = "rename"', 'borrow']
        if not field:
            opts = ['rename_all = "%s"' % r.choice(["camelCase", "snake_case", "PascalCase", "SCREAMING_SNAKE_CASE", "kebab-case",
                                                    "lowercase", "UPPERCASE", "SCREAMING-KEBAB-CASE", "bogus", ""]),
                    'tag = "type"', 'tag = "t", content = "c"', "untagged", 'deny_unknown_fields', 'rename = "Other"',
                    'rename_all(serialize = "camelCase")', 'crate = "serde"', 'bound = "T: Serialize"']
        return "#[serde(%s)]" % ", ".join(r.sample(opts, r.randint(1, 2)))

    def validate_attr(self):
        r = self.rng
        msg = r.choice(['"ok"', '"bad (len) email"', '"a\\"q\\""', '"x, min = 9"', "'c'", '"plain text"', '"a\\\\"', '"(("'])
        opts = ["email", "url", "length(min = %d)" % r.randint(0, 9), "length(min = 1, max = %d, message = %s)" % (r.randint(1, 99), msg),
                "range(min = -5, max = 1e3)", "range(min = 0.5, message = %s)" % msg, "length(equal = 3)", 'custom(function = "check")',
                "nested", "required", 'regex(path = *RE)', 'contains(pattern = "x")', "range(max = 18446744073709551616)", "length(max = -1)",
                'must_match(other = "b")', "credit_card", "length(min = MIN_LEN)", "range(min = 1, max = 2, code = \"c\")"]
        return "#[validate(%s)]" % ", ".join(r.sample(opts, r.randint(1, 3)))

    def misc_attr(self):
        r = self.rng
        return r.choice(['#[doc = %s]' % self.lit_str(), "#[allow(dead_code)]", '#[cfg_attr(feature = "x", derive(Debug))]',
                         "/// doc é comment", "#[inline(always)]", "#[must_use]", '#[cfg(all(unix, not(target_os = "macos")))]',
                         "#[deprecated(since = \"1\", note = \"é\")]", "#[non_exhaustive]", "#[repr(C)]", "#[my::tool(a(b(c)))]",
                         "#[doc(hidden)]", "#[path::to::attr = 3]", "#[validate]", "#[serde]", "#[serde = \"x\"]", "#[validate = 1]"])

    def struct(self):
        r = self.rng
        name = self.ident("type")
        attrs = [r.choice(["#[derive(Serialize, Deserialize)]", "#[derive(Debug, Clone, serde::Serialize)]", "#[derive(Deserialize, Validate)]",
                           "#[derive(Debug)]", "#[derive(serde::Deserialize)]"])]
        if r.random() < 0.5:
            attrs.append(self.serde_attr(False))
        if r.random() < 0.3:
            attrs.append(self.misc_attr())
        g = self.generics()
        k = r.random()
        if k < 0.1:
            return "\n".join(attrs) + "\npub struct %s%s;" % (name, g)
        if k < 0.2:
            return "\n".join(attrs) + "\npub struct %s%s(pub %s, %s);" % (name, g, self.ty(1), self.ty(1))
        fields = []
        for _ in range(r.randint(0, 5)):
            fa = []
            if r.random() < 0.4:
                fa.append(self.serde_attr())
            if r.random() < 0.4:
                fa.append(self.validate_attr())
            if r.random() < 0.15:
                fa.append(self.misc_attr())
            vis = r.choice(["pub ", "pub ", "pub(crate) ", "", "pub(in crate::a) "])
            fields.append("    %s\n    %s%s: %s," % (" ".join(fa), vis, self.ident(), self.ty(2)))
        where = r.choice(["", "", " where T: Clone"]) if "T" in g else ""
        return "\n".join(attrs) + "\npub struct %s%s%s {\n%s\n}" % (name, g, where, "\n".join(fields))

    def enum(self):
        r = self.rng
        name = self.ident("type")
        attrs = ["#[derive(Serialize, Deserialize)]"]
        if r.random() < 0.6:
            attrs.append(self.serde_attr(False))
        vs = []
        for i in range(r.randint(0, 5)):
            v = r.choice(["Active", "InProgress", "Done", "Id", "HTTPError", "État", "V_%d" % i, "r#Self_"]) + (str(i) if r.random() < 0.5 else "")
            k = r.random()
            pre = (self.serde_attr() + " ") if r.random() < 0.3 else ""
            if k < 0.6:
                vs.append("    %s%s," % (pre, v))
            elif k < 0.75:
                vs.append("    %s%s(%s)," % (pre, v, self.ty(1)))
            elif k < 0.9:
                vs.append("    %s%s { %s: %s }," % (pre, v, self.ident(), self.ty(1)))
            else:
                vs.append("    %s%s = %d," % (pre, v, i * 3))
        return "\n".join(attrs) + "\npub enum %s%s {\n%s\n}" % (name, r.choice(["", "", "<T>"]), "\n".join(vs))

    def body(self):
        r = self.rng
        stmts = []
        for _ in range(r.randint(0, 4)):
            ev = r.choice(['"user:created"', '"evt-%d"' % r.randint(0, 9), '"événement"', "EVENT_NAME", '&format!("x{}", 1)', '""', '"a b"'])
            pay = r.choice(["()", "user", "&payload", "42", "Item { id: 1 }", "vec![1, 2]", "serde_json::json!({\"a\": 1})", "User::default()",
                            "\"text\"", "Some(x)", "data.clone()", "(1, \"a\")", "|x| x", "r#type"])
            recv = r.choice(["app", "window", "app_handle", "self.app", "handle.clone()", "get()", "tauri::AppHandle::default()", "w"])
            stmts.append(r.choice([
                "%s.emit(%s, %s)?;" % (recv, ev, pay),
                "%s.emit_to(\"main\", %s, %s).unwrap();" % (recv, ev, pay),
                "let %s: %s = Default::default();" % (self.ident(), self.ty(1)),
                "if let Some(x) = y { %s.emit(%s, x).ok(); }" % (recv, ev),
                "tokio::spawn(async move { %s.emit(%s, %s).await; });" % (recv, ev, pay),
                "let f = |a: i32, b| -> i32 { a + b };",
                "match x { 1..=5 => {}, _ if y => {}, Foo::Bar { a, .. } => {}, ref mut z @ Some(_) => {} }",
                "println!(\"{} {:?}\", %s, b\"x\");" % self.lit_str(),
                "loop { break 'outer; }", "unsafe { *p = 1; }", "let _ = <T as Trait>::f::<u8>(x)?;",
                "on_event.send(%s).unwrap();" % pay, "channel.send(%s)?;" % pay, "let [a, b, ..] = arr else { return Err(\"é\".into()) };",
                "%s.emit(%s);" % (recv, ev), "%s.emit();" % recv, "emit(%s, %s);" % (ev, pay),
            ]))
        return "{\n        " + "\n        ".join(stmts) + "\n        todo!()\n    }"

    def command(self):
        r = self.rng
        attr = r.choice(["#[tauri::command]", "#[tauri::command]", "#[command]", '#[tauri::command(rename_all = "snake_case")]',
                         "#[tauri::command(async)]", "#[tauri::command(rename_all = \"camelCase\", async)]", "#[tauri::command]\n#[allow(unused)]",
                         "#[cfg_attr(mobile, tauri::command)]", "#[::tauri::command]", "#[tauri::command(root = \"crate\")]",
                         '#[tauri::command]\n#[serde(rename_all = "%s")]' % r.choice(["snake_case", "camelCase", "kebab-case"])])
        params = []
        for _ in range(r.randint(0, 4)):
            k = r.random()
            if k < 0.08:
                params.append("_: %s" % self.ty(1))
            elif k < 0.14:
                params.append("(a%d, b%d): (i32, String)" % (self.n, self.n))
            elif k < 0.18:
                params.append("mut %s: %s" % (self.ident("cmd"), self.ty(1)))
            elif k < 0.22:
                params.append("User { id, .. }: User")
            elif k < 0.28:
                params.append("#[allow(unused)] %s: %s" % (self.ident("cmd"), self.ty(1)))
            elif self.risky and k < 0.5:
                params.append("%s: %s" % (self.cmd_ident(), self.ty(1)))
            else:
                params.append("%s: %s" % (self.ident("cmd"), self.ty(2)))
        ret = r.choice(["", " -> %s" % self.ty(2), " -> Result<%s, String>" % self.ty(2), " -> impl std::future::Future<Output = ()>",
                        " -> tauri::Result<%s>" % self.ty(1), " -> Option<%s>" % self.ty(1)])
        q = r.choice(["pub ", "", "pub(crate) ", "pub async ", "async ", "pub const ", "pub unsafe ", "pub extern \"C\" "])
        g = self.generics()
        where = " where T: serde::Serialize" if "T" in g and r.random() < 0.5 else ""
        return "%s\n%sfn %s%s(%s)%s%s %s" % (attr, q, self.cmd_ident(), g, ", ".join(params), ret, where, self.body())

    def other(self):
        r = self.rng
        return r.choice([
            "macro_rules! m%d { ($($x:tt)*) => { $($x)* }; (@inner $e:expr) => {{ $e }}; }" % self.n,
            "m! { #[tauri::command] fn hidden() {} }", "lazy_static::lazy_static! { static ref X: u8 = 1; }",
            "const %s: &str = %s;" % (self.ident().upper().replace("R#", "K"), self.lit_str()),
            "static mut COUNTER: u32 = 0;", "type Result<T> = std::result::Result<T, String>;", "pub type Cb<'a> = Box<dyn FnMut(&'a str) + 'a>;",
            "pub trait Trait%d<T>: Send where T: ?Sized { type Out; const N: usize; fn f(&self) -> Self::Out; }" % self.n,
            "impl<T> Trait for Vec<T> { #[tauri::command] fn in_impl(&self) {} }", "union U%d { a: u32, b: f32 }" % self.n,
            "extern \"C\" { fn ext(x: i32) -> i32; }", "use std::{collections::*, io::{self, Read as _}};", "extern crate serde as sd;",
            "mod inner%d { #[tauri::command] pub fn nested_cmd(x: super::User) {} #[derive(serde::Serialize)] pub struct Deep { a: u8 } }" % self.n,
            "#[cfg(test)] mod tests { #[test] fn t() { assert_eq!(1, 1); } }", "pub mod decl;", "#![allow(unused)]" if self.n == -1 else "// comment é",
            "/* block /* nested */ comment \U0001F600 */", "fn plain<'a>(x: &'a str) -> &'a str { x }", "pub(crate) async unsafe fn odd() {}",
            "impl %s { pub fn new() -> Self { Self } }" % self.ident("type"), "#[derive(Serialize)] struct %s<'a>(&'a str);" % self.ident("type"),
            "trait Alias = Clone + Send;", "pub fn builder() -> tauri::Builder<tauri::Wry> { tauri::Builder::default().invoke_handler(tauri::generate_handler![a, b]) }",
            "global_asm!(\"nop\");", "pub enum Never {}", "struct Empty {}", "#[derive(Serialize)] pub struct %s { pub r#type: String, pub r#match: u8 }" % self.ident("type"),
        ])

    def file(self, nitems=None):
        r = self.rng
        items = ["use serde::{Serialize, Deserialize};", "use tauri::{AppHandle, Emitter, State, Window, ipc::Channel};"]
        for _ in range(nitems or r.randint(2, 9)):
            k = r.random()
            if k < 0.35:
                items.append(self.command())
            elif k < 0.6:
                items.append(self.struct())
            elif k < 0.72:
                items.append(self.enum())
            else:
                items.append(self.other())
        r.shuffle(items)
        return "\n\n".join(items) + "\n"


WRAPS = ["Vec<%s>", "Option<%s>", "Box<%s>", "HashMap<String, %s>", "Option<Box<%s>>", "Vec<Option<%s>>", "(%s, u8)", "BTreeMap<String, Vec<%s>>",
         "HashSet<%s>", "Result<%s, String>", "%s"]


def type_graph_source(names, edges, roots, wrap_shift=0):
    """serde structs `names[i]` with one field per edge (i, j) (the field type wraps names[j] in a container,
    cycling through WRAPS) and one command per root returning that type"""
    out = ["use serde::{Serialize, Deserialize};", "use std::collections::{HashMap, BTreeMap, HashSet};"]
    k = wrap_shift
    for i, n in enumerate(names):
        fields = []
        for (a, b) in edges:
            if a == i:
                fields.append("    pub f%d: %s," % (len(fields), WRAPS[k % len(WRAPS)] % names[b]))
                k += 1
        fields.append("    pub id: u32,")
        out.append("#[derive(Debug, Clone, Serialize, Deserialize)]\npub struct %s {\n%s\n}" % (n, "\n".join(fields)))
    for r in roots:
        out.append("#[tauri::command]\npub fn get_%s(x: %s) -> Result<%s, String> { todo!() }" % (names[r].lower(), names[r], names[r]))
    return "\n\n".join(out) + "\n"


def type_graph_cases(tier, rng):
    """(tag, source): recursive and mutually recursive type graphs of every small shape, wide and deep acyclic ones"""
    cases = []
    names3 = ["Alpha", "Meta", "Zeta"]       # the sorted order of dependency names matters to the DFS
    pairs = [(a, b) for a in range(3) for b in range(3)]
    rootsets = [[0], [1], [2], [0, 1], [0, 2], [1, 2], [0, 1, 2]]
    for mask in range(1 << len(pairs)):
        edges = [p for i, p in enumerate(pairs) if mask >> i & 1]
        if tier == "quick":
            rs = [rootsets[mask % len(rootsets)], rootsets[(mask // 7 + 3) % len(rootsets)]]
        else:
            rs = rootsets
        for roots in rs:
            cases.append(("typegraph-3", type_graph_source(names3, edges, roots, wrap_shift=mask)))
    # the shapes named in reports: self-loop with a sibling sorting before / after the type that closes the cycle
    for sib in ("Meta", "Zeta", "Aaa", "TreeNodf"):
        cases.append(("typegraph-tree", type_graph_source(["TreeNode", sib], [(0, 1), (0, 0)], [0])))
        cases.append(("typegraph-tree", type_graph_source(["TreeNode", sib], [(0, 0), (0, 1), (1, 0)], [0, 1])))
    pool = ["Aa", "Bb", "Cc", "Dd", "Ee", "Mm", "Nn", "Yy", "Zz"]
    for _ in range(300 if tier == "quick" else 5000):
        n = rng.randint(4, 7)
        names = rng.sample(pool, n)
        dens = rng.choice([0.15, 0.3, 0.5])
        edges = [(a, b) for a in range(n) for b in range(n) if rng.random() < dens]
        roots = rng.sample(range(n), rng.randint(1, 3))
        cases.append(("typegraph-rand", type_graph_source(names, edges, roots, wrap_shift=rng.randrange(11))))
    # wide and deep acyclic graphs, and a long cycle
    for width in (40, 150):
        names = ["Root"] + ["W%03d" % i for i in range(width)]
        cases.append(("typegraph-wide", type_graph_source(names, [(0, i) for i in range(1, width + 1)], [0])))
    for depth in (60, 250):
        names = ["D%03d" % i for i in range(depth)]
        cases.append(("typegraph-deep", type_graph_source(names, [(i, i + 1) for i in range(depth - 1)], [0])))
        cases.append(("typegraph-deep", type_graph_source(names[::-1], [(i, i + 1) for i in range(depth - 1)], [0])))
        cases.append(("typegraph-ring", type_graph_source(names, [(i, (i + 1) % depth) for i in range(depth)] + [(0, depth // 2)], [0, depth // 3])))
    return cases


def offset_sources(maxk):
    """(k, char, files): one project per byte offset k and per 2-, 3- and 4-byte identifier character, in which that
    character starts at byte offset k of a type name (also below generics), a field name, a command and
    parameter name, a rename / validator / event-name literal and a directory name"""
    out = []
    for k in range(0, maxk + 1):
        for ch in ("\u00e9", "\u4e2d", "\U0001D4B3"):
            pre = "a" * max(0, k - 1)
            ty = ("T" + pre if k else "") + ch + "b" * 60
            ty2 = ("U" + pre if k else "") + ch + "c" * 8
            field = ("f" + pre if k else "") + ch + "d" * 10
            cmd = ("c" + pre if k else "") + ch + "z"
            par = ("p" + pre if k else "") + ch
            lit = "x" * k + ch + "y" * 50
            src = "\n".join([
                "use serde::{Serialize, Deserialize};", "use std::collections::HashMap;",
                "#[derive(Debug, Clone, Serialize, Deserialize)]\npub struct %s { pub id: u32, pub back: Option<Box<Holder>> }" % ty,
                "#[derive(Debug, Clone, Serialize, Deserialize)]\npub enum %s { %s, Other }" % (ty2, ("V" + pre if k else "") + ch),
                "#[derive(Debug, Clone, Serialize, Deserialize)]\n#[serde(rename_all = \"camelCase\")]\npub struct Holder {",
                "    #[serde(rename = \"%s\")]\n    #[validate(length(min = 1, message = \"%s\"))]\n    pub %s: Vec<HashMap<String, Option<%s>>>," % (lit, lit, field, ty),
                "    pub plain: %s,\n    pub pair: (u8, %s),\n    pub nested: HashMap<String, Vec<(u8, Option<%s>)>>,\n    %s: Option<%s>,\n}" % (ty, ty2, ty, "q" + field, ty2),
                "#[tauri::command]\npub async fn %s(app: tauri::AppHandle, %s: %s, other: Vec<%s>) -> Result<Holder, String> {" % (cmd, par, ty, ty2),
                "    app.emit(\"%s\", %s { id: 1, back: None }).ok();\n    todo!()\n}" % (lit, ty), ""])
            d = "m" * k + ch
            out.append((k, ch, {"lib.rs": src, "%s/inner.rs" % d: "#[tauri::command]\npub fn inner_%s() -> u8 { 0 }\n" % ("i" + pre + ch)}))
    return out


NOT_RUST = [
    "", " ", "\n\n\n", "﻿", "﻿#[tauri::command]\nfn a() {}\n", "#!/usr/bin/env run-cargo-script\nfn main() {}\n",
    "hello world, this is not rust\n", "{\"json\": [1, 2, {\"a\": null}]}\n", "<html><body>é</body></html>\n",
    "fn (", "fn a( {", "#[tauri::command]\nfn a(", "#[tauri::command]\nfn a(x: ) {}", "struct S { a: }", "\"unterminated string",
    "'unterminated", "/* unterminated comment", "r#\"unterminated raw", "fn a() { \"é", "ééé", "\U0001F600",
    "#[tauri::command]\nfn \U0001F600() {}", "#[tauri::command]\nfn a() {}\n}", ")))))", "#[", "#[tauri::command]", "#[tauri::command]\n",
    "fn a() {} \0 fn b() {}", "\0", "fn a​() {}", "#[tauri::command]\nfn a(x: u8) {} \x7f", "0x", "1e", "1.0e+", "'a 'b 'c", "b'é'",
    "#[tauri::command]\nfn a() { 1 +* 2 }", "# [ tauri :: command ] fn a ( ) { }", "#[tauri::command]fn a(){}#[tauri::command]fn a(){}",
    "#![feature(x)]\n#![no_std]\n", "//", "//!", "///", "/**/", "///\n", "#[doc = \"x\"]", "pub", "pub(", "impl", "fn f() -> {}",
    "#[validate(length(min = 1))]\n", "#[serde(rename = \"x\")]\nstruct S;", "\t\r\n\x0b\x0c", "  ", "fn a() {}\r\nfn b() {}\r",
    "#[tauri::command]\nfn a(x: [u8; {", "fn a<'", "fn a<T: >() {}", "macro_rules! m { () => { fn } } m!();", "m!{", "m![", "m!(",
]


def deep_nesting(depth):
    """deep but bounded nesting in types, expressions and brackets (stack depth inside syn is outside the model)"""
    return [
        "#[tauri::command]\nfn d1(x: %sString%s) {}\n" % ("Option<" * depth, ">" * depth),
        "#[tauri::command]\nfn d2(x: %sString%s) {}\n" % ("Vec<" * depth, ">" * depth),
        "#[tauri::command]\nfn d3(x: %sString) {}\n" % ("&" * depth),
        "#[tauri::command]\nfn d4(x: %si32%s) {}\n" % ("(" * depth, ",)" * depth),
        "#[tauri::command]\nfn d5() { %s1%s; }\n" % ("(" * depth, ")" * depth),
        "#[tauri::command]\nfn d6(app: tauri::AppHandle) { %sapp.emit(\"e\", 1);%s }\n" % ("{ " * depth, " }" * depth),
        "#[derive(serde::Serialize)]\npub struct D7 { pub a: %sString%s }\n#[tauri::command]\nfn d7() -> D7 { todo!() }\n" % ("Option<Vec<" * depth, ">>" * depth),
        "#[tauri::command]\nfn d8(x: %sString%s) {}\n" % ("HashMap<String, " * depth, ">" * depth),
    ]


def corpus_files(repo, tier):
    """(.rs path, text) for every source file of the repository and a deterministic sample of
    the vendored registry sources"""
    out = []
    for root, _, names in os.walk(os.path.join(repo, "src")):
        for n in sorted(names):
            if n.endswith(".rs"):
                out.append(os.path.join(root, n))
    for extra in ("tests", "examples", "benches"):
        for root, _, names in os.walk(os.path.join(repo, extra)):
            for n in sorted(names):
                if n.endswith(".rs"):
                    out.append(os.path.join(root, n))
    reg = []
    base = os.path.expanduser("~/.cargo/registry/src")
    if os.path.isdir(base):
        for root, dirs, names in os.walk(base):
            dirs.sort()
            for n in sorted(names):
                if n.endswith(".rs"):
                    reg.append(os.path.join(root, n))
    step = max(1, len(reg) // (300 if tier == "quick" else 2500))
    out.extend(reg[::step])
    res = []
    for p in out:
        try:
            b = open(p, "rb").read()
            if len(b) > 400000:
                continue
            res.append((p, b.decode("utf-8")))
        except (OSError, UnicodeDecodeError):
            continue
    return res, len(reg)


FN_RE = re.compile(r"^([ \t]*)((?:pub(?:\([a-z: ]+\))? )?(?:const )?(?:async )?(?:unsafe )?fn )", re.M)
TY_RE = re.compile(r"^([ \t]*)((?:pub(?:\([a-z: ]+\))? )?(?:struct|enum) )", re.M)


def commandify(text):
    """mutation that drags real-world code through the whole pipeline: every fn becomes a command,
    every struct/enum a serde type"""
    text = FN_RE.sub(lambda m: "%s#[tauri::command]\n%s%s" % (m.group(1), m.group(1), m.group(2)), text)
    text = TY_RE.sub(lambda m: "%s#[derive(serde::Serialize)]\n%s%s" % (m.group(1), m.group(1), m.group(2)), text)
    return text


def mutate(text, rng):
    if not text:
        return text
    k = rng.randrange(6)
    i = rng.randrange(len(text))
    if k == 0:
        return text[:i]                               # truncation
    if k == 1:
        return text[i:]
    if k == 2:
        j = min(len(text), i + rng.randint(1, 40))
        return text[:i] + text[j:]                    # deletion
    if k == 3:
        return text[:i] + rng.choice(['"', "'", "(", ")", "{", "}", "<", ">", "#[", "\\", E2, E3, E4, "/*", "r#\"", "\0"]) + text[i:]
    if k == 4:
        j = rng.randrange(len(text))
        a, b = min(i, j), max(i, j)
        return text[:a] + text[b:b + 30] + text[a:b] + text[b + 30:]   # transposition
    return text[:i] + text[i:i + 200] * 2 + text[i + 200:]              # duplication


def hash_source(kind, name):
    """the three project shapes of the driver's hash-extreme search (harness/src/bin/c15.rs hash_src, same text)"""
    if kind == "struct":
        return "#[derive(serde::Serialize)]\npub struct %s { pub a: u8 }\n#[tauri::command]\npub fn get() -> %s { todo!() }\n" % (name, name)
    if kind == "event":
        return "#[tauri::command]\npub fn c(app: tauri::AppHandle) { app.emit(\"%s\", 1u8).ok(); }\n" % name
    return "#[tauri::command]\npub fn %s() {}\n" % name
