"""Land accepted repairs in /repo as separate `fix:` commits and record their hashes.
    python3 -m tools.landfixes <batch file>        (JSON list of [patch name, commit subject, commit body])
For each entry: `patch -p1` in /repo, remove .orig files, `git commit` (the repository's own pre-commit
hook formats the code), then replace every `FIXCOMMIT(<patch name>.diff)` placeholder in
known_findings/*.json by the short hash. Stops at the first patch that does not apply."""
import json
import os
import re
import subprocess
import sys

V = os.path.dirname(os.path.dirname(os.path.abspath(__file__)))
R = "/repo"


def sh(cmd, cwd=R, check=True):
    r = subprocess.run(cmd, cwd=cwd, shell=isinstance(cmd, str), stdout=subprocess.PIPE, stderr=subprocess.STDOUT, text=True)
    if check and r.returncode != 0:
        print(r.stdout)
        sys.exit("failed: %s" % cmd)
    return r.stdout


def main():
    batch = json.load(open(sys.argv[1]))
    landed = {}
    for name, subject, body in batch:
        patch = os.path.join(V, "fixes", "proposed", name + ".diff")
        sh(["patch", "-p1", "-s", "--no-backup-if-mismatch", "-i", patch])
        sh("find . -name '*.orig' -not -path './target/*' -delete; find . -name '*.rej' -not -path './target/*' | grep . && exit 1 || true")
        sh(["git", "add", "-A", "src", "Cargo.toml"])
        assert subject.startswith("fix: ")
        sh(["git", "commit", "-q", "-m", subject + "\n\n" + body])
        h = sh(["git", "log", "--format=%h", "-n", "1"]).strip()
        landed[name] = h
        print(h, subject)
        os.makedirs(os.path.join(V, "fixes", "landed"), exist_ok=True)
        os.replace(patch, os.path.join(V, "fixes", "landed", name + ".diff"))
    d = os.path.join(V, "known_findings")
    for n in sorted(os.listdir(d)):
        p = os.path.join(d, n)
        t = open(p).read()
        t2 = re.sub(r"FIXCOMMIT\(([^)]+?)(?:\.diff)?\)", lambda m: landed.get(m.group(1), m.group(0)), t)
        if t2 != t:
            open(p, "w").write(t2)
    with open(os.path.join(V, "fixes", "landed", "COMMITS.json"), "a") as f:
        f.write(json.dumps(landed) + "\n")


if __name__ == "__main__":
    main()
