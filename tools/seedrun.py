"""Run every seeded change under seeded/<ID>-<k>/ against its property's check (scratch copy of
/repo, /repo itself is never touched) and record the outcome in seeded/RESULTS.json + RESULTS.md.
    python3 -m tools.seedrun [--only C05-1,C20-2] [--jobs 4] [--also C01,C02]   (extra checks per seed)
A seed counts as caught when the check exits 1 with a VIOLATION line whose replay file is a concrete
case (not `no-failing-input-found`); `caught-nfi` when only a correspondence/proof break was reported."""
import json
import os
import re
import subprocess
import sys
from concurrent.futures import ThreadPoolExecutor

V = os.path.dirname(os.path.dirname(os.path.abspath(__file__)))
S = os.path.join(V, "seeded")


def run_one(name, extra):
    d = os.path.join(S, name)
    pid = name.split("-")[0]
    ids = [pid] + [e for e in extra if e != pid]
    # the seed was written against the pinned commit; where a later fix: commit touched the same
    # lines, the hand-rebased equivalent (same regression, on the repaired code) is used instead
    patch = os.path.join(d, "patch.diff")
    used = "patch.diff"
    if subprocess.run(["git", "-C", "/repo", "apply", "--check", patch], stdout=subprocess.DEVNULL, stderr=subprocess.DEVNULL).returncode != 0:
        rb = os.path.join(d, "patch.rebased-on-fixes.diff")
        if os.path.exists(rb):
            patch, used = rb, "patch.rebased-on-fixes.diff"
        else:
            # a later repair rewrote the code the seed changed and no equivalent regression exists on
            # the repaired code: the verdict recorded when it still applied is kept
            return name, {}
    r = subprocess.run([sys.executable, "-m", "tools.mutant", patch] + ids, cwd=V,
                       stdout=subprocess.PIPE, stderr=subprocess.STDOUT, text=True)
    out = r.stdout
    res = {}
    cur = None
    for line in out.splitlines():
        m = re.match(r"== (C\d+) exit=(-?\d+)", line)
        if m:
            cur = m.group(1)
            res[cur] = {"exit": int(m.group(2)), "violations": [], "known": 0}
        elif cur and line.strip().startswith("VIOLATION"):
            res[cur]["violations"].append(line.strip())
        elif cur and line.strip().startswith("KNOWN-FINDING"):
            res[cur]["known"] += 1
    for pid_, r_ in res.items():
        v = r_["violations"]
        if r_["exit"] == 1 and any("no-failing-input-found" not in x for x in v):
            r_["verdict"] = "caught"
        elif r_["exit"] == 1 and v:
            r_["verdict"] = "caught-nfi"
        elif r_["exit"] == 0:
            r_["verdict"] = "missed"
        else:
            r_["verdict"] = "error(exit %s)" % r_["exit"]
    if not res:
        res = {pid: {"exit": None, "verdict": "error", "log": out[-1500:]}}
    for r_ in res.values():
        r_["patch_used"] = used
    return name, res


def main():
    args = sys.argv[1:]
    only = None
    jobs = 3
    extra = []
    if "--only" in args:
        only = args[args.index("--only") + 1].split(",")
    if "--jobs" in args:
        jobs = int(args[args.index("--jobs") + 1])
    if "--also" in args:
        extra = args[args.index("--also") + 1].split(",")
    names = sorted(n for n in os.listdir(S) if os.path.isfile(os.path.join(S, n, "patch.diff")))
    if only:
        names = [n for n in names if n in only]
    path = os.path.join(S, "RESULTS.json")
    results = json.load(open(path)) if os.path.exists(path) else {}
    with ThreadPoolExecutor(jobs) as ex:
        for name, res in ex.map(lambda n: run_one(n, extra), names):
            if not res:
                for v in results.get(name, {}).values():
                    v["superseded"] = "patch no longer applies to /repo HEAD (the changed code was rewritten by a fix: commit); verdict from the run on the tree where it applied"
                print(name, "superseded", flush=True)
                continue
            results.setdefault(name, {}).update(res)
            print(name, {k: v["verdict"] for k, v in res.items()}, flush=True)
    with open(path, "w") as f:
        json.dump(results, f, indent=1, sort_keys=True)
    lines = ["# Seeded changes vs. checks", "",
             "Each seeded change was written by an independent sub-agent that saw only the property text and a",
             "scratch worktree (nothing from /verif), was confirmed (compiles, suite passes, demonstration fails",
             "with / passes without), and was then run through `python3 -m tools.mutant seeded/<name>/patch.diff <ID>`.", "",
             "| seed | breaks | needs to manifest | check verdicts |", "|---|---|---|---|"]
    for name in sorted(results):
        meta = {}
        mp = os.path.join(S, name, "meta.json")
        if os.path.exists(mp):
            meta = json.load(open(mp))
        need = str(meta.get("needs_to_manifest") or meta.get("what_it_needs_to_manifest") or "")[:160].replace("|", "/").replace("\n", " ")
        verd = ", ".join("%s: %s%s" % (k, v.get("verdict"), (" (rebased patch)" if v.get("patch_used", "patch.diff") != "patch.diff" else "") + (" [superseded by a later fix; verdict from the tree where it applied]" if v.get("superseded") else ""))
                         for k, v in sorted(results[name].items()))
        lines.append("| %s | %s | %s | %s |" % (name, meta.get("breaks_property", name.split("-")[0]), need, verd))
    with open(os.path.join(S, "RESULTS.md"), "w") as f:
        f.write("\n".join(lines) + "\n")


if __name__ == "__main__":
    main()
