(* Model side of the correspondence check. Usage: tt-runner <command>;
   reads one s-expression per line on stdin, prints one per line. *)
open Sexp
open Glue
module M = Tt_model

let commands : (string * (Sexp.t -> Sexp.t)) list ref = ref []
let register name f = commands := (name, f) :: !commands

(* ---- C20 ---- *)
let () =
  register "c20-topo" (fun s ->
    (* ((adj (n (d ...)) ...) (req ...) (out ...)) *)
    match list s with
    | [adj; req; out] ->
        let g = list_ (pair_ nat_ (list_ nat_)) adj in
        let req = list_ nat_ req in
        let out = list_ nat_ out in
        let m = M.c20_topo g req in
        List [of_opt (of_list of_nat) m; of_bool (M.c20_topo_ok g req out)]
    | _ -> failwith "c20-topo: bad case");
  register "c20-kahn" (fun s ->
    (* ((order ...) (deps (f t) ...) res) with res = () for Err, ((..)) for Ok *)
    match list s with
    | [order; deps; res] ->
        let order = list_ nat_ order in
        let deps = list_ (pair_ nat_ nat_) deps in
        let res = opt_ (list_ nat_) res in
        let m = match M.c20_kahn order deps with
          | M.Ok l -> List [Atom "ok"; of_list of_nat l]
          | M.Cycle r -> List [Atom "cycle"; of_list of_nat r]
          | M.OutOfFuel -> List [Atom "out-of-fuel"] in
        List [m; of_bool (M.c20_kahn_ok order deps res)]
    | _ -> failwith "c20-kahn: bad case")

let () =
  let cmd = if Array.length Sys.argv > 1 then Sys.argv.(1) else "" in
  let f = try List.assoc cmd !commands with Not_found ->
    prerr_endline ("unknown command " ^ cmd); exit 2 in
  try
    while true do
      let line = input_line stdin in
      if String.trim line <> "" then begin
        let r = try f (Sexp.parse line) with
          | Failure m -> List [Atom "runner-error"; Atom m]
          | Sexp.Parse_error m -> List [Atom "runner-error"; Atom ("parse: " ^ m)]
          | Stack_overflow -> List [Atom "runner-error"; Atom "stack overflow"] in
        print_endline (Sexp.to_string r)
      end
    done
  with End_of_file -> ()
