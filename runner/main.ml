(* Model side of the correspondence check. Usage: tt-runner <command>;
   reads one s-expression per line on stdin, prints one per line.
   Commands are registered by the cmds_*.ml files linked before this one. *)
open Sexp

let () =
  let cmd = if Array.length Sys.argv > 1 then Sys.argv.(1) else "" in
  let f = try List.assoc cmd !Registry.commands with Not_found ->
    prerr_endline ("unknown command " ^ cmd); exit 2 in
  try
    while true do
      let line = input_line stdin in
      if String.trim line <> "" then begin
        let r = try f (Sexp.parse line) with
          | Failure m -> List [Atom "runner-error"; Atom m]
          | Sexp.Parse_error m -> List [Atom "runner-error"; Atom ("parse: " ^ m)]
          | Not_found -> List [Atom "runner-error"; Atom "Not_found"]
          | Invalid_argument m -> List [Atom "runner-error"; Atom m]
          | Stack_overflow -> List [Atom "runner-error"; Atom "stack overflow"] in
        print_endline (Sexp.to_string r);
        flush stdout
      end
    done
  with End_of_file -> ()
