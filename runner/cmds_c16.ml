(* C16: model of the three entry points on an abstract file system, and the oracle.
   Syntax (every string quoted by the python side):
     path  = ("a" "b" ...)                 components below the sandbox root
     node  = ("f" "content") | ("d")
     fs    = ((path node) ...)
     cfg   = (out proj lib_ok force viz)
     ana   = (ok cmds types commands (events)? index txt dot cache)     events: () or ("...")
     entry = ("generate") | ("init" target force parses newtext) | ("build" detected) | ("api")
     run   = (entry cfg ana) *)
open Sexp
open Glue
module M = Tt_model

let path_ s = list_ str_ s
let of_path p = of_list of_str p

let node_ s = match list s with
  | [Atom "f"; c] -> M.File (str_ c)
  | [Atom "d"] -> M.Dir
  | _ -> failwith "node expected"
let of_node = function M.File c -> List [Atom "f"; of_str c] | M.Dir -> List [Atom "d"]

let fs_ s = list_ (pair_ path_ node_) s
let of_fs f = of_list (of_pair of_path of_node) f

let cfg_ s = match list s with
  | [out; proj; lib; force; viz] ->
      { M.c_out = path_ out; c_proj = path_ proj; c_lib_ok = bool_ lib; c_force = bool_ force; c_viz = bool_ viz }
  | _ -> failwith "cfg expected"

let ana_ s = match list s with
  | [ok; cmds; ty; co; ev; ix; txt; dot; cache] ->
      { M.a_ok = bool_ ok; a_cmds = bool_ cmds; k_types = str_ ty; k_commands = str_ co;
        k_events = opt_ str_ ev; k_index = str_ ix; k_txt = str_ txt; k_dot = str_ dot; k_cache = str_ cache }
  | _ -> failwith "ana expected"

let entry_ s = match list s with
  | [Atom "generate"] -> M.Generate
  | [Atom "init"; t; force; parses; nw] ->
      M.Init { M.i_target = path_ t; i_force = bool_ force; i_parses = bool_ parses; i_new = str_ nw }
  | [Atom "build"; d] -> M.Build (bool_ d)
  | [Atom "api"] -> M.Api
  | _ -> failwith "entry expected"

let run_ s = match list s with
  | [e; c; a] -> { M.r_entry = entry_ e; r_cfg = cfg_ c; r_ana = ana_ a }
  | _ -> failwith "run expected"

let of_outcome = function
  | M.Failed -> Atom "failed" | M.NoCommands -> Atom "no-commands" | M.UpToDate -> Atom "up-to-date"
  | M.Regenerated -> Atom "regenerated" | M.NoProject -> Atom "no-project" | M.BuildOk -> Atom "build-ok"

let () =
  (* (fs (run ...)) -> ((outcome fs-after) ...) *)
  Registry.register "history" (fun s ->
    match list s with
    | [f; runs] ->
        let steps = M.c16_steps (fs_ f) (list_ run_ runs) in
        of_list (fun (o, f') -> List [of_outcome o; of_fs f']) steps
    | _ -> failwith "c16-history: bad case");
  (* (out proj (tgt)? (changed ...) (new_dirs ...) (gone_dirs ...)) -> (ok (offending ...)) *)
  Registry.register "oracle" (fun s ->
    match list s with
    | [out; proj; tgt; ch; nd; gd] ->
        let out = path_ out and proj = path_ proj and tgt = opt_ path_ tgt and ch = list_ path_ ch in
        List [of_bool (M.c16_ok out proj tgt ch (list_ path_ nd) (list_ path_ gd));
              of_list of_path (M.c16_bad out proj tgt ch)]
    | _ -> failwith "c16-oracle: bad case");
  (* (name (managed ...)) -> (reserved is_generated) *)
  Registry.register "names" (fun s ->
    match list s with
    | [n; managed] ->
        List [of_bool (M.c16_reserved_name (str_ n)); of_bool (M.c16_is_generated (list_ str_ managed) (str_ n))]
    | _ -> failwith "c16-names: bad case")
