(* C15: byte-faithful string functions (outcome incl. panic) and the class predicates. *)
open Sexp
open Glue
module M = Tt_model

let of_outcome f = function
  | M.Panic -> Atom "panic"
  | M.OutOfFuel -> Atom "fuel"
  | M.Ok v -> List [Atom "ok"; f v]

let of_vcon c = List [of_opt of_str c.M.v_min; of_opt of_str c.M.v_max; of_opt of_str c.M.v_msg]

let rec of_ts = function
  | M.TPrim s -> List [Atom "prim"; of_str s]
  | M.TArr t -> List [Atom "arr"; of_ts t]
  | M.TMap (k, v) -> List [Atom "map"; of_ts k; of_ts v]
  | M.TSet t -> List [Atom "set"; of_ts t]
  | M.TTuple l -> List (Atom "tuple" :: List.map of_ts l)
  | M.TOpt t -> List [Atom "opt"; of_ts t]
  | M.TRes t -> List [Atom "res"; of_ts t]
  | M.TCustom s -> List [Atom "custom"; of_str s]

let rule_name = function
  | M.RLower -> "lowercase" | M.RUpper -> "UPPERCASE" | M.RPascal -> "PascalCase" | M.RCamel -> "camelCase"
  | M.RSnake -> "snake_case" | M.RScreamingSnake -> "SCREAMING_SNAKE_CASE" | M.RKebab -> "kebab-case"
  | M.RScreamingKebab -> "SCREAMING-KEBAB-CASE"

let rule_of_name s = match M.c15_rule_of_str (explode s) with Some r -> r | None -> failwith "rule"

let () =
  Registry.register "validator" (fun s ->
    let t = str_ s in
    let o = M.c15_validator t in
    List [of_outcome (fun a -> List [of_bool a.M.va_email; of_bool a.M.va_url;
                                      of_opt of_vcon a.M.va_length; of_opt of_vcon a.M.va_range]) o;
          of_bool false; of_bool (M.c15_utf8 t)]);
  Registry.register "serde" (fun s ->
    let t = str_ s in
    let o = M.c15_serde t in
    List [of_outcome (fun a ->
            let rule = match a.M.sa_rename_all with
              | Some v -> (match M.c15_rule_of_str v with Some r -> List [Atom (rule_name r)] | None -> List [])
              | None -> List [] in
            List [of_opt of_str a.M.sa_rename; of_bool a.M.sa_skip; rule]) o;
          of_bool false; of_bool (M.c15_utf8 t)]);
  Registry.register "type" (fun s ->
    let t = str_ s in
    List [of_outcome of_ts (M.c15_parse t); of_outcome (of_list of_str) (M.c15_names t); of_bool (M.c15_utf8 t)]);
  Registry.register "prefix" (fun s ->
    let t = str_ s in
    List [of_outcome of_str (M.c15_prefix t); of_bool (M.c15_utf8 t)]);
  Registry.register "naming" (fun s ->
    (* (rule name) : apply_naming_convention; rule = event for event_name_to_function;
       rule = variant:<rule> for compute_variant_name (apply_to_variant) *)
    match list s with
    | [r; n] ->
        let n = str_ n in
        let r = atom r in
        let is_variant = String.length r > 8 && String.sub r 0 8 = "variant:" in
        let is_default = String.length r >= 8 && String.sub r 0 8 = "default:" in
        let o = if r = "event" then M.c15_event_fn n
                else if is_default then M.c15_default_case (explode (String.sub r 8 (String.length r - 8))) n
                else if is_variant then M.c15_variant (rule_of_name (String.sub r 8 (String.length r - 8))) n
                else M.c15_apply (rule_of_name r) n in
        let kf = false in   (* no recorded class is left *)
        List [of_outcome of_str o; of_bool kf; of_bool (M.c15_utf8 n)]
    | _ -> failwith "c15-naming: bad case");
  Registry.register "walker" (fun s ->
    (* (emit <emit_to> <n>) | (attr <leading> (seg ...)) | (param (seg ...)) *)
    match list s with
    | [Atom "emit"; et; n] ->
        of_outcome (of_opt (of_pair of_nat of_nat)) (M.c15_emit_select (bool_ et) (nat_ n))
    | [Atom "attr"; lc; segs] ->
        of_outcome of_bool (M.c15_attr_is_command (bool_ lc) (list_ str_ segs))
    | [Atom "param"; segs] ->
        of_outcome of_bool (M.c15_tauri_param (list_ str_ segs))
    | _ -> failwith "c15-walker: bad case");
  Registry.register "kf" (fun s ->
    (* (kind text): class predicates, used on the inventory of a project-level case *)
    match list s with
    | [k; t] ->
        let t = str_ t in
        of_bool (match atom k with
                 | "variant" | "camel" | "validate" | "serde" -> false
                 | _ -> failwith "kind")
    | _ -> failwith "c15-kf: bad case")
