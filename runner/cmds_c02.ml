(* C02: set-level model of the generated module graph, and the closedness oracle on the
   implementation's four files. All logic is extracted Gallina; this file only decodes the case. *)
open Sexp
open Glue
module M = Tt_model

let rec of_sx (s : M.sx) : Sexp.t = match s with
  | M.SA a -> Atom (implode a)
  | M.SL l -> List (List.map of_sx l)

(* type: (p (seg ...) name angle (arg ...)) | (r ty) | (t (ty ...)) *)
let rec ty_ s : M.qty =
  match list s with
  | [Atom "p"; segs; name; angle; args] -> M.QPath (list_ str_ segs, str_ name, bool_ angle, list_ ty_ args)
  | [Atom "r"; t] -> M.QRef (ty_ t)
  | [Atom "t"; ts] -> M.QTuple (list_ ty_ ts)
  | _ -> failwith "c02: bad type"

let payload_ s : M.payload =
  match list s with
  | [Atom "var"; n] -> M.PVar (str_ n)
  | [Atom "unit"] -> M.PUnit
  | [Atom "str"] -> M.PStr
  | [Atom "int"] -> M.PInt
  | [Atom "bool"] -> M.PBool
  | [Atom "struct"; n] -> M.PStruct (str_ n)
  | [Atom "other"] -> M.POther
  | _ -> failwith "c02: bad payload"

let emit_ s : M.emit_site =
  match list s with
  | [name; recv; pl] -> { M.em_name = str_ name; em_recv = str_ recv; em_payload = payload_ pl }
  | _ -> failwith "c02: bad emit"

let rec init_ s : M.init =
  match list s with
  | [Atom "struct"; n] -> M.IStruct (str_ n)
  | [Atom "call"; h] -> M.ICall (str_ h)
  | [Atom "var"; w] -> M.IVar (str_ w)
  | [Atom "ref"; i] -> M.IRef (init_ i)
  | [Atom "other"] -> M.IOther
  | _ -> failwith "c02: bad init"

let stmt_ s : M.stmt =
  match list s with
  | [Atom "let"; v; i] -> M.SLet (str_ v, init_ i)
  | [Atom "letty"; v; t] -> M.SLetTy (str_ v, ty_ t)
  | [Atom "emit"; e] -> M.SEmit (emit_ e)
  | _ -> failwith "c02: bad stmt"

let field_ s : M.sfield =
  match list s with
  | [t; skip] -> { M.sf_ty = ty_ t; sf_skip = bool_ skip }
  | _ -> failwith "c02: bad field"

let item_ s : M.ritem =
  match list s with
  | [Atom "struct"; name; serde; named; fields] -> M.RStruct (str_ name, bool_ serde, bool_ named, list_ field_ fields)
  | [Atom "enum"; name; serde] -> M.REnum (str_ name, bool_ serde)
  | [Atom "fn"; name; is_cmd; params; ret; emits] ->
      M.RFn (str_ name, bool_ is_cmd, list_ (pair_ str_ ty_) params, opt_ ty_ ret, list_ stmt_ emits)
  | [Atom "other"] -> M.ROther
  | _ -> failwith "c02: bad item"

let file_ s : char list option =
  match s with
  | List [] -> None
  | List [t] -> Some (str_ t)
  | _ -> failwith "c02: bad file"

let () =
  (* ((item ...) ((k v) ...) zod) *)
  Registry.register "model" (fun s ->
    match list s with
    | [items; maps; zod] ->
        let p = { M.pj_items = list_ item_ items; pj_maps = list_ (pair_ str_ str_) maps } in
        of_sx (M.c02_model p (bool_ zod))
    | _ -> failwith "c02-model: bad case");
  (* (types? commands? events? index?) each () or (text) *)
  Registry.register "judge" (fun s ->
    match list s with
    | [t; c; e; i] -> of_sx (M.c02_judge (file_ t) (file_ c) (file_ e) (file_ i))
    | _ -> failwith "c02-judge: bad case");
  (* ((round ...) zod), round = (((rank (item ...)) ...) ((k v) ...)) *)
  Registry.register "reuse" (fun s ->
    match list s with
    | [rounds; zod] ->
        let round_ r = match list r with
          | [files; maps] -> { M.ri_files = list_ (pair_ nat_ (list_ item_)) files; ri_maps = list_ (pair_ str_ str_) maps }
          | _ -> failwith "c02-reuse: bad round" in
        of_sx (M.c02_reuse (list_ round_ rounds) (bool_ zod))
    | _ -> failwith "c02-reuse: bad case");
  (* (rust-type-string real-filter-output) *)
  Registry.register "atp" (fun s ->
    match list s with
    | [r; real] -> of_sx (M.c02_atp (str_ r) (str_ real))
    | _ -> failwith "c02-atp: bad case")
