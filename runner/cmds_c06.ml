(* C06: model, specification, classes and oracle on one container; reader of types.ts. *)
open Sexp
open Glue
module M = Tt_model

let side_ s = match atom s with "ser" -> true | "de" -> false | _ -> failwith "c06: bad side"

let meta_ s : M.meta =
  match list s with
  | [Atom "rename"; v] -> M.MRename (str_ v)
  | [Atom "renamep"; l] -> M.MRenameP (list_ (pair_ side_ str_) l)
  | [Atom "skip"] -> M.MSkip
  | [Atom "other"; n] -> M.MOther (str_ n, None)
  | [Atom "other"; n; v] -> M.MOther (str_ n, Some (str_ v))
  | _ -> failwith "c06: bad meta"

let cmeta_ s : M.cmeta =
  match list s with
  | [Atom "ra"; v] -> M.CRenameAll (str_ v)
  | [Atom "rap"; l] -> M.CRenameAllP (list_ (pair_ side_ str_) l)
  | [Atom "flag"; n] -> M.CFlag (str_ n)
  | [Atom "kv"; n; v] -> M.CKV (str_ n, str_ v)
  | _ -> failwith "c06: bad container meta"

let item_ s : M.item =
  match list s with
  | [id; groups] -> { M.it_ident = str_ id; M.it_attrs = list_ (list_ meta_) groups }
  | _ -> failwith "c06: bad item"

let container_ s : M.container =
  match list s with
  | [k; cattrs; items] ->
      let kind = match atom k with "struct" -> M.KStruct | "enum" -> M.KEnum | _ -> failwith "c06: bad kind" in
      { M.c_kind = kind; M.c_attrs = list_ (list_ cmeta_) cattrs; M.c_items = list_ item_ items }
  | _ -> failwith "c06: bad container"

let () =
  Registry.register "eval" (fun s ->
    (* (dfc container (obs ...)) with obs = list of names observed on the implementation *)
    match list s with
    | [dfc; c; obs] ->
        let dfc = str_ dfc in
        let c = container_ c in
        let obs = list_ (list_ str_) obs in
        (* the model is total since the camelCase guards; the tag is kept for the python side *)
        let model = List [Atom "ok"; of_list of_str (M.c06_model dfc c)] in
        List [model;
              of_bool (M.c06_in_domain c);
              of_list of_bool (M.c06_classes dfc c);
              of_list of_str (M.c06_spec c);
              of_list (fun o -> of_bool (M.c06_oracle c o)) obs;
              of_list (fun (it : M.item) -> of_list (fun g -> of_str (M.c06_group_string g)) it.M.it_attrs) c.M.c_items;
              of_list (fun g -> of_str (M.c06_cgroup_string g)) c.M.c_attrs]
    | _ -> failwith "c06-eval: bad case");
  Registry.register "eval-raw" (fun s ->
    (* (dfc kind (container token strings) ((ident (token strings)) ...)) *)
    match list s with
    | [dfc; k; ctoks; items] ->
        let kind = match atom k with "struct" -> M.KStruct | "enum" -> M.KEnum | _ -> failwith "c06: bad kind" in
        List [Atom "ok"; of_list of_str (M.c06_model_raw (str_ dfc) kind (list_ str_ ctoks) (list_ (pair_ str_ (list_ str_)) items))]
    | _ -> failwith "c06-eval-raw: bad case");
  Registry.register "print" (fun s ->
    (* (what type-name ((name bare opt value-text) ...)) -> the declaration text of Model/C06Print.v *)
    let b_ x = (atom x = "true") in
    let member_ x = match list x with
      | [n; b; o; v] -> (str_ n, (b_ b, (b_ o, str_ v)))
      | _ -> failwith "c06-print: bad member" in
    match list s with
    | [w; n; ms; real] ->
        let ms = list_ member_ ms in
        let names = List.map fst ms in
        let text = (match atom w with
         | "interface" -> M.c06_interface_text (str_ n) ms
         | "zobject" -> M.c06_zobject_text (str_ n) ms
         | "alias" -> M.c06_alias_text (str_ n) names
         | "zenum" -> M.c06_zenum_text (str_ n) names
         | _ -> failwith "c06-print: bad kind") in
        (* the model text, and whether the real declaration is the same token sequence (Spec/TsLex; white space is irrelevant) *)
        List [of_str text; of_bool (M.c06_lex text = M.c06_lex (str_ real))]
    | _ -> failwith "c06-print: bad case");
  Registry.register "keys" (fun s ->
    (* (type-name file-text) -> () when the file is outside the module grammar, else ((decls)) *)
    match list s with
    | [n; file] ->
        (match M.c06_read_keys (str_ n) (str_ file) with
         | None -> List []
         | Some ds ->
             List [of_list (fun d -> match d with
               | M.DInterface l -> List [Atom "interface"; of_list of_str l]
               | M.DLiterals l -> List [Atom "literals"; of_list of_str l]
               | M.DZObject l -> List [Atom "zobject"; of_list of_str l]
               | M.DZEnum l -> List [Atom "zenum"; of_list of_str l]) ds])
    | _ -> failwith "c06-keys: bad case")
