(* C11: model of the validator scanners + Zod chain rendering, and the oracle.
   Command `fields`: one struct per line,
     ((field ...) (impl ...))   field = (ty (attr ...)), impl = () | ("<chain text emitted by the implementation>")
   ty   = s | n | b | (v ty) | (o ty) | (c name)
   attr = (validate item ...) | path | other
   item = (length arg ...) | (range arg ...) | (email) | (email (arg ...)) | (url) | (url (arg ...))
        | (x name) | (x name ((key lit) ...))
   arg  = (min neg lit) | (max neg lit) | (equal neg lit) | (msg lit value) | (code lit)
   answer per field:
     (model tokens domain kf-flags ok-of-impl read-of-impl read-of-model ok-of-model expected) *)
open Sexp
open Glue
module M = Tt_model

(* ---- str::parse::<f64> followed by Display (trusted glue; validated on every case against the harness) ---- *)
let is_digit c = c >= '0' && c <= '9'

(* Rust's grammar for f64::from_str: [+-]? ( inf | infinity | nan | digits [. digits*] [e[+-]?digits] | . digits ... ) *)
let rust_f64_grammar (s : string) : bool =
  let n = String.length s in
  let i = ref 0 in
  if !i < n && (s.[!i] = '+' || s.[!i] = '-') then incr i;
  let a = !i in
  while !i < n && is_digit s.[!i] do incr i done;
  let ip = !i - a in
  let fp = ref 0 in
  if !i < n && s.[!i] = '.' then begin
    incr i;
    let b = !i in
    while !i < n && is_digit s.[!i] do incr i done;
    fp := !i - b
  end;
  if ip + !fp = 0 then false
  else if !i = n then true
  else if s.[!i] = 'e' || s.[!i] = 'E' then begin
    incr i;
    if !i < n && (s.[!i] = '+' || s.[!i] = '-') then incr i;
    let c = !i in
    while !i < n && is_digit s.[!i] do incr i done;
    !i > c && !i = n
  end else false

let positional (neg : bool) (digits : string) (e10 : int) : string =
  (* value = 0.d1d2.. * 10^(e10+1)  i.e. d1.d2d3.. * 10^e10 ; digits has no trailing zeros unless it is "0" *)
  let nd = String.length digits in
  let body =
    if digits = "0" then "0"
    else if e10 >= nd - 1 then digits ^ String.make (e10 - (nd - 1)) '0'
    else if e10 >= 0 then String.sub digits 0 (e10 + 1) ^ "." ^ String.sub digits (e10 + 1) (nd - e10 - 1)
    else "0." ^ String.make (-e10 - 1) '0' ^ digits in
  (if neg then "-" else "") ^ body

let display_f64 (x : float) : string =
  if x <> x then "NaN"
  else if x = infinity then "inf"
  else if x = neg_infinity then "-inf"
  else begin
    let neg = 1.0 /. x < 0.0 || x < 0.0 in
    let ax = abs_float x in
    if ax = 0.0 then (if neg then "-0" else "0")
    else begin
      let rec shortest p =
        let s = Printf.sprintf "%.*e" (p - 1) ax in
        if p >= 17 || float_of_string s = ax then s else shortest (p + 1) in
      let s = shortest 1 in
      let epos = String.index s 'e' in
      let mant = String.sub s 0 epos in
      let e10 = int_of_string (String.sub s (epos + 1) (String.length s - epos - 1)) in
      let digits = String.concat "" (String.split_on_char '.' mant) in
      let digits =
        let k = ref (String.length digits) in
        while !k > 1 && digits.[!k - 1] = '0' do decr k done;
        String.sub digits 0 !k in
      positional neg digits e10
    end
  end

let dispf (cl : char list) : char list option =
  let s = implode cl in
  let n = String.length s in
  let body = if n > 0 && (s.[0] = '+' || s.[0] = '-') then String.sub s 1 (n - 1) else s in
  let neg = n > 0 && s.[0] = '-' in
  let lb = String.lowercase_ascii body in
  if lb = "inf" || lb = "infinity" then Some (explode (if neg then "-inf" else "inf"))
  else if lb = "nan" then Some (explode "NaN")
  else if rust_f64_grammar s then
    (try Some (explode (display_f64 (float_of_string s))) with _ -> None)
  else None

(* ---- decoders ---- *)
let rec ty_ s : M.ty = match s with
  | Atom "s" -> M.TyString | Atom "n" -> M.TyNum | Atom "b" -> M.TyBool
  | List [Atom "v"; t] -> M.TyVec (ty_ t)
  | List [Atom "o"; t] -> M.TyOpt (ty_ t)
  | List [Atom "c"; n] -> M.TyCustom (str_ n)
  | _ -> failwith "c11: bad type"
let arg_ s : M.arg = match s with
  | List [Atom "min"; neg; lit] -> M.AMin (M.Num (bool_ neg, str_ lit))
  | List [Atom "max"; neg; lit] -> M.AMax (M.Num (bool_ neg, str_ lit))
  | List [Atom "msg"; lit; v] -> M.AMsg (str_ lit, str_ v)
  | List [Atom "equal"; neg; lit] -> M.AEqual (M.Num (bool_ neg, str_ lit))
  | List [Atom "code"; lit] -> M.ACode (str_ lit)
  | _ -> failwith "c11: bad arg"
let item_ s : M.item = match s with
  | List (Atom "length" :: args) -> M.ILength (List.map arg_ args)
  | List (Atom "range" :: args) -> M.IRange (List.map arg_ args)
  | List [Atom "email"] -> M.IEmail None
  | List [Atom "email"; List args] -> M.IEmail (Some (List.map arg_ args))
  | List [Atom "url"] -> M.IUrl None
  | List [Atom "url"; List args] -> M.IUrl (Some (List.map arg_ args))
  | List [Atom "x"; name] -> M.IOther (str_ name, None)
  | List [Atom "x"; name; List kv] -> M.IOther (str_ name, Some (List.map (pair_ str_ str_) kv))
  | _ -> failwith "c11: bad item"
let attr_ s : M.attr = match s with
  | List (Atom "validate" :: items) -> M.AValidate (List.map item_ items)
  | Atom "path" -> M.AValidatePath
  | Atom "other" -> M.ANotValidate
  | _ -> failwith "c11: bad attr"
let field_ s : M.field = match s with
  | List [t; List attrs] -> { M.f_ty = ty_ t; M.f_attrs = List.map attr_ attrs }
  | _ -> failwith "c11: bad field"

(* ---- encoders ---- *)
let of_ostr = of_opt of_str
let of_cstr (c : M.cstr) = List [of_ostr c.M.c_min; of_ostr c.M.c_max; of_ostr c.M.c_msg]
let of_va (v : M.vattrs) =
  List [of_opt of_cstr v.M.v_length; of_opt of_cstr v.M.v_range; of_bool v.M.v_email; of_bool v.M.v_url]
let of_meth (m : M.meth) = match m with
  | M.MEmail x -> List [Atom "email"; of_ostr x]
  | M.MUrl x -> List [Atom "url"; of_ostr x]
  | M.MMin (n, x) -> List [Atom "min"; of_str n; of_ostr x]
  | M.MMax (n, x) -> List [Atom "max"; of_str n; of_ostr x]
  | M.MOptional -> List [Atom "optional"]
let rec of_schema (s : M.schema) = match s with
  | M.Sch (b, inner, ms) -> List [of_str b; of_list of_schema inner; of_list of_meth ms]
let rec int_of_pos (p : M.positive) = match p with
  | M.XH -> 1 | M.XO q -> 2 * int_of_pos q | M.XI q -> 2 * int_of_pos q + 1
let int_of_z (z : M.z) = match z with M.Z0 -> 0 | M.Zpos p -> int_of_pos p | M.Zneg p -> - (int_of_pos p)
let of_dec (d : M.dec) = List [of_bool d.M.d_neg; of_str d.M.d_digits; of_int (int_of_z d.M.d_exp)]
let of_cons (c : M.cons) = match c with
  | M.CEmail x -> List [Atom "email"; of_ostr x]
  | M.CUrl x -> List [Atom "url"; of_ostr x]
  | M.CMin (d, x) -> List [Atom "min"; of_dec d; of_ostr x]
  | M.CMax (d, x) -> List [Atom "max"; of_dec d; of_ostr x]

let () =
  Registry.register "fields" (fun s ->
    match list s with
    | [fields; impls] ->
        let fs = List.map field_ (list fields) in
        let impls = List.map (opt_ str_) (list impls) in
        let model = M.c11_model dispf fs in
        let one (f, (m, impl)) =
          let mo, mchain = match m with
            | M.Panic -> List [Atom "panic"], None
            | M.Ok (va, chain) -> List [Atom "ok"; of_opt of_va va; of_str chain], Some chain in
          let toks = of_list (of_opt (of_opt of_str)) (M.c11_tokens f) in
          let ok_of c = match c with Some c -> of_bool (M.c11_ok f c) | None -> of_bool false in
          let read_of c = match c with Some c -> of_opt of_schema (M.c11_read c) | None -> List [] in
          List [mo; toks; of_bool (M.c11_domain f); of_list of_bool (M.c11_kf dispf f);
                ok_of impl; read_of impl; read_of mchain; ok_of mchain;
                of_opt (of_list of_cons) (M.c11_expected f)] in
        of_list one (List.combine fs (List.combine model impls))
    | _ -> failwith "c11-fields: bad case");
  Registry.register "dispf" (fun s ->
    of_opt of_str (dispf (str_ s)))
