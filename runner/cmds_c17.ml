(* C17: faulty runs and recovery; decoders as in cmds_c08.ml. *)
open Sexp
open Glue
module M = Tt_model

let ostr_ s = opt_ str_ s
let tag s = match s with List (Atom t :: r) -> (t, r) | _ -> failwith "tagged list expected"

let param_ s = match tag s with
  | ("p", [n; t; o]) -> { M.p_name = str_ n; p_type = str_ t; p_opt = bool_ o; p_rename = None }
  | ("p", [n; t; o; r]) -> { M.p_name = str_ n; p_type = str_ t; p_opt = bool_ o; p_rename = ostr_ r }
  | _ -> failwith "param"
let chan_ s = match tag s with
  | ("c", [p; m]) -> { M.ch_param = str_ p; ch_msg = str_ m }
  | _ -> failwith "chan"
let command_ s = match tag s with
  | ("k", [n; f; ln; ps; r; a; cs; ra]) ->
      { M.c_name = str_ n; c_file = str_ f; c_line = str_ ln; c_params = list_ param_ ps; c_ret = str_ r; c_async = bool_ a;
        c_chans = list_ chan_ cs; c_rename_all = ostr_ ra }
  | _ -> failwith "command"
let field_ s = match tag s with
  | ("f", [n; t; o; p; r; v]) ->
      { M.f_name = str_ n; f_type = str_ t; f_opt = bool_ o; f_pub = bool_ p; f_rename = ostr_ r; f_valid = ostr_ v }
  | _ -> failwith "field"
let struct_ s = match tag s with
  | ("s", [n; f; e; fs; ra]) ->
      { M.s_name = str_ n; s_file = str_ f; s_enum = bool_ e; s_fields = list_ field_ fs; s_rename_all = ostr_ ra }
  | _ -> failwith "struct"
let event_ s = match tag s with
  | ("e", [n; p]) -> { M.e_name = str_ n; e_payload = str_ p }
  | _ -> failwith "event"
let sfile_ s = match list s with
  | [p; cs; ss; es; nd] ->
      { M.sf_path = str_ p; sf_cmds = list_ command_ cs; sf_structs = list_ struct_ ss; sf_events = list_ event_ es;
        sf_ndefs = str_ nd }
  | _ -> failwith "sfile"
let project_ s = list_ sfile_ s
let config_ s = match list s with
  | [lib; pr; maps; pc; fc; viz; force; pp] ->
      { M.g_lib = str_ lib; g_private = bool_ pr; g_maps = opt_ (list_ (pair_ str_ str_)) maps;
        g_pcase = str_ pc; g_fcase = str_ fc; g_viz = bool_ viz; g_force = bool_ force; g_ppath = str_ pp }
  | _ -> failwith "config"
let sched_ s = match list s with
  | [f; m] -> { M.w_files = list_ nat_ f; w_maps = list_ nat_ m }
  | _ -> failwith "sched"
let fname_ s = match atom s with
  | "types" -> M.Types | "commands" -> M.Commands | "events" -> M.Events | "index" -> M.Index
  | "graphtxt" -> M.GraphTxt | "graphdot" -> M.GraphDot | _ -> failwith "fname"
let of_fname = function
  | M.Types -> Atom "types" | M.Commands -> Atom "commands" | M.Events -> Atom "events" | M.Index -> Atom "index"
  | M.GraphTxt -> Atom "graphtxt" | M.GraphDot -> Atom "graphdot"
let result_ s = match atom s with
  | "no_commands" -> M.NoCommands | "up_to_date" -> M.UpToDate | "regenerated" -> M.Success | "failed" -> M.Failure
  | _ -> failwith "result"
let of_result = function
  | M.NoCommands -> Atom "no_commands" | M.UpToDate -> Atom "up_to_date" | M.Success -> Atom "regenerated"
  | M.Failure -> Atom "failed"
let hstep_ s = match tag s with
  | ("set", [p; c]) -> M.HSet (project_ p, config_ c)
  | ("delete", [f]) -> M.HDelete (fname_ f)
  | ("dropcache", []) -> M.HDropCache
  | ("corrupt", [f]) -> M.HCorrupt (fname_ f)
  | ("run", [w; flag; fault]) -> M.HRun (sched_ w, bool_ flag, opt_ nat_ fault)
  | _ -> failwith "hstep"
let of_obs (o : M.hobs) =
  List [of_result o.M.o_result; of_list of_fname o.M.o_missing; of_list of_fname o.M.o_different;
        of_list of_nat o.M.o_classes; of_bool o.M.o_cache_current]

let () =
  Registry.register "trace" (fun s ->
    match list s with
    | [p; c; h] -> of_list of_obs (M.c17_trace (project_ p) (config_ c) (list_ hstep_ h))
    | _ -> failwith "c17-trace: bad case");
  Registry.register "index" (fun s ->
    (* (sched project config (fname)|()) -> (k) | () *)
    match list s with
    | [w; p; c; f] -> of_opt of_nat (M.c17_fault_index (sched_ w) (project_ p) (config_ c) (opt_ fname_ f))
    | _ -> failwith "c17-index: bad case");
  Registry.register "record" (fun s ->
    match list s with
    | [r; b] -> of_bool (M.c17_record_ok (result_ r) (bool_ b))
    | _ -> failwith "c17-record: bad case");
  Registry.register "post" (fun s ->
    (* (project config steps sched flag k n rm_ok steps2) -> (class fault left complete vouches recovery current) *)
    match list s with
    | [p; c; h; w; flag; k; n; rm; h2] ->
        let o = M.c17_post (project_ p) (config_ c) (list_ hstep_ h) (sched_ w) (bool_ flag) (nat_ k) (nat_ n) (bool_ rm)
                  (list_ hstep_ h2) in
        List [of_bool o.M.po_class; of_result o.M.po_fault; of_bool o.M.po_left; of_bool o.M.po_left_complete;
              of_bool o.M.po_vouches; of_result o.M.po_recovery; of_bool o.M.po_current]
    | _ -> failwith "c17-post: bad case");
  Registry.register "oracle" (fun s ->
    match list s with
    | [b; rf; v; cf; rr; cr; fr] ->
        of_bool (M.c17_ok (bool_ b) (result_ rf) (bool_ v) (bool_ cf) (result_ rr) (bool_ cr) (bool_ fr))
    | _ -> failwith "c17-oracle: bad case")
