(* C12: model, specification and oracle for event listeners.
   case: (project events-ts-opt index-ts-opt)
   project: ((file ...) has-command ((rust-name ts-target) ...))   file: (fn ...)   fn: ((param ...) (stmt ...))
   param: (name-opt qty)   qty: (path (seg ..) name angle (arg ..)) | (ref t) | (tuple (t ..))
   expr: (method recv m (arg ..)) | (path (seg ..)) | (field base name) | (lit kind [value]) | (struct (seg ..))
       | (ref e) | (call f (arg ..)) | (tuple (e ..)) | (block (s ..)) | (if (s ..) else-opt) | (match (arm ..))
       | (loop (s ..)) | (while (s ..)) | (for (s ..)) | (await e) | (try e) | (other)
   stmt: (expr e) | (let pat init-opt) | (other)     pat: (ident n) | (typed n qty) | (other) *)
open Sexp
open Glue
module M = Tt_model

let rec qty_ s : M.qty =
  match list s with
  | [Atom "path"; segs; name; angle; args] -> M.QPath (list_ str_ segs, str_ name, bool_ angle, list_ qty_ args)
  | [Atom "ref"; t] -> M.QRef (qty_ t)
  | [Atom "tuple"; ts] -> M.QTuple (list_ qty_ ts)
  | _ -> failwith "c12: bad type"

let pat_ s : M.pat =
  match list s with
  | [Atom "ident"; n] -> M.PIdent (str_ n)
  | [Atom "typed"; n; t] -> M.PTyped (str_ n, qty_ t)
  | [Atom "other"] -> M.POther
  | _ -> failwith "c12: bad pattern"

let lit_ = function
  | [Atom "str"; v] -> M.LStr (str_ v)
  | [Atom "int"] -> M.LInt
  | [Atom "float"] -> M.LFloat
  | [Atom "bool"] -> M.LBool
  | [Atom "other"] -> M.LOther
  | _ -> failwith "c12: bad literal"

let rec expr_ s : M.expr =
  match list s with
  | [Atom "method"; r; m; args] -> M.XMethod (expr_ r, str_ m, list_ expr_ args)
  | [Atom "path"; segs] -> M.XPath (list_ str_ segs)
  | [Atom "field"; b; n] -> M.XField (expr_ b, str_ n)
  | Atom "lit" :: rest -> M.XLit (lit_ rest)
  | [Atom "struct"; segs] -> M.XStruct (list_ str_ segs)
  | [Atom "ref"; e] -> M.XRef (expr_ e)
  | [Atom "call"; f; args] -> M.XCall (expr_ f, list_ expr_ args)
  | [Atom "tuple"; es] -> M.XTuple (list_ expr_ es)
  | [Atom "block"; ss] -> M.XBlock (list_ stmt_ ss)
  | [Atom "if"; th; el] -> M.XIf (list_ stmt_ th, opt_ expr_ el)
  | [Atom "match"; arms] -> M.XMatch (list_ expr_ arms)
  | [Atom "loop"; ss] -> M.XLoop (list_ stmt_ ss)
  | [Atom "while"; ss] -> M.XWhile (list_ stmt_ ss)
  | [Atom "for"; ss] -> M.XFor (list_ stmt_ ss)
  | [Atom "await"; e] -> M.XAwait (expr_ e)
  | [Atom "try"; e] -> M.XTry (expr_ e)
  | [Atom "other"] -> M.XOther
  | _ -> failwith "c12: bad expression"
and stmt_ s : M.stmt =
  match list s with
  | [Atom "expr"; e] -> M.SExpr (expr_ e)
  | [Atom "let"; p; i] -> M.SLet (pat_ p, opt_ expr_ i)
  | [Atom "other"] -> M.SOther
  | _ -> failwith "c12: bad statement"

let fn_ s : M.fndef =
  match list s with
  | [params; body] -> { M.fd_params = list_ (pair_ (opt_ str_) qty_) params; M.fd_body = list_ stmt_ body }
  | _ -> failwith "c12: bad fn"

let project_ s : M.project =
  match list s with
  | [files; has; maps] -> { M.p_files = list_ (list_ fn_) files; M.p_has_command = bool_ has; M.p_mappings = list_ (pair_ str_ str_) maps }
  | _ -> failwith "c12: bad project"

let rec of_sx = function M.SA s -> Atom (implode s) | M.SL l -> List (List.map of_sx l)

let () =
  Registry.register "case" (fun s ->
    match list s with
    | [p; ev; ix] -> of_sx (M.c12_run (project_ p) (opt_ str_ ev) (opt_ str_ ix))
    | _ -> failwith "c12-case: bad case")
