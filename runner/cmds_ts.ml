(* Shared tool: parse generated TypeScript with the Coq specification parser.
   Input: a quoted string (the file's bytes); output: the s-expression built in Gallina. *)
open Sexp
open Glue
module M = Tt_model

let rec of_sx (s : M.sx) : Sexp.t = match s with
  | M.SA a -> Atom (implode a)
  | M.SL l -> List (List.map of_sx l)

let () =
  Registry.register "parse" (fun s -> of_sx (M.ts_parse_sx (str_ s)));
  Registry.register "tokens" (fun s -> of_sx (M.ts_tokens_sx (str_ s)));
  Registry.register "summary" (fun s -> of_sx (M.ts_summary_sx (str_ s)))
