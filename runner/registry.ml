(* Command registry of the runner: each cmds_*.ml registers its commands. *)
let commands : (string * (Sexp.t -> Sexp.t)) list ref = ref []
let register name f = commands := (name, f) :: !commands
