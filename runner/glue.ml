(* Conversions between s-expressions and the extracted model's types. *)
open Sexp
module M = Tt_model

let rec nat_of_int (i : int) : M.nat = if i <= 0 then M.O else M.S (nat_of_int (i - 1))
let rec int_of_nat (n : M.nat) : int = match n with M.O -> 0 | M.S m -> 1 + int_of_nat m

let explode (s : string) : char list = List.init (String.length s) (String.get s)
let implode (l : char list) : string = String.of_seq (List.to_seq l)

let atom = function Atom a -> a | List _ -> failwith "atom expected"
let list = function List l -> l | Atom _ -> failwith "list expected"
let int_ s = int_of_string (atom s)
let nat_ s = nat_of_int (int_ s)
let str_ s = explode (atom s)
let bool_ s = match atom s with "true" | "1" -> true | "false" | "0" -> false | _ -> failwith "bool expected"
let list_ f s = List.map f (list s)
let pair_ f g s = match list s with [a; b] -> (f a, g b) | _ -> failwith "pair expected"
let opt_ f s = match s with List [] -> None | List [x] -> Some (f x) | Atom "none" -> None | _ -> failwith "option expected"

let of_int i = Atom (string_of_int i)
let of_nat n = of_int (int_of_nat n)
let of_str l = Atom (implode l)
let of_bool b = Atom (if b then "true" else "false")
let of_list f l = List (List.map f l)
let of_pair f g (a, b) = List [f a; g b]
let of_opt f = function None -> List [] | Some x -> List [f x]
