(* C19: model and oracles for configuration handling.
   Encodings (s-expressions):
     json   : (z) | (b true|false) | (n "token") | (s "text") | (a v ...) | (o (k v) ...)
     option : () | (x)
     config : (project output lib verbose viz incpriv tmaps excl incl pcase fcase force)
              verbose/viz/incpriv/force : option bool; tmaps : option ((k v) ...);
              excl/incl : option (s ...)
     fs     : ((path node) ...)  node : (dir) | (proj) | (doc) = unparseable | (doc json) | (out project lib viz)
     flags  : (project output lib verbose viz force)       project/output/lib : option string
     iflags : (project generated output lib verbose viz)
     obs    : (rejected untouched) | (nocommands) | (ran eff)   eff : (project output lib verbose logverbose viz force) *)
open Sexp
open Glue
module M = Tt_model

let rec json_ (s : Sexp.t) : M.json =
  match s with
  | List [Atom "z"] -> M.JNull
  | List [Atom "b"; b] -> M.JBool (bool_ b)
  | List [Atom "n"; t] -> M.JNum (str_ t)
  | List [Atom "s"; t] -> M.JStr (str_ t)
  | List (Atom "a" :: l) -> M.JArr (List.map json_ l)
  | List (Atom "o" :: l) -> M.JObj (List.map (pair_ str_ json_) l)
  | _ -> failwith "json expected"

let rec of_json (j : M.json) : Sexp.t =
  match j with
  | M.JNull -> List [Atom "z"]
  | M.JBool b -> List [Atom "b"; of_bool b]
  | M.JNum t -> List [Atom "n"; of_str t]
  | M.JStr t -> List [Atom "s"; of_str t]
  | M.JArr l -> List (Atom "a" :: List.map of_json l)
  | M.JObj l -> List (Atom "o" :: List.map (of_pair of_str of_json) l)

let config_ (s : Sexp.t) : M.config =
  match list s with
  | [pp; op; vl; vb; vd; ip; tm; ep; ipat; pc; fc; fo] ->
      { M.project_path = str_ pp; output_path = str_ op; validation_library = str_ vl;
        verbose = opt_ bool_ vb; visualize_deps = opt_ bool_ vd; include_private = opt_ bool_ ip;
        type_mappings = opt_ (list_ (pair_ str_ str_)) tm;
        exclude_patterns = opt_ (list_ str_) ep; include_patterns = opt_ (list_ str_) ipat;
        default_parameter_case = str_ pc; default_field_case = str_ fc; force = opt_ bool_ fo }
  | _ -> failwith "config expected"

let of_config (c : M.config) : Sexp.t =
  List [of_str c.M.project_path; of_str c.M.output_path; of_str c.M.validation_library;
        of_opt of_bool c.M.verbose; of_opt of_bool c.M.visualize_deps; of_opt of_bool c.M.include_private;
        of_opt (of_list (of_pair of_str of_str)) c.M.type_mappings;
        of_opt (of_list of_str) c.M.exclude_patterns; of_opt (of_list of_str) c.M.include_patterns;
        of_str c.M.default_parameter_case; of_str c.M.default_field_case; of_opt of_bool c.M.force]

let node_ (s : Sexp.t) : M.node =
  match s with
  | List [Atom "dir"] -> M.NDir
  | List [Atom "proj"] -> M.NProj
  | List [Atom "doc"] -> M.NDoc None
  | List [Atom "doc"; j] -> M.NDoc (Some (json_ j))
  | List [Atom "out"; p; l; v] -> M.NOut { M.g_project = str_ p; g_lib = str_ l; g_viz = bool_ v }
  | _ -> failwith "node expected"

let of_node (n : M.node) : Sexp.t =
  match n with
  | M.NDir -> List [Atom "dir"]
  | M.NProj -> List [Atom "proj"]
  | M.NDoc None -> List [Atom "doc"]
  | M.NDoc (Some j) -> List [Atom "doc"; of_json j]
  | M.NOut o -> List [Atom "out"; of_str o.M.g_project; of_str o.M.g_lib; of_bool o.M.g_viz]

let fs_ s : M.fs = list_ (pair_ str_ node_) s

let flags_ (s : Sexp.t) : M.flags =
  match list s with
  | [p; o; v; vb; vz; fo] ->
      { M.f_project = opt_ str_ p; f_output = opt_ str_ o; f_validation = opt_ str_ v;
        f_verbose = bool_ vb; f_visualize = bool_ vz; f_force = bool_ fo }
  | _ -> failwith "flags expected"

let iflags_ (s : Sexp.t) : M.iflags =
  match list s with
  | [p; g; o; v; vb; vz] ->
      { M.i_project = opt_ str_ p; i_generated = opt_ str_ g; i_output = opt_ str_ o;
        i_validation = opt_ str_ v; i_verbose = bool_ vb; i_visualize = bool_ vz }
  | _ -> failwith "iflags expected"

let eff_ (s : Sexp.t) : M.eff =
  match list s with
  | [p; o; l; v; lv; vz; fo] ->
      { M.e_project = str_ p; e_output = str_ o; e_lib = str_ l; e_verbose = bool_ v;
        e_log_verbose = bool_ lv; e_visualize = bool_ vz; e_force = bool_ fo }
  | _ -> failwith "eff expected"

let of_eff (e : M.eff) : Sexp.t =
  List [of_str (M.c19_norm e.M.e_project); of_str (M.c19_norm e.M.e_output); of_str e.M.e_lib; of_bool e.M.e_verbose;
        of_bool e.M.e_log_verbose; of_bool e.M.e_visualize; of_bool e.M.e_force]

let obs_ (s : Sexp.t) : M.cli_obs =
  match s with
  | List [Atom "rejected"; u] -> M.ORejected (bool_ u)
  | List [Atom "nocommands"] -> M.ONoCommands
  | List [Atom "ran"; e] -> M.ORan (eff_ e)
  | _ -> failwith "obs expected"

let of_lres (r : M.lres) : Sexp.t =
  match r with
  | M.LOk c -> List [Atom "some"; of_config c]
  | M.LNone -> List [Atom "none"]
  | M.LErr -> List [Atom "err"]

(* (kind eff-or-() fs-unchanged out-node-or-() ) *)
let of_result (f0 : M.fs) (r : M.result) : Sexp.t =
  let out_node f (e : M.eff) = of_opt of_node (M.c19_fs_get f e.M.e_output) in
  match r with
  | M.RReject (M.BadLib s, f) -> List [Atom "reject-badlib"; List []; of_bool (f = f0); List []]
  | M.RReject (M.NoProject s, f) -> List [Atom "reject-noproject"; List []; of_bool (f = f0); List []]
  | M.RFail f -> List [Atom "fail"; List []; of_bool (f = f0); List []]
  | M.RNoCommands (e, f) -> List [Atom "nocommands"; List [of_eff e]; of_bool (f = f0); List []]
  | M.RRun (e, f) -> List [Atom "run"; List [of_eff e]; of_bool (f = f0); out_node f e]

let result_fs (r : M.result) : M.fs =
  match r with M.RReject (_, f) | M.RFail f | M.RNoCommands (_, f) | M.RRun (_, f) -> f

let () =
  (* library level: (config doc-reference-reading doc-serde-reading project-exists after-by-impl loaded-by-impl)
     -> (saved-or-() loaded oracle); the oracle lib_ok_b is applied to the implementation's
     document after / settings loaded *)
  Registry.register "lib" (fun s ->
    match list s with
    | [c; dref; d; ex; impl_after; impl_loaded] ->
        let c = config_ c in
        let ex = bool_ ex in
        (match opt_ json_ d with
         | None -> List [Atom "unparseable"]
         | Some d ->
             let dref = match opt_ json_ dref with Some r -> r | None -> d in
             let saved = M.c19_save c d in
             let doc_now = match saved with Some x -> x | None -> d in
             let f : M.fs = (explode "tauri.conf.json", M.NDoc (Some doc_now))
                            :: (if ex then [(M.c19_norm c.M.project_path, M.NDir)] else []) in
             let loaded = M.c19_load f (explode "tauri.conf.json") in
             let il = match impl_loaded with
               | List [Atom "some"; c'] -> M.LOk (config_ c')
               | List [Atom "none"] -> M.LNone
               | _ -> M.LErr in
             (* impl_after: (x) = the save reported success and x is the document now;
                () = it reported an error and the file is byte for byte what it was *)
             let ok = M.c19_lib_ok f c dref (opt_ json_ impl_after) il in
             List [of_opt of_json saved; of_lres loaded; of_bool ok; of_bool (M.c19_validate_ok f c)])
    | _ -> failwith "c19-lib: bad case");
  (* generate: (fs flags obs-of-impl) -> (result spec-invalid spec-eff oracle (kf ...)) *)
  Registry.register "generate" (fun s ->
    match list s with
    | [f; fl; o] ->
        let f = fs_ f in
        let fl = flags_ fl in
        let r = M.c19_generate f fl in
        let ok = M.c19_generate_ok f fl (obs_ o) in
        let kfs = [] in
        List [of_result f r; of_bool (M.c19_spec_invalid f fl); of_eff (M.c19_spec_eff f fl); of_bool ok; List kfs]
    | _ -> failwith "c19-generate: bad case");
  (* init: (fs iflags obs-of-impl after-doc-of-impl target-doc-reference-reading) -> (result target doc-after oracle (kf ...)) *)
  Registry.register "init" (fun s ->
    match list s with
    | [f; il; o; after; bref] ->
        let f = fs_ f in
        let il = iflags_ il in
        let r = M.c19_init f il in
        let bref = opt_ json_ bref in
        let t = M.c19_init_target il in
        let doc_after = match M.c19_fs_get (result_fs r) t with
          | Some (M.NDoc (Some d)) -> List [of_json d] | _ -> List [] in
        let before = match M.c19_fs_get f t with Some (M.NDoc (Some d)) -> Some d | _ -> None in
        let bref' = match bref, before with Some r, _ -> r | None, Some d -> d | None, None -> M.JNull in
        let ok = M.c19_init_ok f il bref' (obs_ o) (opt_ json_ after) in
        let ok_serde = match before with
          | Some d -> M.c19_init_ok f il d (obs_ o) (opt_ json_ after) | None -> ok in
        let kfs = [] in
        List [of_result f r; of_str (M.c19_norm t); doc_after; of_bool ok; List kfs; of_bool ok_serde]
    | _ -> failwith "c19-init: bad case")

let () =
  (* standalone file, library level:
     (config impl-saved-doc-or-() impl-loaded project-exists) -> (flat-json loaded oracle)
     impl-loaded: (some cfg) | (err) *)
  Registry.register "flat" (fun s ->
    match list s with
    | [c; impl_saved; impl_loaded; ex] ->
        let c = config_ c in
        let flat = M.c19_flat_json c in
        let f : M.fs = (explode "typegen.json", M.NDoc (Some flat))
                       :: (if bool_ ex then [(M.c19_norm c.M.project_path, M.NDir)] else []) in
        let loaded = M.c19_from_file f (explode "typegen.json") in
        (* oracle on the implementation: what it saved reads back (before validation) as the settings *)
        let ok = match opt_ json_ impl_saved with
          | Some d -> M.c19_flat_roundtrip c (M.c19_from_flat d)
          | None -> false in
        let ok = ok && (match impl_loaded, loaded with
          | List [Atom "some"; _], None -> false   (* settings that do not validate must be refused on reading *)
          | List [Atom "some"; c'], _ -> M.c19_flat_roundtrip c (Some (config_ c'))
          | _, None -> true
          | _, Some _ -> false) in
        List [of_json flat; of_opt of_config loaded; of_bool ok; of_bool (M.c19_validate_ok f c)]
    | _ -> failwith "c19-flat: bad case");
  (* reading an arbitrary standalone document: (doc project-exists-list) -> loaded *)
  Registry.register "flatload" (fun s ->
    match list s with
    | [d; dirs] ->
        let f : M.fs = (explode "typegen.json", M.NDoc (Some (json_ d)))
                       :: List.map (fun p -> (M.c19_norm (str_ p), M.NDir)) (list dirs) in
        List [of_opt of_config (M.c19_from_file f (explode "typegen.json"))]
    | _ -> failwith "c19-flatload: bad case");
  (* generate -c: (fs flags path obs) -> (result spec-eff oracle (kf ...)) *)
  Registry.register "generatec" (fun s ->
    match list s with
    | [f; fl; p; o] ->
        let f = fs_ f in
        let fl = flags_ fl in
        let p = str_ p in
        let r = M.c19_generate_c f fl p in
        let ok = M.c19_generate_c_ok f fl p (obs_ o) in
        let kfs = [] in
        let spec = match M.c19_fs_get f p with
          | Some (M.NDoc (Some d)) -> List [of_eff (M.c19_spec_eff_c fl d)] | _ -> List [] in
        List [of_result f r; spec; of_bool ok; List kfs]
    | _ -> failwith "c19-generatec: bad case");
  (* build script: (fs obs) -> (result spec-eff invalid oracle (kf ...)) *)
  Registry.register "build" (fun s ->
    match list s with
    | [f; o] ->
        let f = fs_ f in
        let r = M.c19_build f in
        let ok = M.c19_build_ok f (obs_ o) in
        let kfs = if M.c19_kf_build_fallback f then [Atom "C19-9"] else [] in
        List [of_result f r; of_eff (M.c19_spec_eff_build f); of_bool (M.c19_build_invalid f); of_bool ok; List kfs]
    | _ -> failwith "c19-build: bad case")

let () =
  (* init -o <standalone file>: (fs iflags force obs after-doc) -> (result doc-after oracle) *)
  Registry.register "initfile" (fun s ->
    match list s with
    | [f; il; force; o; after] ->
        let f = fs_ f in
        let il = iflags_ il in
        let force = bool_ force in
        let r = M.c19_init_file f il force in
        let t = match il.M.i_output with Some t -> t | None -> explode "tauri.conf.json" in
        let doc_after = match M.c19_fs_get (result_fs r) t with
          | Some (M.NDoc (Some d)) -> List [of_json d] | _ -> List [] in
        let ok = M.c19_init_file_ok f il force (obs_ o) (opt_ json_ after) in
        List [of_result f r; doc_after; of_bool ok]
    | _ -> failwith "c19-initfile: bad case")
