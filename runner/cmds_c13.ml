(* C13: order skeleton model (gen / viz / classes) and the file-relation oracle. *)
open Sexp
open Glue
module M = Tt_model

let rec of_sx (s : M.sx) : Sexp.t = match s with
  | M.SA a -> Atom (implode a)
  | M.SL l -> List (List.map of_sx l)

(* ev = (name (roots..) pay); cmd = (name (roots..) (param names..) (channel names..) events) *)
let ev_ s = match list s with
  | [n; r; pay] -> { M.e_name = nat_ n; M.e_roots = list_ nat_ r; M.e_pay = nat_ pay }
  | _ -> failwith "ev"
let item_ s = match list s with
  | [Atom "cmd"; n; r; ps; cs; evs] ->
      M.ICmd ({ M.c_name = nat_ n; M.c_roots = list_ nat_ r; M.c_pnames = list_ nat_ ps; M.c_cnames = list_ nat_ cs }, list_ ev_ evs)
  | [Atom "fn"; evs] -> M.IFn (list_ ev_ evs)
  | [Atom "type"; n; deps; body; en; fs] ->
      M.IType { M.t_name = nat_ n; M.t_deps = list_ nat_ deps; M.t_body = nat_ body; M.t_enum = bool_ en;
                M.t_fields = list_ nat_ fs }
  | [Atom "noise"] -> M.INoise
  | _ -> failwith "item"
let project_ s = list_ (pair_ nat_ (list_ item_)) s
(* omega = (files used req ((n (deps..)) ..) res dmap) *)
let omega_ s = match list s with
  | [f; u; r; d; rs; dm] ->
      { M.w_files = list_ nat_ f; M.w_used = list_ nat_ u; M.w_req = list_ nat_ r;
        M.w_deps = list_ (pair_ nat_ (list_ nat_)) d; M.w_res = list_ nat_ rs; M.w_dmap = list_ nat_ dm }
  | _ -> failwith "omega"

(* round 7: items as written (tools/projgen.py sx_type / sx_serde / sx_item forms) *)
let rec qty_ s = match list s with
  | [Atom "path"; segs; n; angle; args] -> M.QPath (list_ str_ segs, str_ n, bool_ angle, list_ qty_ args)
  | [Atom "ref"; t] -> M.QRef (qty_ t)
  | [Atom "tuple"; ts] -> M.QTuple (list_ qty_ ts)
  | _ -> failwith "qty"
let serde_ s = match list s with
  | [Atom "rename"; v] -> M.SRename (str_ v)
  | [Atom "rename_all"; v] -> M.SRenameAll (str_ v)
  | [Atom "skip"] -> M.SSkip
  | _ -> M.SOtherSerde
(* (name (serde..) ((fname ty (serde..)) ..)) *)
let struct_ s = match list s with
  | [n; sd; fs] ->
      { M.s_name = str_ n; M.s_serde = list_ serde_ sd;
        M.s_fields = list_ (fun f -> match list f with
                                     | [fn; ty; fsd] -> { M.f_name = str_ fn; M.f_ty = qty_ ty; M.f_serde = list_ serde_ fsd }
                                     | _ -> failwith "field") fs }
  | _ -> failwith "struct"
(* (name ((attr path..) ..) async ((pname ty) ..) (ret)?) *)
let fn_ s = match list s with
  | [n; attrs; a; ps; ret] ->
      { M.fn_name = str_ n; M.fn_attrs = list_ (list_ str_) attrs; M.fn_async = bool_ a;
        M.fn_params = list_ (pair_ str_ qty_) ps; M.fn_ret = opt_ qty_ ret }
  | _ -> failwith "fn"

let of_decl = function
  | M.DType (n, b, fs) -> List [Atom "type"; of_nat n; of_nat b; of_list of_nat fs]
  | M.DSchema (n, b, fs) -> List [Atom "schema"; of_nat n; of_nat b; of_list of_nat fs]
  | M.DInfer n -> List [Atom "infer"; of_nat n]
  | M.DParams (c, ps, cs) -> List [Atom "params"; of_nat c; of_list of_nat ps; of_list of_nat cs]
  | M.DPSchema (c, ps) -> List [Atom "pschema"; of_nat c; of_list of_nat ps]
  | M.DHooks -> List [Atom "hooks"]
  | M.DWrapper c -> List [Atom "wrapper"; of_nat c]
  | M.DListener (e, pay) -> List [Atom "listener"; of_nat e; of_nat pay]
  | M.DReexport k -> List [Atom "reexport"; of_nat k]
let of_output = function
  | None -> List []
  | Some o -> List [List [of_list of_decl o.M.o_types; of_list of_decl o.M.o_commands;
                          of_opt (of_list of_decl) o.M.o_events; of_list of_decl o.M.o_index]]

let () =
  Registry.register "gen" (fun s ->
    (* (zod omega project) -> (output-option unsorted-output-option) *)
    match list s with
    | [z; w; p] ->
        let z = bool_ z and w = omega_ w and p = project_ p in
        List [of_output (M.c13_gen z w p); of_output (M.c13_gen_raw z w p)]
    | _ -> failwith "c13-gen: bad case");
  Registry.register "viz" (fun s ->
    match list s with
    | [w; p] ->
        let v = M.c13_viz (omega_ w) (project_ p) in
        List [of_list of_nat v.M.v_cmds; of_list (of_pair of_nat (of_list of_nat)) v.M.v_types;
              of_list of_nat v.M.v_nodes; of_list (of_pair of_nat of_nat) v.M.v_edges;
              of_list (of_pair of_nat of_nat) v.M.v_chains]
    | _ -> failwith "c13-viz: bad case");
  Registry.register "viztext" (fun s ->
    (* (omega project (type names..)) -> (((type depends-line) ..) (chain lines) (node lines) (edge lines)) *)
    match list s with
    | [w; p; names] ->
        let v = M.c13_viz_text (list_ str_ names) (omega_ w) (project_ p) in
        List [of_list (of_pair of_str of_str) v.M.vt_depends; of_list of_str v.M.vt_chains;
              of_list of_str v.M.vt_nodes; of_list of_str v.M.vt_edges]
    | _ -> failwith "c13-viztext: bad case");
  Registry.register "textblocks" (fun s ->
    (* (zod omega project (structs by body id..) (commands by id..)) -> ((types blocks) (commands blocks))? *)
    match list s with
    | [z; w; p; ss; cs] ->
        (match M.c13_text_blocks (list_ struct_ ss) (list_ fn_ cs) (bool_ z) (omega_ w) (project_ p) with
         | None -> List []
         | Some (tb, cb) -> List [List [of_list (of_list of_sx) tb; of_list (of_list of_sx) cb]])
    | _ -> failwith "c13-textblocks: bad case");
  Registry.register "eventstext" (fun s ->
    match list s with
    | [w; p; evs; pays] ->
        of_opt of_str (M.c13_events_text (list_ str_ evs) (list_ str_ pays) (omega_ w) (project_ p))
    | _ -> failwith "c13-eventstext: bad case");
  Registry.register "zodblocks" (fun s ->
    match list s with
    | [w; p; ss] ->
        of_opt (of_list (of_list (of_list of_sx))) (M.c13_zod_blocks (list_ struct_ ss) (omega_ w) (project_ p))
    | _ -> failwith "c13-zodblocks: bad case");
  Registry.register "fileblocks" (fun s -> of_list (of_list of_sx) (M.c13_file_blocks (str_ s)));
  Registry.register "classes" (fun s -> of_list of_bool (M.c13_classes (project_ s)));
  Registry.register "rel" (fun s ->
    match list s with
    | [a; b] -> Atom (match M.c13_rel (str_ a) (str_ b) with
                      | M.SameItems -> "same-items" | M.SameMultiset -> "same-multiset"
                      | M.Different -> "different" | M.Unparsed -> "unparsed")
    | _ -> failwith "c13-rel: bad case");
  Registry.register "labels" (fun s -> of_sx (M.c13_labels (str_ s)))
