(* C07: model of type discovery, specification (reachable serde types), observation of types.ts, oracle. *)
open Sexp
open Glue
module M = Tt_model

let rec of_sx (s : M.sx) : Sexp.t = match s with
  | M.SA a -> Atom (implode a)
  | M.SL l -> List (List.map of_sx l)

(* type: (path (seg ...) name angle (arg ...)) | (ref ty) | (tuple (ty ...)) *)
let rec ty_ s : M.cty =
  match list s with
  | [Atom "path"; segs; name; angle; args] -> M.CPath (list_ str_ segs, str_ name, bool_ angle, list_ ty_ args)
  | [Atom "ref"; t] -> M.CRef (ty_ t)
  | [Atom "tuple"; ts] -> M.CTuple (list_ ty_ ts)
  | _ -> failwith "c07: bad type"

let kind_ s : M.dkind =
  match list s with
  | [Atom "struct"; fs] -> M.DStruct (list_ (fun f -> match list f with
        | [Atom _ as skip; t] -> { M.f_skip = bool_ skip; f_ty = ty_ t }
        | [List attrs; t] -> { M.f_skip = M.c07_field_skip (List.map str_ attrs); f_ty = ty_ t }   (* serde attribute texts *)
        | _ -> failwith "c07: bad field") fs)
  | [Atom "unit"] -> M.DUnit
  | [Atom "tuple"] -> M.DTuple
  | [Atom "enum"] -> M.DEnum
  | _ -> failwith "c07: bad kind"

let pay_ s : M.pay =
  match list s with
  | [Atom "var"; v] -> M.PVar (str_ v)
  | [Atom "lit"; n] -> M.PStruct (str_ n)
  | [Atom "other"] -> M.POther
  | [Atom "variant"; e; v; st] -> M.PVariant (str_ e, str_ v, bool_ st)
  | [Atom "new"; segs; n] -> M.PNew (list_ str_ segs, str_ n)
  | _ -> failwith "c07: bad payload"

let item_ s : M.item =
  match list s with
  | [Atom "def"; name; derives; kind] ->
      M.IDef { M.d_name = str_ name; d_derives = list_ str_ derives; d_kind = kind_ kind }
  | [Atom "fn"; name; attrs; params; ret; emits] ->
      M.IFn { M.fn_name = str_ name; fn_attrs = list_ (list_ str_) attrs;
              fn_params = list_ (pair_ str_ ty_) params; fn_ret = opt_ ty_ ret; fn_emits = list_ pay_ emits }
  | [Atom "other"] -> M.IOther
  | [Atom "mod"; ds] ->
      M.IMod (list_ (fun d -> match list d with
        | [name; derives; kind] -> { M.d_name = str_ name; d_derives = list_ str_ derives; d_kind = kind_ kind }
        | _ -> failwith "bad nested def") ds)
  | _ -> failwith "c07: bad item"

let project_ s : M.project = list_ (pair_ str_ (list_ item_)) s

(* walked file: ((comp ...) (parsed (item ...)) | (unparsable) | (notutf8)) *)
let lcontent_ s : M.lcontent =
  match list s with
  | [Atom "parsed"; its] -> M.LParsed (list_ item_ its)
  | [Atom "unparsable"] -> M.LUnparsable
  | [Atom "notutf8"] -> M.LNotUtf8
  | _ -> failwith "c07: bad file content"
let walk_ s : M.lproject = list_ (pair_ (list_ str_) lcontent_) s

let () =
  (* (root walk plain-types.ts zod-types.ts) *)
  Registry.register "eval-layout" (fun s ->
    match list s with
    | [root; w; plain; zod] -> of_sx (M.c07_layout_eval (str_ root) (walk_ w) (str_ plain) (str_ zod))
    | _ -> failwith "c07-eval-layout: bad case");
  (* (project plain-types.ts zod-types.ts) *)
  Registry.register "eval" (fun s ->
    match list s with
    | [p; plain; zod] -> of_sx (M.c07_eval (project_ p) (str_ plain) (str_ zod))
    | _ -> failwith "c07-eval: bad case");
  Registry.register "harvest" (fun s ->
    List [of_list of_str (M.c07_harvest (str_ s)); of_list of_str (M.c07_ts_names (str_ s))])
