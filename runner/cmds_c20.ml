(* C20: model and oracle for the two ordering routines. *)
open Sexp
open Glue
module M = Tt_model

let () =
  Registry.register "topo" (fun s ->
    (* ((adj (n (d ...)) ...) (req ...) (out ...)) *)
    match list s with
    | [adj; req; out] ->
        let g = list_ (pair_ nat_ (list_ nat_)) adj in
        let req = list_ nat_ req in
        let out = list_ nat_ out in
        let m = M.c20_topo g req in
        List [of_opt (of_list of_nat) m; of_bool (M.c20_topo_ok g req out)]
    | _ -> failwith "c20-topo: bad case");
  Registry.register "topo-m" (fun s ->
    (* model only, for graphs on which the quartic oracle is out of reach: ((adj ...) (req ...)) *)
    match list s with
    | adj :: req :: _ ->
        let g = list_ (pair_ nat_ (list_ nat_)) adj in
        let req = list_ nat_ req in
        List [of_opt (of_list of_nat) (M.c20_topo g req)]
    | _ -> failwith "c20-topo-m: bad case");
  Registry.register "kahn-m" (fun s ->
    match list s with
    | order :: deps :: _ ->
        let order = list_ nat_ order in
        let deps = list_ (pair_ nat_ nat_) deps in
        (match M.c20_kahn order deps with
          | M.Ok l -> List [Atom "ok"; of_list of_nat l]
          | M.Cycle r -> List [Atom "cycle"; of_list of_nat r]
          | M.OutOfFuel -> List [Atom "out-of-fuel"])
    | _ -> failwith "c20-kahn-m: bad case");
  Registry.register "kahn" (fun s ->
    (* ((order ...) (deps (f t) ...) res) with res = () for Err, ((..)) for Ok *)
    match list s with
    | [order; deps; res] ->
        let order = list_ nat_ order in
        let deps = list_ (pair_ nat_ nat_) deps in
        let res = opt_ (list_ nat_) res in
        let m = match M.c20_kahn order deps with
          | M.Ok l -> List [Atom "ok"; of_list of_nat l]
          | M.Cycle r -> List [Atom "cycle"; of_list of_nat r]
          | M.OutOfFuel -> List [Atom "out-of-fuel"] in
        List [m; of_bool (M.c20_kahn_ok order deps res)]
    | _ -> failwith "c20-kahn: bad case");
  let kres = function
    | M.Ok l -> List [Atom "ok"; of_list of_nat l]
    | M.Cycle r -> List [Atom "cycle"; of_list of_nat r]
    | M.OutOfFuel -> List [Atom "out-of-fuel"] in
  Registry.register "hist" (fun s ->
    (* ((ops (n i) | (d a b) | (r)) (outs res ...)) *)
    match list s with
    | [ops; outs] ->
        let op o = match list o with
          | [Atom "n"; i] -> M.AddNode (nat_ i)
          | [Atom "d"; a; b] -> M.AddDep (nat_ a, nat_ b)
          | [Atom "r"] -> M.Resolve
          | _ -> failwith "c20-hist: bad op" in
        let ops = List.map op (list ops) in
        let outs = list_ (opt_ (list_ nat_)) outs in
        List [of_list kres (M.c20_hist ops); of_bool (M.c20_hist_ok ops outs)]
    | _ -> failwith "c20-hist: bad case");
  Registry.register "ghist" (fun s ->
    (* ((ops (d a b) | (ds a (..)) | (s (..))) (outs (..) ...)) *)
    match list s with
    | [ops; outs] ->
        let op o = match list o with
          | [Atom "d"; a; b] -> M.GDep (nat_ a, nat_ b)
          | [Atom "ds"; a; l] -> M.GDeps (nat_ a, list_ nat_ l)
          | [Atom "s"; l] -> M.GSort (list_ nat_ l)
          | [Atom "rt"; a; e] -> M.GNote (nat_ a, (match e with Atom "true" -> true | _ -> false))
          | [Atom "td"; a] -> M.GNote (nat_ a, false)
          | _ -> failwith "c20-ghist: bad op" in
        let ops = List.map op (list ops) in
        let outs = list_ (list_ nat_) outs in
        List [of_list (of_opt (of_list of_nat)) (M.c20_ghist ops); of_bool (M.c20_ghist_ok ops outs)]
    | _ -> failwith "c20-ghist: bad case")
