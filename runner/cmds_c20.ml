(* C20: model and oracle for the two ordering routines. *)
open Sexp
open Glue
module M = Tt_model

let () =
  Registry.register "topo" (fun s ->
    (* ((adj (n (d ...)) ...) (req ...) (out ...)) *)
    match list s with
    | [adj; req; out] ->
        let g = list_ (pair_ nat_ (list_ nat_)) adj in
        let req = list_ nat_ req in
        let out = list_ nat_ out in
        let m = M.c20_topo g req in
        List [of_opt (of_list of_nat) m; of_bool (M.c20_topo_ok g req out)]
    | _ -> failwith "c20-topo: bad case");
  Registry.register "kahn" (fun s ->
    (* ((order ...) (deps (f t) ...) res) with res = () for Err, ((..)) for Ok *)
    match list s with
    | [order; deps; res] ->
        let order = list_ nat_ order in
        let deps = list_ (pair_ nat_ nat_) deps in
        let res = opt_ (list_ nat_) res in
        let m = match M.c20_kahn order deps with
          | M.Ok l -> List [Atom "ok"; of_list of_nat l]
          | M.Cycle r -> List [Atom "cycle"; of_list of_nat r]
          | M.OutOfFuel -> List [Atom "out-of-fuel"] in
        List [m; of_bool (M.c20_kahn_ok order deps res)]
    | _ -> failwith "c20-kahn: bad case")
