(* C08: run/cache state machine, fingerprint partition, oracle. Decoders for the analysed project. *)
open Sexp
open Glue
module M = Tt_model

let ostr_ s = opt_ str_ s
let tag s = match s with List (Atom t :: r) -> (t, r) | _ -> failwith "tagged list expected"

let param_ s = match tag s with
  | ("p", [n; t; o]) -> { M.p_name = str_ n; p_type = str_ t; p_opt = bool_ o; p_rename = None }
  | ("p", [n; t; o; r]) -> { M.p_name = str_ n; p_type = str_ t; p_opt = bool_ o; p_rename = ostr_ r }
  | _ -> failwith "param"
let chan_ s = match tag s with
  | ("c", [p; m]) -> { M.ch_param = str_ p; ch_msg = str_ m }
  | _ -> failwith "chan"
let command_ s = match tag s with
  | ("k", [n; f; ln; ps; r; a; cs; ra]) ->
      { M.c_name = str_ n; c_file = str_ f; c_line = str_ ln; c_params = list_ param_ ps; c_ret = str_ r; c_async = bool_ a;
        c_chans = list_ chan_ cs; c_rename_all = ostr_ ra }
  | _ -> failwith "command"
let field_ s = match tag s with
  | ("f", [n; t; o; p; r; v]) ->
      { M.f_name = str_ n; f_type = str_ t; f_opt = bool_ o; f_pub = bool_ p; f_rename = ostr_ r; f_valid = ostr_ v }
  | _ -> failwith "field"
let struct_ s = match tag s with
  | ("s", [n; f; e; fs; ra]) ->
      { M.s_name = str_ n; s_file = str_ f; s_enum = bool_ e; s_fields = list_ field_ fs; s_rename_all = ostr_ ra }
  | _ -> failwith "struct"
let event_ s = match tag s with
  | ("e", [n; p]) -> { M.e_name = str_ n; e_payload = str_ p }
  | _ -> failwith "event"
let sfile_ s = match list s with
  | [p; cs; ss; es; nd] ->
      { M.sf_path = str_ p; sf_cmds = list_ command_ cs; sf_structs = list_ struct_ ss; sf_events = list_ event_ es;
        sf_ndefs = str_ nd }
  | _ -> failwith "sfile"
let project_ s = list_ sfile_ s
let config_ s = match list s with
  | [lib; pr; maps; pc; fc; viz; force; pp] ->
      { M.g_lib = str_ lib; g_private = bool_ pr; g_maps = opt_ (list_ (pair_ str_ str_)) maps;
        g_pcase = str_ pc; g_fcase = str_ fc; g_viz = bool_ viz; g_force = bool_ force; g_ppath = str_ pp }
  | _ -> failwith "config"
let sched_ s = match list s with
  | [f; m] -> { M.w_files = list_ nat_ f; w_maps = list_ nat_ m }
  | _ -> failwith "sched"
let fname_ s = match atom s with
  | "types" -> M.Types | "commands" -> M.Commands | "events" -> M.Events | "index" -> M.Index
  | "graphtxt" -> M.GraphTxt | "graphdot" -> M.GraphDot | _ -> failwith "fname"
let of_fname = function
  | M.Types -> Atom "types" | M.Commands -> Atom "commands" | M.Events -> Atom "events" | M.Index -> Atom "index"
  | M.GraphTxt -> Atom "graphtxt" | M.GraphDot -> Atom "graphdot"
let result_ s = match atom s with
  | "no_commands" -> M.NoCommands | "up_to_date" -> M.UpToDate | "regenerated" -> M.Success | "failed" -> M.Failure
  | _ -> failwith "result"
let of_result = function
  | M.NoCommands -> Atom "no_commands" | M.UpToDate -> Atom "up_to_date" | M.Success -> Atom "regenerated"
  | M.Failure -> Atom "failed"
let hstep_ s = match tag s with
  | ("set", [p; c]) -> M.HSet (project_ p, config_ c)
  | ("delete", [f]) -> M.HDelete (fname_ f)
  | ("dropcache", []) -> M.HDropCache
  | ("corrupt", [f]) -> M.HCorrupt (fname_ f)
  | ("run", [w; flag; fault]) -> M.HRun (sched_ w, bool_ flag, opt_ nat_ fault)
  | _ -> failwith "hstep"
let of_obs (o : M.hobs) =
  List [of_result o.M.o_result; of_list of_fname o.M.o_missing; of_list of_fname o.M.o_different;
        of_list of_nat o.M.o_classes; of_bool o.M.o_cache_current]

let () =
  Registry.register "trace" (fun s ->
    (* (project config (step ...)) -> ((result (missing) (different) (classes) cache_current) ...) *)
    match list s with
    | [p; c; h] -> of_list of_obs (M.c08_trace (project_ p) (config_ c) (list_ hstep_ h))
    | _ -> failwith "c08-trace: bad case");
  Registry.register "fpeq" (fun s ->
    match list s with
    | [w1; p1; c1; w2; p2; c2] ->
        let a = (sched_ w1, project_ p1, config_ c1) and b = (sched_ w2, project_ p2, config_ c2) in
        let (w1, p1, c1) = a and (w2, p2, c2) = b in
        List [of_bool (M.c08_fp_eq w1 p1 c1 w2 p2 c2); of_bool (M.c08_files_eq w1 p1 c1 w2 p2 c2);
              of_bool (M.c08_valid_sched w1 p1 c1 && M.c08_valid_sched w2 p2 c2)]
    | _ -> failwith "c08-fpeq: bad case");
  Registry.register "oracle" (fun s ->
    match list s with
    | [r; mi; di] -> of_bool (M.c08_oracle (result_ r) (list_ fname_ mi) (list_ fname_ di))
    | _ -> failwith "c08-oracle: bad case");
  Registry.register "text" (fun s ->
    (* (sched project config types.ts commands.ts (events.ts)?) -> ((first difference types)? (.. commands)? events_equal) *)
    match list s with
    | [w; p; c; t; k; e] ->
        let (w, p, c) = (sched_ w, project_ p, config_ c) in
        let (dt, dc) = M.c08_text_check w p c (str_ t) (str_ k) in
        let od = function None -> List [] | Some n -> List [of_nat n] in
        let ev = match opt_ str_ e with None -> true | Some x -> M.c08_events_check w p c x in
        List [od dt; od dc; of_bool ev]
    | _ -> failwith "c08-text: bad case")
