#!/bin/sh
# Build the OCaml runner from the freshly extracted model (coq/tt_model.ml).
set -e
here=$(cd "$(dirname "$0")" && pwd)
out=$here/../build/runner
mkdir -p "$out"
cp "$here/../coq/tt_model.ml" "$here/../coq/tt_model.mli" "$here"/sexp.ml "$here"/glue.ml "$here"/main.ml "$out"/
cd "$out"
ocamlfind ocamlopt -O2 -w -a -package unix -linkpkg tt_model.mli tt_model.ml sexp.ml glue.ml main.ml -o tt-runner 2>&1
