#!/bin/sh
# Build the OCaml runner from the freshly extracted model (coq/tt_model.ml).
set -e
here=$(cd "$(dirname "$0")" && pwd)
out=$here/../build/runner
mkdir -p "$out"
rm -f "$out"/*.ml "$out"/*.mli
cp "$here/../coq/tt_model.ml" "$here/../coq/tt_model.mli" "$here"/*.ml "$out"/
cd "$out"
cmds=$(ls cmds_*.ml | sort)
ocamlfind ocamlopt -O2 -w -a -package unix -linkpkg tt_model.mli tt_model.ml sexp.ml glue.ml registry.ml $cmds main.ml -o tt-runner 2>&1
