#!/bin/sh
# Build the OCaml runner of one property from its freshly extracted model:
#   runner/build.sh c20   ->  build/runner/c20/tt-runner
# coq/tt_<id>.ml(i) (written by coqc on coq/Extract/ExC<NN>.v) is copied in as
# module Tt_model, so glue.ml and cmds_<id>.ml are the same for every property.
set -e
id=$1
here=$(cd "$(dirname "$0")" && pwd)
out=$here/../build/runner/$id
mkdir -p "$out"
rm -f "$out"/*.ml "$out"/*.mli "$out"/*.cm* "$out"/*.o
cp "$here/../coq/tt_$id.ml" "$out/tt_model.ml"
cp "$here/../coq/tt_$id.mli" "$out/tt_model.mli"
cp "$here/sexp.ml" "$here/glue.ml" "$here/registry.ml" "$here/main.ml" "$here/cmds_$id.ml" "$out"/
cd "$out"
ocamlfind ocamlopt -O2 -w -a -package unix -linkpkg tt_model.mli tt_model.ml sexp.ml glue.ml registry.ml cmds_$id.ml main.ml -o tt-runner 2>&1
