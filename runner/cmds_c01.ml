(* C01: oracle (wf parse of generated TypeScript) and generator model, token for token. *)
open Sexp
open Glue
module M = Tt_model

let rec of_sx (s : M.sx) : Sexp.t = match s with
  | M.SA a -> Atom (implode a)
  | M.SL l -> List (List.map of_sx l)

(* (path (segs..) name angle (args..)) | (ref t) | (tuple (ts..)) *)
let rec qty_ s : M.qty = match list s with
  | [Atom "path"; segs; name; angle; args] -> M.QPath (list_ str_ segs, str_ name, bool_ angle, list_ qty_ args)
  | [Atom "ref"; t] -> M.QRef (qty_ t)
  | [Atom "tuple"; ts] -> M.QTuple (list_ qty_ ts)
  | _ -> failwith "c01: bad type"

let serde_ s : M.serde_item = match list s with
  | [Atom "rename"; v] -> M.SRename (str_ v)
  | [Atom "rename_all"; v] -> M.SRenameAll (str_ v)
  | [Atom "skip"] -> M.SSkip
  | _ -> M.SOtherSerde

let bound_ s : M.vbound = match list s with
  | [mn; mx; msg] -> { M.vb_min = opt_ str_ mn; vb_max = opt_ str_ mx; vb_msg = opt_ str_ msg }
  | _ -> failwith "c01: bad bound"
let vattr_ s : M.vattr = match list s with
  | [email; url; len; rng] -> { M.v_email = bool_ email; v_url = bool_ url; v_length = opt_ bound_ len; v_range = opt_ bound_ rng }
  | _ -> failwith "c01: bad vattr"
let field_ s : M.c_field = match list s with
  | [name; ty; serde; va] -> { M.cf_name = str_ name; cf_ty = qty_ ty; cf_serde = list_ serde_ serde; cf_val = opt_ vattr_ va }
  | _ -> failwith "c01: bad field"
let struct_ s : M.c_struct = match list s with
  | [name; is_enum; serde; fields] -> { M.cs_name = str_ name; cs_enum = bool_ is_enum; cs_serde = list_ serde_ serde; cs_fields = list_ field_ fields }
  | _ -> failwith "c01: bad struct"
let cmd_ s : M.c_cmd = match list s with
  | [name; serde; params; ret] -> { M.cc_name = str_ name; cc_serde = list_ serde_ serde; cc_params = list_ (pair_ str_ qty_) params; cc_ret = opt_ qty_ ret }
  | _ -> failwith "c01: bad cmd"
let event_ s : M.c_event = match list s with
  | [name; payload] -> { M.ce_name = str_ name; ce_payload = str_ payload }
  | _ -> failwith "c01: bad event"
let fname_ s : M.fname = match atom s with
  | "types.ts" -> M.FTypes | "commands.ts" -> M.FCommands | "events.ts" -> M.FEvents | "index.ts" -> M.FIndex
  | _ -> failwith "c01: bad file name"

let () =
  Registry.register "oracle" (fun s -> of_sx (M.c01_oracle (str_ s)));
  Registry.register "hole" (fun s -> match list s with
    | [cls; text] -> of_sx (M.c01_hole (str_ cls) (str_ text))
    | _ -> failwith "c01-hole: bad case");
  (* (zod param_case field_case ((k v)..) (structs..) (cmds..) (events..) ((fname text)..)) -> ((fname result)..) *)
  Registry.register "files" (fun s -> match list s with
    | [zod; pc; fc; maps; ss; cmds; evs; files] ->
        let g = { M.g_zod = bool_ zod; g_param_case = str_ pc; g_field_case = str_ fc; g_mappings = list_ (pair_ str_ str_) maps } in
        let ss = list_ struct_ ss and cmds = list_ cmd_ cmds and evs = list_ event_ evs in
        List (List.map (fun f -> match list f with
          | [name; text] -> List [name; of_sx (M.c01_file g ss cmds evs (fname_ name) (str_ text))]
          | _ -> failwith "c01-files: bad file") (list files))
    | _ -> failwith "c01-files: bad case")
