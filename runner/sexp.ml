(* Minimal s-expression reader/printer: atoms are bare tokens or
   double-quoted strings with backslash escapes (backslash, quote, n, t, r, xHH). *)
type t = Atom of string | List of t list

exception Parse_error of string

let parse (s : string) : t =
  let n = String.length s in
  let pos = ref 0 in
  let peek () = if !pos < n then Some s.[!pos] else None in
  let rec skip () = match peek () with
    | Some (' ' | '\t' | '\n' | '\r') -> incr pos; skip ()
    | _ -> () in
  let hex c = match c with
    | '0'..'9' -> Char.code c - 48
    | 'a'..'f' -> Char.code c - 87
    | 'A'..'F' -> Char.code c - 55
    | _ -> raise (Parse_error "hex") in
  let rec value () =
    skip ();
    match peek () with
    | None -> raise (Parse_error "eof")
    | Some '(' ->
        incr pos;
        let items = ref [] in
        let rec loop () =
          skip ();
          match peek () with
          | Some ')' -> incr pos
          | None -> raise (Parse_error "unclosed")
          | _ -> items := value () :: !items; loop () in
        loop ();
        List (List.rev !items)
    | Some '"' ->
        incr pos;
        let b = Buffer.create 16 in
        let rec loop () =
          if !pos >= n then raise (Parse_error "unclosed string");
          let c = s.[!pos] in
          incr pos;
          if c = '"' then ()
          else if c = '\\' then begin
            let e = s.[!pos] in
            incr pos;
            (match e with
             | 'n' -> Buffer.add_char b '\n'
             | 't' -> Buffer.add_char b '\t'
             | 'r' -> Buffer.add_char b '\r'
             | 'x' ->
                 let h = hex s.[!pos] * 16 + hex s.[!pos + 1] in
                 pos := !pos + 2;
                 Buffer.add_char b (Char.chr h)
             | c -> Buffer.add_char b c);
            loop ()
          end else begin Buffer.add_char b c; loop () end in
        loop ();
        Atom (Buffer.contents b)
    | Some _ ->
        let start = !pos in
        let rec loop () = match peek () with
          | Some (' ' | '\t' | '\n' | '\r' | '(' | ')' | '"') | None -> ()
          | _ -> incr pos; loop () in
        loop ();
        Atom (String.sub s start (!pos - start)) in
  let v = value () in
  skip ();
  if !pos <> n then raise (Parse_error "trailing");
  v

let quote (s : string) : string =
  let b = Buffer.create (String.length s + 2) in
  Buffer.add_char b '"';
  String.iter (fun c ->
    match c with
    | '"' -> Buffer.add_string b "\\\""
    | '\\' -> Buffer.add_string b "\\\\"
    | '\n' -> Buffer.add_string b "\\n"
    | '\t' -> Buffer.add_string b "\\t"
    | '\r' -> Buffer.add_string b "\\r"
    | c when Char.code c < 32 || Char.code c >= 127 -> Buffer.add_string b (Printf.sprintf "\\x%02x" (Char.code c))
    | c -> Buffer.add_char b c) s;
  Buffer.add_char b '"';
  Buffer.contents b

let rec to_string = function
  | Atom a -> quote a
  | List l -> "(" ^ String.concat " " (List.map to_string l) ^ ")"
