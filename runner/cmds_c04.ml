(* C04: model, specification, class predicates, observation of the real files and oracle. *)
open Sexp
open Glue
module M = Tt_model

let garg_ s = match atom s with "L" -> M.GLife | "T" -> M.GType | _ -> failwith "garg"
let cty_ s = match list s with
  | [Atom "other"] -> M.COther
  | [Atom "path"; segs; args] -> M.CPath (list_ str_ segs, opt_ (list_ garg_) args)
  | _ -> failwith "cty"

let pat_ s = match atom s with "ident" -> M.PatIdent | "wild" -> M.PatWild | "destructure" -> M.PatDestructure | _ -> failwith "pat"
let param_ s = match list s with [n; t; p] -> ((str_ n, cty_ t), pat_ p) | _ -> failwith "param"
let of_src = function M.Validated -> Atom "v" | M.Raw -> Atom "r"
let of_entry ((k, o), s) = List [of_str k; of_bool o; of_src s]
let err_name = function
  | M.ENoCall -> "no-invoke-call" | M.EManyCalls -> "several-invoke-calls" | M.EArg -> "unrecognised-argument"
  | M.EDecl -> "params-declaration-unreadable" | M.ESchema -> "schema-missing-or-unreadable"
  | M.ESchemaMismatch -> "schema-mismatch" | M.ELex -> "lexical-error"
let of_keyres = function
  | M.KPanic -> List [Atom "panic"]
  | M.KDangling -> List [Atom "dangling"]
  | M.KObsErr e -> List [Atom "err"; Atom (err_name e)]
  | M.KKeys l -> List [Atom "keys"; of_list of_entry l]

(* implementation side of one mode: (panic) | (nofiles) | (files types commands) *)
let observe name s = match list s with
  | [Atom "panic"] -> M.KPanic
  | [Atom "files"; t; c] -> M.c04_observe (str_ t) (str_ c) name
  | _ -> M.KObsErr M.ENoCall

let () =
  Registry.register "case" (fun s ->
    match list s with
    | [dcase; cname; macro; params; iplain; izod] ->
        let cf = M.c04_cfg (str_ dcase) in
        let name = str_ cname in
        let c = M.c04_cmd name (opt_ str_ macro) (list_ param_ params) in
        let mp = M.c04_model cf false c and mz = M.c04_model cf true c in
        let op = observe name iplain and oz = observe name izod in
        let b f = of_bool f in
        let oracle = match op, oz with
          | M.KKeys p, M.KKeys z ->
              List [b (M.c04_keys_ok cf c p); b (M.c04_optional_ok cf c p); b (M.c04_keys_ok cf c z);
                    b (M.c04_optional_ok cf c z); b (M.c04_zod_src_ok cf c z); b (M.c04_modes_ok p z)]
          | _ -> List [] in
        List [b (M.c04_dom cf c); of_list of_bool (M.c04_classes cf c); of_keyres mp; of_keyres mz;
              of_keyres op; of_keyres oz; oracle;
              of_list (of_pair of_str of_bool) (M.c04_spec_keys cf c)]
    | _ -> failwith "c04-case: bad case");
  (* (default_case files iplain izod); files = ((fn ...) ...), fn = (name is_command macro params).
     One result per command, in file order then function order: (name dom classes model_plain model_zod obs_plain obs_zod oracle spec) *)
  Registry.register "project" (fun s ->
    match list s with
    | [dcase; files; iplain; izod] ->
        let cf = M.c04_cfg (str_ dcase) in
        let fn_ s = match list s with
          | [n; ic; macro; params] -> M.c04_fn (str_ n) (bool_ ic) (opt_ str_ macro) (list_ param_ params)
          | _ -> failwith "fn" in
        let proj = list_ (list_ fn_) files in
        let dom = M.c04_project_dom cf proj in
        let b f = of_bool f in
        List (List.concat_map (fun f ->
          List.map (fun c ->
            let name = M.c04_cmd_name c in
            let mp = M.c04_model_in cf false f c and mz = M.c04_model_in cf true f c in
            let op = observe name iplain and oz = observe name izod in
            let oracle = match op, oz with
              | M.KKeys p, M.KKeys z ->
                  List [b (M.c04_keys_ok cf c p); b (M.c04_optional_ok cf c p); b (M.c04_keys_ok cf c z);
                        b (M.c04_optional_ok cf c z); b (M.c04_zod_src_ok cf c z); b (M.c04_modes_ok p z)]
              | _ -> List [] in
            List [of_str name; b dom; of_list of_bool (M.c04_classes cf c); of_keyres mp; of_keyres mz;
                  of_keyres op; of_keyres oz; oracle;
                  of_list (of_pair of_str of_bool) (M.c04_spec_keys cf c)]) (M.c04_commands f)) proj)
    | _ -> failwith "c04-project: bad case");
  Registry.register "camel" (fun s -> List [of_str (M.c04_tauri_camel (str_ s)); of_str (M.c04_tauri_snake (str_ s))])
