(* C03: model of discovery + wrapper list, specification, oracle on the implementation's commands.ts. *)
open Sexp
open Glue
module M = Tt_model

(* type: (p (seg ...) name angle (arg ...)) | (r ty) | (t (ty ...)) *)
let rec ty_ s : M.qty =
  match list s with
  | [Atom "p"; segs; name; angle; args] -> M.QPath (list_ str_ segs, str_ name, bool_ angle, list_ ty_ args)
  | [Atom "r"; t] -> M.QRef (ty_ t)
  | [Atom "t"; ts] -> M.QTuple (list_ ty_ ts)
  | _ -> failwith "c03: bad type"

(* (name ((seg ...) ...) async ret?) *)
let fn_ s : M.fn_def =
  match list s with
  | [name; attrs; is_async; ret] ->
      { M.fn_name = str_ name; fn_attrs = list_ (list_ str_) attrs; fn_async = bool_ is_async;
        fn_params = []; fn_ret = opt_ ty_ ret }
  | _ -> failwith "c03: bad fn"

let rec item_ s : M.ritem =
  match list s with
  | [Atom "fn"; f] -> M.RFn (fn_ f)
  | [Atom "impl"; fs] -> M.RImpl (list_ fn_ fs)
  | [Atom "mod"; its] -> M.RMod (list_ item_ its)
  | [Atom "other"] -> M.ROther
  | _ -> failwith "c03: bad item"

let content_ s : M.content =
  match list s with
  | [Atom "parsed"; its] -> M.Parsed (list_ item_ its)
  | [Atom "source"; pro; its] ->
      let pro_ x = match atom x with
        | "bom" -> M.PBom | "shebang" -> M.PShebang | "inner" -> M.PInnerAttr | "docinner" -> M.PDocInner
        | "blank" -> M.PBlank | "comment" -> M.PComment | "frontmatter" -> M.PFrontmatter
        | _ -> failwith "c03: bad prologue piece" in
      M.Source (list_ pro_ pro, list_ item_ its)
  | [Atom "unparsable"] -> M.Unparsable
  | [Atom "notutf8"] -> M.NotUtf8
  | _ -> failwith "c03: bad content"

let rec node_ s : M.node =
  match list s with
  | [Atom "f"; name; c] -> M.NFile (str_ name, content_ c)
  | [Atom "d"; name; ch] -> M.NDir (str_ name, list_ node_ ch)
  | [Atom "l"; name; t] ->
      (* (file content) | (dir) | (dangling) *)
      let t = match list t with
        | [Atom "file"; c] -> M.LFile (content_ c)
        | [Atom "dir"] -> M.LDir
        | [Atom "dangling"] -> M.LDangling
        | _ -> failwith "c03: bad link target" in
      M.NLink (str_ name, t)
  | _ -> failwith "c03: bad node"

let of_pairs l = of_list (of_pair of_str of_str) l
let of_wobs (w : M.wrapper_obs) =
  List [of_str w.M.wo_fn; of_list (of_opt of_str) w.M.wo_invokes; of_str w.M.wo_ret]

let () =
  (* (root (node ...)) -> (layout_ok analyze? wrappers? spec spec_files); the two options are
     always present since the repair of C03-2 (the model has no failing outcome), the shape is
     kept so that an implementation failure is compared against "model did not fail" *)
  Registry.register "model" (fun s ->
    match list s with
    | [root; tree] ->
        let root = str_ root in
        let l = list_ node_ tree in
        (* the file path is a byte string that need not be UTF-8: printed in hex, the python side
           applies to_string_lossy before comparing with CommandInfo.file_path *)
        let hex l = Atom (String.concat "" (List.map (fun c -> Printf.sprintf "%02x" (Char.code c)) l)) in
        let cmd4 (((n, p), r), a) = List [of_str n; hex p; of_str r; of_bool a] in
        List [of_bool (M.c03_layout_ok l);
              of_opt (of_list cmd4) (Some (M.c03_analyze root l));
              of_opt of_pairs (Some (M.c03_wrappers root l));
              of_pairs (M.c03_spec l);
              of_list (of_list of_str) (M.c03_spec_files l)]
    | _ -> failwith "c03-model: bad case");
  (* (root ((cli? forced? (node ...)) ...)) -> ((layout_ok model-pairs spec-pairs in-class-C03-3) ...):
     one entry per run of a history, starting from an empty output directory *)
  Registry.register "history" (fun s ->
    match list s with
    | [root; steps] ->
        let root = str_ root in
        let steps = list_ (fun st -> match list st with
          | [cli; force; tree] -> ((bool_ cli, bool_ force), list_ node_ tree)
          | _ -> failwith "c03-history: bad step") steps in
        let ms = M.c03_history root steps in
        List (List.map2 (fun (_, l) (m, stale) ->
                List [of_bool (M.c03_layout_ok l); of_pairs m; of_pairs (M.c03_spec l); of_bool stale]) steps ms)
    | _ -> failwith "c03-history: bad case");
  (* (expected-pairs model-pairs? commands.ts-text) -> (parsed? wrappers oracle_ok corr) ;
     text "" stands for a file that was not written *)
  Registry.register "judge" (fun s ->
    match list s with
    | [expected; model; text] ->
        let expected = list_ (pair_ str_ str_) expected in
        let model = opt_ (list_ (pair_ str_ str_)) model in
        let obs = M.c03_read (str_ text) in
        let ok = M.c03_oracle expected obs in
        let corr = match model with
          | Some m -> M.c03_oracle m obs
          | None -> false in
        List [of_bool (obs <> None);
              (match obs with Some ws -> of_list of_wobs ws | None -> List []);
              of_bool ok; of_bool corr]
    | _ -> failwith "c03-judge: bad case")
