(* C18: model texts with the table, relational oracle on the implementation's two texts, classes. *)
open Sexp
open Glue
module M = Tt_model

let rec rty_ s : M.rty =
  match s with
  | List [Atom "p"; Atom n; List args] -> M.RPath (explode n, List.map rty_ args)
  | List [Atom "r"; t] -> M.RRef (rty_ t)
  | List [Atom "t"; List l] -> M.RTuple (List.map rty_ l)
  | _ -> failwith "rty expected"
let mapping_ s : M.mapping = list_ (pair_ str_ str_) s
let sites = [M.SParam; M.SReturn; M.SField; M.SChannel; M.SEvent]
let modes = [M.MNone; M.MZod]
let of_ostr = function None -> Atom "<none>" | Some s -> of_str s

let () =
  (* (rty mapping (with-text x10) (without-text x10)) -> (tts dom mentions ((model-text ok absolute-clause (classes)) x10)) *)
  Registry.register "emit" (fun s ->
    match list s with
    | [t; m; w; wo] ->
        let t = rty_ t in
        let m = mapping_ m in
        let w = List.map atom (list w) and wo = List.map atom (list wo) in
        let res = ref [] in
        let i = ref 0 in
        List.iter (fun md ->
          List.iter (fun si ->
            let wi = explode (List.nth w !i) and woi = explode (List.nth wo !i) in
            incr i;
            res := List [of_ostr (M.c18_emit si md m t); of_bool (M.c18_oracle si md m t wi woi); of_bool (M.c18_abs si md m t wi);
                         List []] :: !res) sites) modes;   (* no class left after the repairs *)
        List [of_str (M.c18_tts t); of_bool (M.c18_dom m t); of_bool (M.c18_mentions m t); List (List.rev !res)]
    | _ -> failwith "c18-emit: bad case")

let () =
  (* (zod mapping ((name (field-rty ...)) ...) (site-rty ...) (observed-name ...) [(observed-name-without-table ...)])
     -> ((model-declared ...) clause-on-observed class [frame-clause-on-the-two-observed-sets]) *)
  Registry.register "declared" (fun s ->
    match list s with
    | zod :: m :: all :: sts :: obs :: rest ->
        let zod = (match zod with Atom "true" -> true | _ -> false) in
        let m = mapping_ m in
        let all = List.map (fun d -> match list d with
                                     | [n; fs] -> (str_ n, List.map rty_ (list fs))
                                     | _ -> failwith "c18-declared: bad struct") (list all) in
        let sts = List.map rty_ (list sts) in
        let obs = List.map str_ (list obs) in
        let frame = (match rest with
                     | [wo] -> [of_bool (M.c18_decl_frame obs (List.map str_ (list wo)))]
                     | _ -> []) in
        List ([List (List.map of_str (M.c18_declared zod m all sts)); of_bool (M.c18_decl_oracle m obs); of_bool (M.c18_decl_class m all)] @ frame)
    | _ -> failwith "c18-declared: bad case")
