(* C10: model, oracle and class membership for the type-level and the project-level streams.
   TypeStructure values travel as  (prim "string") (arr t) (map k v) (set t) (tuple t ..) (opt t) (res t) (custom "N");
   Rust types as  (p "Vec" (arg ..)) | (r t) | (t (elem ..)). *)
open Sexp
open Glue
module M = Tt_model

let rec of_sx (s : M.sx) : Sexp.t = match s with
  | M.SA a -> Atom (implode a)
  | M.SL l -> List (List.map of_sx l)

let rec ts_ s : M.tstruct =
  match s with
  | List [Atom "prim"; Atom p] -> M.TPrim (explode p)
  | List [Atom "arr"; t] -> M.TArr (ts_ t)
  | List [Atom "map"; k; v] -> M.TMap (ts_ k, ts_ v)
  | List [Atom "set"; t] -> M.TSet (ts_ t)
  | List (Atom "tuple" :: l) -> M.TTuple (List.map ts_ l)
  | List [Atom "opt"; t] -> M.TOpt (ts_ t)
  | List [Atom "res"; t] -> M.TRes (ts_ t)
  | List [Atom "custom"; Atom n] -> M.TCustom (explode n)
  | _ -> failwith "tstruct expected"

let rec rty_ s : M.rty =
  match s with
  | List [Atom "p"; Atom n; List args] -> M.RPath (explode n, List.map rty_ args)
  | List [Atom "r"; t] -> M.RRef (rty_ t)
  | List [Atom "t"; List l] -> M.RTuple (List.map rty_ l)
  | _ -> failwith "rty expected"

let mapping_ s : M.mapping = list_ (pair_ str_ str_) s

let struct_of r =
  match M.c10_struct_of_rty (rty_ r) with Some t -> t | None -> failwith "type string not parsed by the model"

let member_ s : M.member =
  match list s with
  | [k; o; r] -> { M.m_key = str_ k; M.m_opt = bool_ o; M.m_ty = struct_of r }
  | _ -> failwith "member expected"

let tdef_ s : M.tdef =
  match list s with
  | [Atom "struct"; n; fs] -> M.DStruct { M.s_name = str_ n; M.s_fields = list_ member_ fs }
  | [Atom "enum"; n; vs] -> M.DEnum { M.e_name = str_ n; M.e_variants = list_ str_ vs }
  | _ -> failwith "tdef expected"

let cdef_ s : M.cdef =
  match list s with
  | [n; ps; cs] -> { M.c_tname = str_ n; M.c_params = list_ member_ ps;
                     M.c_chans = list_ (fun c -> match list c with [k; r] -> (str_ k, struct_of r) | _ -> failwith "chan") cs }
  | _ -> failwith "cdef expected"

let () =
  (* (mapping tstruct opt with-enum with-unit chan-tstruct (field-key param-key channel-key second-enum-literal) ((TName ((key opt tstruct) ..)) ..) (plain ziface zvisit zfield zparam) plain-module zod-module)
     -> (in-domain model-strings string-oracle project-result allowed-tags schema-texts) *)
  Registry.register "tcase" (fun s ->
    match list s with
    | [m; t; o; we; wu; ct; keys; extra; strs; pm; zm] ->
        let m = mapping_ m in
        let t = ts_ t in
        let o = bool_ o in
        let (fk, pk, ck, lit) = match List.map str_ (list keys) with
          | [a; b; c; d] -> (a, b, c, d) | _ -> failwith "c10-tcase: four key strings expected" in
        let tsmember s = match list s with
          | [k; o; t] -> { M.m_key = str_ k; M.m_opt = bool_ o; M.m_ty = ts_ t }
          | _ -> failwith "member expected" in
        let extra = list_ (fun c -> match list c with
          | [n; ps] -> { M.c_tname = str_ n; M.c_params = list_ tsmember ps; M.c_chans = [] }
          | _ -> failwith "extra command expected") extra in
        let p = M.c10_tcase m t o (bool_ we) (bool_ wu) (ts_ ct) fk pk ck lit extra in
        (match List.map str_ (list strs) with
         | [a; b; _; d; e] ->
             List [of_bool (M.c10_in_dom m t); of_sx (M.c10_strings m t); of_sx (M.c10_string_oracle a b d e);
                   of_sx (M.c10_project p (str_ pm) (str_ zm)); of_sx (M.c10_allowed t); of_sx (M.c10_schema_texts p)]
         | _ -> failwith "c10-tcase: five strings expected")
    | _ -> failwith "c10-tcase: bad case");
  (* oracle only: (plain-text zod-text) -> verdict *)
  Registry.register "compare" (fun s ->
    match list s with
    | [a; b] -> of_sx (M.c10_compare (str_ a) (str_ b))
    | _ -> failwith "c10-compare: bad case");
  (* malformed stream: (mapping tstruct) -> (in-domain model-strings) *)
  Registry.register "strings" (fun s ->
    match list s with
    | [m; t] ->
        let m = mapping_ m in
        let t = ts_ t in
        List [of_bool (M.c10_in_dom m t); of_sx (M.c10_strings m t)]
    | _ -> failwith "c10-strings: bad case");
  (* (mapping (tdef ..) (cdef ..) plain-text zod-text) -> project-result *)
  Registry.register "project" (fun s ->
    match list s with
    | [m; ts; cs; pm; zm] ->
        let p = { M.p_types = list_ tdef_ ts; M.p_cmds = list_ cdef_ cs; M.p_map = mapping_ m } in
        of_sx (M.c10_project p (str_ pm) (str_ zm))
    | _ -> failwith "c10-project: bad case")
