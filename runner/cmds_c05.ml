(* C05 / C18: model texts, oracle on the implementation's texts, class membership.
   Rust types travel as s-expressions:  (p "Vec" (arg ...)) | (r t) | (t (elem ...)). *)
open Sexp
open Glue
module M = Tt_model

let rec rty_ s : M.rty =
  match s with
  | List [Atom "p"; Atom n; List args] -> M.RPath (explode n, List.map rty_ args)
  | List [Atom "r"; t] -> M.RRef (rty_ t)
  | List [Atom "t"; List l] -> M.RTuple (List.map rty_ l)
  | _ -> failwith "rty expected"

(* syn types beyond the documented language: (p ((name) | (name (arg ...)) ...)) with arg = (ty t) | (lt);
   (r t) (t (..)) (arr t) (slice t) (other) *)
let rec xty_ s : M.xty =
  match s with
  | List [Atom "p"; List segs] ->
      M.XPath (List.map (fun sg -> match sg with
        | List [Atom n] -> (explode n, None)
        | List [Atom n; List args] ->
            (explode n, Some (List.map (fun a -> match a with
               | List [Atom "ty"; t] -> Some (xty_ t) | _ -> None) args))
        | _ -> failwith "segment expected") segs)
  | List [Atom "r"; t] -> M.XRef (xty_ t)
  | List [Atom "t"; List l] -> M.XTuple (List.map xty_ l)
  | List [Atom "arr"; t] -> M.XArray (xty_ t)
  | List [Atom "slice"; t] -> M.XSlice (xty_ t)
  | List [Atom "other"] -> M.XOther
  | _ -> failwith "xty expected"

let mapping_ s : M.mapping = list_ (pair_ str_ str_) s

(* byte-wise quoting shared with the Rust driver: printable ASCII verbatim, everything else \xHH *)
let esc (l : char list) : string =
  let b = Buffer.create 16 in
  Buffer.add_char b '"';
  List.iter (fun c ->
    let n = Char.code c in
    if n >= 32 && n < 127 && c <> '"' && c <> '\\' then Buffer.add_char b c
    else Buffer.add_string b (Printf.sprintf "\\x%02x" n)) l;
  Buffer.add_char b '"';
  Buffer.contents b

let rec canon (t : M.tstruct) : string =
  match t with
  | M.TPrim p -> "(prim " ^ esc p ^ ")"
  | M.TArr u -> "(arr " ^ canon u ^ ")"
  | M.TMap (k, v) -> "(map " ^ canon k ^ " " ^ canon v ^ ")"
  | M.TSet u -> "(set " ^ canon u ^ ")"
  | M.TTuple l -> "(tuple" ^ String.concat "" (List.map (fun x -> " " ^ canon x) l) ^ ")"
  | M.TOpt u -> "(opt " ^ canon u ^ ")"
  | M.TRes u -> "(res " ^ canon u ^ ")"
  | M.TCustom n -> "(custom " ^ esc n ^ ")"

let tok_str (t : M.tok) : string =
  match t with
  | M.TId s -> implode s | M.TBar -> " | " | M.TLBr -> "[" | M.TRBr -> "]" | M.TLt -> "<" | M.TGt -> ">"
  | M.TComma -> ", " | M.TLPar -> "(" | M.TRPar -> ")" | M.TDot -> "."
let show_ty (t : M.tsty) : string = String.concat "" (List.map tok_str (M.c05_print t))
let show_opt = function None -> Atom "unreadable" | Some t -> Atom (show_ty t)

let class_name (k : M.kclass) : string =
  match k with
  | M.KUnionUnderSeq -> "kf_union_under_seq"
  | M.KPrefixUnqualified -> "kf_prefix_unqualified"
  | M.KZodOptional -> "kf_zod_optional"
  | M.KZodSet -> "kf_zod_set"
  | M.KZodResult -> "kf_zod_result"

let sites = [("param", M.SParam); ("return", M.SReturn); ("field", M.SField); ("channel", M.SChannel); ("event", M.SEvent)]
let modes = [("none", M.MNone); ("zod", M.MZod)]
let of_ostr = function None -> Atom "<none>" | Some s -> of_str s

let () =
  (* (rty mapping (impl-text x10 in the order none:param,return,field,channel,event, zod:...))  ; "" = not observed
     ->  (tts structure sem optional dom (site-results x10) plain prefix zvisit)
     site-result = (model-text oracle-on-impl-text observed-type expected-type (classes...)) *)
  Registry.register "emit" (fun s ->
    match list s with
    | [t; m; texts] ->
        let t = rty_ t in
        let m = mapping_ m in
        let texts = List.map atom (list texts) in
        let ty = M.c05_tts t in
        let st = M.c05_parse ty in
        let res = ref [] in
        let i = ref 0 in
        List.iter (fun (_, md) ->
          List.iter (fun (_, si) ->
            let impl = explode (List.nth texts !i) in
            incr i;
            let model = M.c05_emit si md m t in
            let ok = M.c05_oracle si md m t impl in
            let obs = M.c05_observe si md impl in
            let exp = M.c05_expected si m t in
            let cls = M.c05_classes si md m t in
            res := List [of_ostr model; of_bool ok; show_opt obs; Atom (show_ty exp);
                         List (List.map (fun k -> Atom (class_name k)) cls)] :: !res) sites) modes;
        let plain, prefix, zv =
          match st with
          | Some ts -> let p = M.c05_plain m ts in (of_str p, of_str (M.c05_prefix p), of_str (M.c05_zvisit m ts))
          | None -> (Atom "<none>", Atom "<none>", Atom "<none>") in
        List [of_str ty;
              (match st with Some ts -> Atom (canon ts) | None -> Atom "<none>");
              Atom (canon (M.c05_sem t));
              of_bool (M.c05_is_optional t);
              of_bool (M.c05_dom m t);
              List (List.rev !res); plain; prefix; zv]
    | _ -> failwith "c05-emit: bad case");
  (* malformed stream: (string mapping) -> (structure plain prefix zvisit zbuild) *)
  Registry.register "raw" (fun s ->
    match list s with
    | [ty; m] ->
        let m = mapping_ m in
        (match M.c05_parse (str_ ty) with
         | Some ts ->
             let p = M.c05_plain m ts in
             List [Atom (canon ts); of_str p; of_str (M.c05_prefix p); of_str (M.c05_zvisit m ts); of_str (M.c05_zbuild m ts)]
         | None -> List [Atom "<none>"])
    | _ -> failwith "c05-raw: bad case")
;;
let () =
  (* the three type_to_string variants: xty -> (command struct channel) *)
  Registry.register "printers" (fun s ->
    let t = xty_ s in
    List [of_str (M.c05_pr_cmd t); of_str (M.c05_pr_struct t); of_str (M.c05_pr_chan t)])
