//! Shared part of the implementation-side drivers. Each property has its own
//! binary harness/src/bin/<id>.rs (built as build/target/release/<id>) so that
//! a driver that does not compile never blocks the other checks.
//! Protocol: `<id> <subcommand>` reads one JSON case per line on stdin and
//! prints one JSON observation per line. Panics are caught per case and
//! reported as {"id": .., "panic": msg}.
use std::io::{self, BufRead, Write};

pub fn run_lines<F>(mut f: F)
where
    F: FnMut(&serde_json::Value) -> serde_json::Value,
{
    let stdin = io::stdin();
    let stdout = io::stdout();
    let mut out = io::BufWriter::new(stdout.lock());
    for line in stdin.lock().lines() {
        let line = line.expect("read stdin");
        if line.trim().is_empty() {
            continue;
        }
        let v: serde_json::Value = serde_json::from_str(&line).expect("case json");
        let r = std::panic::catch_unwind(std::panic::AssertUnwindSafe(|| f(&v)));
        let obs = match r {
            Ok(o) => o,
            Err(e) => {
                let msg = if let Some(s) = e.downcast_ref::<&str>() {
                    s.to_string()
                } else if let Some(s) = e.downcast_ref::<String>() {
                    s.clone()
                } else {
                    "panic".to_string()
                };
                serde_json::json!({"id": v.get("id").cloned().unwrap_or(serde_json::Value::Null), "panic": msg})
            }
        };
        serde_json::to_writer(&mut out, &obs).unwrap();
        out.write_all(b"\n").unwrap();
        out.flush().unwrap();
    }
}

/// Dispatch `argv[1]` over a table of subcommands.
pub fn dispatch(table: &[(&str, fn(&serde_json::Value) -> serde_json::Value)]) {
    // keep panic messages out of stderr noise; they are reported per case
    std::panic::set_hook(Box::new(|_| {}));
    let args: Vec<String> = std::env::args().collect();
    let cmd = args.get(1).map(|s| s.as_str()).unwrap_or("");
    for (name, f) in table {
        if *name == cmd {
            run_lines(*f);
            return;
        }
    }
    eprintln!("unknown subcommand {cmd}");
    std::process::exit(2);
}
