//! Implementation side of the correspondence check: runs /repo's public API
//! on cases read from stdin (one JSON value per line) and prints one JSON
//! observation per line. Panics are caught and reported as {"panic": msg}.
mod c20;

use std::io::{self, BufRead, Write};

pub fn run_lines<F>(mut f: F)
where
    F: FnMut(&serde_json::Value) -> serde_json::Value,
{
    let stdin = io::stdin();
    let stdout = io::stdout();
    let mut out = io::BufWriter::new(stdout.lock());
    for line in stdin.lock().lines() {
        let line = line.expect("read stdin");
        if line.trim().is_empty() {
            continue;
        }
        let v: serde_json::Value = serde_json::from_str(&line).expect("case json");
        let r = std::panic::catch_unwind(std::panic::AssertUnwindSafe(|| f(&v)));
        let obs = match r {
            Ok(o) => o,
            Err(e) => {
                let msg = if let Some(s) = e.downcast_ref::<&str>() {
                    s.to_string()
                } else if let Some(s) = e.downcast_ref::<String>() {
                    s.clone()
                } else {
                    "panic".to_string()
                };
                serde_json::json!({"id": v.get("id").cloned().unwrap_or(serde_json::Value::Null), "panic": msg})
            }
        };
        serde_json::to_writer(&mut out, &obs).unwrap();
        out.write_all(b"\n").unwrap();
        out.flush().unwrap();
    }
}

fn main() {
    // keep panic messages out of stderr noise; they are reported per case
    std::panic::set_hook(Box::new(|_| {}));
    let args: Vec<String> = std::env::args().collect();
    let cmd = args.get(1).map(|s| s.as_str()).unwrap_or("");
    match cmd {
        "c20-topo" => run_lines(c20::topo),
        "c20-kahn" => run_lines(c20::kahn),
        _ => {
            eprintln!("unknown subcommand {cmd}");
            std::process::exit(2);
        }
    }
}
