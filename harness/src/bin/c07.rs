//! C07 driver: subcommand `harvest` - the two scanners over one printed Rust type, through public items only:
//! CommandAnalyzer::extract_type_names (the name harvester) and
//! TypeResolver::parse_type_structure + TypeCollector::collect_referenced_types_from_structure.
use serde_json::{json, Value};
use std::fs;
use std::path::Path;
use tauri_typegen::generators::create_generator;
use tauri_typegen::GenerateConfig;
use std::collections::HashSet;
use tauri_typegen::analysis::type_resolver::TypeResolver;
use tauri_typegen::analysis::CommandAnalyzer;
use tauri_typegen::generators::TypeCollector;

/// case: {"id", "ty": "<printed rust type>"}
pub fn harvest(case: &Value) -> Value {
    let ty = case["ty"].as_str().unwrap();
    let analyzer = CommandAnalyzer::new();
    let mut names = HashSet::new();
    analyzer.extract_type_names(ty, &mut names);
    let resolver = TypeResolver::new();
    let ts = resolver.parse_type_structure(ty);
    let mut used = HashSet::new();
    TypeCollector::collect_referenced_types_from_structure(&ts, &mut used);
    let mut names: Vec<String> = names.into_iter().collect();
    names.sort();
    let mut used: Vec<String> = used.into_iter().collect();
    used.sort();
    json!({"id": case["id"], "names": names, "used": used})
}

/// `rounds`: one generator object (and, unless fresh_analyzer, one analyzer) over several projects; see c09.rs
fn write_sources(root: &Path, files: &Value) {
    let src = root.join("proj");
    let _ = fs::remove_dir_all(&src);
    for (rel, text) in files.as_object().unwrap() {
        let p = src.join(rel);
        fs::create_dir_all(p.parent().unwrap()).unwrap();
        fs::write(&p, text.as_str().unwrap()).unwrap();
    }
}

/// case: {"id", "dir": scratch directory (exists, empty), "mode": "zod"|"none", "rounds": [{"files": {rel: text}}, ...]}
/// answer: {"id", "rounds": [{"ok": bool, "types_ts": text | null, "error": msg | null}, ...]}
pub fn rounds(case: &Value) -> Value {
    let root = Path::new(case["dir"].as_str().unwrap()).to_path_buf();
    let mode = case["mode"].as_str().unwrap_or("zod").to_string();
    let fresh = case["fresh_analyzer"].as_bool().unwrap_or(false);
    let mut analyzer = CommandAnalyzer::new();
    let mut generator = create_generator(Some(mode.clone()));
    let mut out = Vec::new();
    for (k, round) in case["rounds"].as_array().unwrap().iter().enumerate() {
        write_sources(&root, &round["files"]);
        let out_dir = root.join(format!("out{}", k));
        let config = GenerateConfig {
            project_path: root.join("proj").to_string_lossy().to_string(),
            output_path: out_dir.to_string_lossy().to_string(),
            validation_library: mode.clone(),
            ..Default::default()
        };
        if fresh {
            analyzer = CommandAnalyzer::new();      // a new analysis per project, the generator object is kept
        }
        let res = (|| -> Result<String, Box<dyn std::error::Error>> {
            let commands = analyzer.analyze_project(&config.project_path)?;
            generator.generate_models(&commands, analyzer.get_discovered_structs(), &config.output_path, &analyzer, &config)?;
            Ok(fs::read_to_string(out_dir.join("types.ts"))?)
        })();
        match res {
            Ok(text) => out.push(json!({"ok": true, "types_ts": text, "error": null})),
            Err(e) => out.push(json!({"ok": false, "types_ts": null, "error": e.to_string()})),
        }
    }
    json!({"id": case["id"], "rounds": out})
}

fn main() {
    tt_harness::dispatch(&[("harvest", harvest), ("rounds", rounds)]);
}
