//! C07 driver: subcommand `harvest` - the two scanners over one printed Rust type, through public items only:
//! CommandAnalyzer::extract_type_names (the name harvester) and
//! TypeResolver::parse_type_structure + TypeCollector::collect_referenced_types_from_structure.
use serde_json::{json, Value};
use std::collections::HashSet;
use tauri_typegen::analysis::type_resolver::TypeResolver;
use tauri_typegen::analysis::CommandAnalyzer;
use tauri_typegen::generators::TypeCollector;

/// case: {"id", "ty": "<printed rust type>"}
pub fn harvest(case: &Value) -> Value {
    let ty = case["ty"].as_str().unwrap();
    let analyzer = CommandAnalyzer::new();
    let mut names = HashSet::new();
    analyzer.extract_type_names(ty, &mut names);
    let resolver = TypeResolver::new();
    let ts = resolver.parse_type_structure(ty);
    let mut used = HashSet::new();
    TypeCollector::collect_referenced_types_from_structure(&ts, &mut used);
    let mut names: Vec<String> = names.into_iter().collect();
    names.sort();
    let mut used: Vec<String> = used.into_iter().collect();
    used.sort();
    json!({"id": case["id"], "names": names, "used": used})
}

fn main() {
    tt_harness::dispatch(&[("harvest", harvest)]);
}
