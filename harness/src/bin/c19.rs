//! C19 driver: subcommand `lib`.
//! Library level observation of GenerateConfig::save_to_tauri_config followed by
//! GenerateConfig::from_tauri_config on one document, inside a fresh scratch directory
//! (the process changes into it, so relative project paths can be made to exist).
use serde_json::{json, Value};
use std::collections::HashMap;
use std::fs;
use std::path::Path;
use tauri_typegen::interface::config::{ConfigError, GenerateConfig};

fn ob(v: &Value) -> Option<bool> {
    v.as_bool()
}
fn ostrs(v: &Value) -> Option<Vec<String>> {
    v.as_array().map(|a| a.iter().map(|x| x.as_str().unwrap().to_string()).collect())
}
fn omap(v: &Value) -> Option<HashMap<String, String>> {
    v.as_object().map(|m| m.iter().map(|(k, x)| (k.clone(), x.as_str().unwrap().to_string())).collect())
}
fn s(v: &Value) -> String {
    v.as_str().unwrap().to_string()
}

fn config_of(c: &Value) -> GenerateConfig {
    GenerateConfig {
        project_path: s(&c["project_path"]),
        output_path: s(&c["output_path"]),
        validation_library: s(&c["validation_library"]),
        verbose: ob(&c["verbose"]),
        visualize_deps: ob(&c["visualize_deps"]),
        include_private: ob(&c["include_private"]),
        type_mappings: omap(&c["type_mappings"]),
        exclude_patterns: ostrs(&c["exclude_patterns"]),
        include_patterns: ostrs(&c["include_patterns"]),
        default_parameter_case: s(&c["default_parameter_case"]),
        default_field_case: s(&c["default_field_case"]),
        force: ob(&c["force"]),
    }
}

fn config_json(c: &GenerateConfig) -> Value {
    let tm: Option<std::collections::BTreeMap<String, String>> =
        c.type_mappings.as_ref().map(|m| m.iter().map(|(k, v)| (k.clone(), v.clone())).collect());
    json!({
        "project_path": c.project_path, "output_path": c.output_path,
        "validation_library": c.validation_library, "verbose": c.verbose,
        "visualize_deps": c.visualize_deps, "include_private": c.include_private,
        "type_mappings": tm, "exclude_patterns": c.exclude_patterns,
        "include_patterns": c.include_patterns,
        "default_parameter_case": c.default_parameter_case,
        "default_field_case": c.default_field_case, "force": c.force,
    })
}

fn err_kind(e: &ConfigError) -> &'static str {
    match e {
        ConfigError::Io(_) => "io",
        ConfigError::Json(_) => "json",
        ConfigError::InvalidValidationLibrary(_) => "badlib",
        ConfigError::InvalidConfig(_) => "invalid",
    }
}

/// Odd directory entries for the path-shape cases: a regular file (so that `notes.txt/src`
/// names nothing), a symlink loop, a dangling symlink, a symlink to a real directory.
fn fixtures() {
    let _ = fs::write("notes.txt", "not a directory\n");
    let _ = std::os::unix::fs::symlink("loop", "loop");
    let _ = std::os::unix::fs::symlink("no-such-target", "dangling");
    let _ = fs::create_dir_all("realdir");
    let _ = std::os::unix::fs::symlink("realdir", "linkdir");
}

fn validate_kind(cfg: &GenerateConfig) -> String {
    match cfg.validate() {
        Ok(()) => "ok".to_string(),
        Err(e) => err_kind(&e).to_string(),
    }
}

/// case: {"id", "scratch": dir, "text": file content, "cfg": {...}, "mkproj": bool}
pub fn lib(case: &Value) -> Value {
    let base = Path::new(case["scratch"].as_str().unwrap());
    let dir = tempfile::Builder::new().prefix("c19-").tempdir_in(base).expect("scratch dir");
    let back = std::env::current_dir().unwrap();
    std::env::set_current_dir(dir.path()).unwrap();
    let r = std::panic::catch_unwind(std::panic::AssertUnwindSafe(|| {
        let cfg = config_of(&case["cfg"]);
        fixtures();
        let mut mk = false;
        if case["mkproj"].as_bool().unwrap_or(false) {
            mk = fs::create_dir_all(&cfg.project_path).is_ok();
        }
        // the environment as the standard library sees it (no code of /repo involved)
        let exists = Path::new(&cfg.project_path).exists();
        let validate = validate_kind(&cfg);
        fs::write("tauri.conf.json", case["text"].as_str().unwrap().as_bytes()).unwrap();
        let save = match cfg.save_to_tauri_config("tauri.conf.json") {
            Ok(()) => "ok".to_string(),
            Err(e) => err_kind(&e).to_string(),
        };
        let after = fs::read_to_string("tauri.conf.json").ok();
        let load = match GenerateConfig::from_tauri_config("tauri.conf.json") {
            Ok(Some(c)) => json!({"kind": "some", "cfg": config_json(&c)}),
            Ok(None) => json!({"kind": "none"}),
            Err(e) => json!({"kind": "err", "err": err_kind(&e), "msg": e.to_string()}),
        };
        json!({"id": case["id"], "save": save, "after_text": after, "load": load, "mkproj_done": mk,
               "project_exists": exists, "validate": validate})
    }));
    std::env::set_current_dir(back).unwrap();
    match r {
        Ok(v) => v,
        Err(e) => std::panic::resume_unwind(e),
    }
}

/// case: {"id", "text"}: how serde_json (the version and features /repo is built with) reads a
/// document; no code of /repo runs. Gives the model its starting point (the parsed value).
pub fn parse(case: &Value) -> Value {
    match serde_json::from_str::<Value>(case["text"].as_str().unwrap()) {
        Ok(v) => json!({"id": case["id"], "ok": true, "text": serde_json::to_string(&v).unwrap()}),
        Err(e) => json!({"id": case["id"], "ok": false, "err": e.to_string()}),
    }
}

/// case: {"id", "scratch", "cfg": {...}, "mkproj": bool} : save_to_file then from_file;
/// or {"id", "scratch", "text": .., "dirs": [..]} : from_file on a given document.
pub fn flat(case: &Value) -> Value {
    let base = Path::new(case["scratch"].as_str().unwrap());
    let dir = tempfile::Builder::new().prefix("c19f-").tempdir_in(base).expect("scratch dir");
    let back = std::env::current_dir().unwrap();
    std::env::set_current_dir(dir.path()).unwrap();
    let r = std::panic::catch_unwind(std::panic::AssertUnwindSafe(|| {
        let mut mk = false;
        let mut exists = false;
        let mut validate = String::new();
        let mut saved: Option<String> = None;
        if let Some(text) = case["text"].as_str() {
            for d in case["dirs"].as_array().map(|a| a.to_vec()).unwrap_or_default() {
                let _ = fs::create_dir_all(d.as_str().unwrap());
            }
            fs::write("typegen.json", text.as_bytes()).unwrap();
        } else {
            let cfg = config_of(&case["cfg"]);
            fixtures();
            if case["mkproj"].as_bool().unwrap_or(false) {
                mk = fs::create_dir_all(&cfg.project_path).is_ok();
            }
            exists = Path::new(&cfg.project_path).exists();
            validate = validate_kind(&cfg);
            let s = cfg.save_to_file("typegen.json");
            saved = if s.is_ok() { fs::read_to_string("typegen.json").ok() } else { None };
        }
        let load = match GenerateConfig::from_file("typegen.json") {
            Ok(c) => json!({"kind": "some", "cfg": config_json(&c)}),
            Err(e) => json!({"kind": "err", "err": err_kind(&e), "msg": e.to_string()}),
        };
        json!({"id": case["id"], "saved_text": saved, "load": load, "mkproj_done": mk,
               "project_exists": exists, "validate": validate})
    }));
    std::env::set_current_dir(back).unwrap();
    match r {
        Ok(v) => v,
        Err(e) => std::panic::resume_unwind(e),
    }
}

/// `c19 buildrun` in the current directory: the build-script entry point. Its own output
/// (cargo: directives) goes to stdout; the last line is the verdict.
fn buildrun() {
    let r = std::panic::catch_unwind(|| tauri_typegen::BuildSystem::generate_at_build_time().map_err(|e| e.to_string()));
    match r {
        Ok(Ok(())) => println!("C19RESULT ok"),
        Ok(Err(e)) => println!("C19RESULT err {}", e.replace('\n', " ")),
        Err(_) => println!("C19RESULT panic"),
    }
}

fn main() {
    if std::env::args().nth(1).as_deref() == Some("buildrun") {
        buildrun();
        return;
    }
    tt_harness::dispatch(&[("lib", lib), ("parse", parse), ("flat", flat)]);
}
