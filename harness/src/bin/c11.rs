//! C11 driver: subcommand `fields`.
//! case: {"id", "src": "<Rust source containing exactly one struct with named fields>"}
//! Observation per field, through the public API only:
//!   toks   token strings `tokens.to_string()` of each #[validate(..)] meta list (the scanners' input)
//!   lits   value of every string literal inside the field's attributes (syn::LitStr::value), in source order
//!   alone  {va, ts, chain} | {panic}  -- StructParser::parse_struct on a struct holding only this field,
//!          then ZodSchemaBuilder::build_schema(type_structure, validator_attributes)
//!   direct ValidatorParser::parse_validator_attributes(&field.attrs) (same canonical form as va)
//! and `whole`: the same (va, chain) list obtained from parse_struct on the struct as written.
use proc_macro2::{TokenStream, TokenTree};
use quote::ToTokens;
use serde_json::{json, Value};
use std::panic::{catch_unwind, AssertUnwindSafe};
use std::path::Path;
use tauri_typegen::analysis::struct_parser::StructParser;
use tauri_typegen::analysis::type_resolver::TypeResolver;
use tauri_typegen::analysis::validator_parser::ValidatorParser;
use tauri_typegen::generators::zod::schema_builder::ZodSchemaBuilder;
use tauri_typegen::models::ValidatorAttributes;
use tauri_typegen::GenerateConfig;

fn pmsg(e: Box<dyn std::any::Any + Send>) -> String {
    if let Some(s) = e.downcast_ref::<&str>() {
        s.to_string()
    } else if let Some(s) = e.downcast_ref::<String>() {
        s.clone()
    } else {
        "panic".to_string()
    }
}

/// Canonical form: bounds as the text Rust's Display prints (what format!("{}") puts into the chain).
fn va_json(va: &Option<ValidatorAttributes>) -> Value {
    match va {
        None => Value::Null,
        Some(v) => json!({
            "email": v.email,
            "url": v.url,
            "length": v.length.as_ref().map(|l| json!({
                "min": l.min.map(|x| x.to_string()),
                "max": l.max.map(|x| x.to_string()),
                "message": l.message,
            })),
            "range": v.range.as_ref().map(|r| json!({
                "min": r.min.map(|x| x.to_string()),
                "max": r.max.map(|x| x.to_string()),
                "message": r.message,
            })),
            "customMessage": v.custom_message,
        }),
    }
}

fn collect_lits(ts: TokenStream, out: &mut Vec<Value>) {
    for t in ts {
        match t {
            TokenTree::Group(g) => collect_lits(g.stream(), out),
            TokenTree::Literal(l) => {
                if let Ok(s) = syn::parse2::<syn::LitStr>(TokenTree::Literal(l).into_token_stream()) {
                    out.push(json!({"value": s.value(), "bytes": s.value().as_bytes()}));
                }
            }
            _ => {}
        }
    }
}

fn parse_item(item: &syn::ItemStruct) -> Vec<Value> {
    let parser = StructParser::new();
    let mut resolver = TypeResolver::new();
    let config = GenerateConfig::default();
    let builder = ZodSchemaBuilder::new(&config);
    let info = parser.parse_struct(item, Path::new("src/lib.rs"), &mut resolver);
    match info {
        None => vec![],
        Some(info) => info
            .fields
            .iter()
            .map(|f| {
                json!({
                    "name": f.name,
                    "va": va_json(&f.validator_attributes),
                    "ts": format!("{:?}", f.type_structure),
                    "chain": builder.build_schema(&f.type_structure, &f.validator_attributes),
                })
            })
            .collect(),
    }
}

pub fn fields(case: &Value) -> Value {
    let src = case["src"].as_str().unwrap();
    let file: syn::File = match syn::parse_str(src) {
        Ok(f) => f,
        Err(e) => return json!({"id": case["id"], "syn_error": e.to_string()}),
    };
    let item = file
        .items
        .iter()
        .find_map(|i| if let syn::Item::Struct(s) = i { Some(s.clone()) } else { None })
        .expect("one struct");
    let whole = match catch_unwind(AssertUnwindSafe(|| parse_item(&item))) {
        Ok(v) => json!({"fields": v}),
        Err(e) => json!({"panic": pmsg(e)}),
    };
    let mut per_field = Vec::new();
    if let syn::Fields::Named(named) = &item.fields {
        for f in named.named.iter() {
            let mut toks = Vec::new();
            let mut lits = Vec::new();
            for a in &f.attrs {
                if a.path().is_ident("validate") {
                    match syn::parse2::<syn::MetaList>(a.meta.to_token_stream()) {
                        Ok(ml) => {
                            toks.push(Value::String(ml.tokens.to_string()));
                            collect_lits(ml.tokens.clone(), &mut lits);
                        }
                        Err(_) => toks.push(Value::Null),
                    }
                }
            }
            let direct = match catch_unwind(AssertUnwindSafe(|| {
                va_json(&ValidatorParser::new().parse_validator_attributes(&f.attrs))
            })) {
                Ok(v) => json!({"va": v}),
                Err(e) => json!({"panic": pmsg(e)}),
            };
            let mut single = item.clone();
            single.attrs.clear();
            let mut only = named.clone();
            only.named = std::iter::once(f.clone()).collect();
            single.fields = syn::Fields::Named(only);
            let alone = match catch_unwind(AssertUnwindSafe(|| parse_item(&single))) {
                Ok(v) => v.into_iter().next().unwrap_or(json!({"skipped": true})),
                Err(e) => json!({"panic": pmsg(e)}),
            };
            per_field.push(json!({
                "name": f.ident.as_ref().map(|i| i.to_string()),
                "toks": toks,
                "lits": lits,
                "direct": direct,
                "alone": alone,
            }));
        }
    }
    json!({"id": case["id"], "whole": whole, "fields": per_field})
}

fn main() {
    tt_harness::dispatch(&[("fields", fields)]);
}
