//! C04 driver. Subcommand `gen`: write the case's Rust source files into a scratch project, load the
//! configuration through GenerateConfig::from_file (so that the default of default_parameter_case
//! is the one config.rs gives), run generate_from_config in both modes and hand back types.ts and
//! commands.ts. Also reports, per parameter, what syn sees of the type (path segments, kinds of
//! generic arguments) so that the generator's abstraction is cross-checked, and what
//! heck::ToLowerCamelCase / ToSnakeCase (what tauri-macros applies to argument names under
//! rename_all = camelCase / snake_case) make of each name.
use heck::{ToLowerCamelCase, ToSnakeCase};
use serde_json::{json, Value};
use std::fs;
use std::panic::{catch_unwind, AssertUnwindSafe};
use tauri_typegen::analysis::CommandAnalyzer;
use tauri_typegen::generators::create_generator;
use tauri_typegen::{generate_from_config, GenerateConfig};

fn panic_msg(e: Box<dyn std::any::Any + Send>) -> String {
    if let Some(s) = e.downcast_ref::<&str>() {
        s.to_string()
    } else if let Some(s) = e.downcast_ref::<String>() {
        s.clone()
    } else {
        "panic".to_string()
    }
}

fn run_mode(dir: &std::path::Path, mode: &str, default_case: &Value) -> Value {
    let out = dir.join(format!("out-{mode}"));
    let mut cfg = json!({
        "project_path": dir.join("src").to_string_lossy(),
        "output_path": out.to_string_lossy(),
        "validation_library": mode,
    });
    if let Some(s) = default_case.as_str() {
        cfg["default_parameter_case"] = json!(s);
    }
    let cfg_path = dir.join(format!("typegen-{mode}.json"));
    fs::write(&cfg_path, serde_json::to_string(&cfg).unwrap()).unwrap();
    let r = catch_unwind(AssertUnwindSafe(|| -> Result<Vec<String>, String> {
        let config = GenerateConfig::from_file(&cfg_path).map_err(|e| format!("config: {e}"))?;
        generate_from_config(&config).map_err(|e| e.to_string())
    }));
    match r {
        Err(e) => json!({"panic": panic_msg(e)}),
        Ok(Err(e)) => json!({"error": e}),
        Ok(Ok(files)) => {
            let t = fs::read_to_string(out.join("types.ts")).ok();
            let c = fs::read_to_string(out.join("commands.ts")).ok();
            json!({"files": files, "types": t, "commands": c})
        }
    }
}

fn abs_type(src: &str) -> Value {
    match syn::parse_str::<syn::Type>(src) {
        Ok(syn::Type::Path(tp)) if tp.qself.is_none() => {
            let segs: Vec<String> = tp.path.segments.iter().map(|s| s.ident.to_string()).collect();
            let args = match &tp.path.segments.last().unwrap().arguments {
                syn::PathArguments::None => Value::Null,
                syn::PathArguments::AngleBracketed(a) => Value::Array(
                    a.args
                        .iter()
                        .map(|g| match g {
                            syn::GenericArgument::Type(_) => json!("T"),
                            _ => json!("L"),
                        })
                        .collect(),
                ),
                syn::PathArguments::Parenthesized(_) => json!("paren"),
            };
            json!({"path": segs, "args": args})
        }
        Ok(_) => json!("other"),
        Err(e) => json!({"syn_error": e.to_string()}),
    }
}

/// case: {"id", "scratch": dir, "files": [[path, text]], "default_case": str | null, "params": [{"name","ty"}]}
fn gen(case: &Value) -> Value {
    let scratch = case["scratch"].as_str().unwrap();
    fs::create_dir_all(scratch).unwrap();
    let dir = tempfile::Builder::new().prefix("c04-").tempdir_in(scratch).unwrap();
    fs::create_dir_all(dir.path().join("src")).unwrap();
    // "files": [[relative path below src/, text], ...]
    for f in case["files"].as_array().unwrap() {
        let p = dir.path().join("src").join(f[0].as_str().unwrap());
        fs::create_dir_all(p.parent().unwrap()).unwrap();
        fs::write(p, f[1].as_str().unwrap()).unwrap();
    }
    let plain = run_mode(dir.path(), "none", &case["default_case"]);
    let zod = run_mode(dir.path(), "zod", &case["default_case"]);
    let mut heck = Vec::new();
    let mut abs = Vec::new();
    for p in case["params"].as_array().unwrap() {
        let n = p["name"].as_str().unwrap();
        // for a destructuring pattern tauri-macros starts from the identifier of the pattern's path
        let h = p["heck_src"].as_str().unwrap_or(n);
        heck.push(json!([h.to_lower_camel_case(), h.to_snake_case()]));
        abs.push(abs_type(p["ty"].as_str().unwrap()));
    }
    json!({"id": case["id"], "plain": plain, "zod": zod, "heck": heck, "abs": abs})
}

/// Subcommand `route`: the other ways a configuration reaches the generator from Rust.
/// case: {"id", "cwd": dir, "kind": "build" | "lib-tauri", "conf": path}
///   build     - chdir into cwd and call BuildSystem::generate_at_build_time(), as a build.rs would
///               (project detection, then tauri.conf.json / typegen.json through load_configuration)
///   lib-tauri - GenerateConfig::from_tauri_config(conf) followed by generate_from_config
/// The tool prints cargo: lines on stdout; the python side picks the last JSON line.
fn route(case: &Value) -> Value {
    let back = std::env::current_dir().unwrap();
    std::env::set_current_dir(case["cwd"].as_str().unwrap()).unwrap();
    let kind = case["kind"].as_str().unwrap().to_string();
    let conf = case["conf"].as_str().unwrap_or("").to_string();
    let r = catch_unwind(AssertUnwindSafe(|| -> Result<(), String> {
        match kind.as_str() {
            "build" => tauri_typegen::BuildSystem::generate_at_build_time().map_err(|e| e.to_string()),
            _ => {
                let config = GenerateConfig::from_tauri_config(&conf)
                    .map_err(|e| format!("config: {e}"))?
                    .ok_or_else(|| "no typegen section".to_string())?;
                generate_from_config(&config).map(|_| ()).map_err(|e| e.to_string())
            }
        }
    }));
    std::env::set_current_dir(back).unwrap();
    println!();
    match r {
        Err(e) => json!({"id": case["id"], "panic": panic_msg(e)}),
        Ok(Err(e)) => json!({"id": case["id"], "error": e}),
        Ok(Ok(())) => json!({"id": case["id"], "ok": true}),
    }
}

/// Subcommand `reuse`: the library API used as long-lived objects (a watch mode): ONE generator from
/// create_generator (and, when "reuse_analyzer", ONE CommandAnalyzer) serves every round; each round rewrites
/// the sources, analyses them and calls generate_models into the same output directory.
/// case: {"id", "scratch", "mode": "none"|"zod", "reuse_analyzer": bool, "rounds": [{"files": [[path, text]], "default_case": str|null}]}
fn reuse(case: &Value) -> Value {
    let scratch = case["scratch"].as_str().unwrap();
    fs::create_dir_all(scratch).unwrap();
    let dir = tempfile::Builder::new().prefix("c04r-").tempdir_in(scratch).unwrap();
    let mode = case["mode"].as_str().unwrap().to_string();
    let src = dir.path().join("src");
    let out = dir.path().join("out");
    let mut generator = create_generator(Some(mode.clone()));
    let mut shared = CommandAnalyzer::new();
    let mut rounds = Vec::new();
    for (i, round) in case["rounds"].as_array().unwrap().iter().enumerate() {
        let _ = fs::remove_dir_all(&src);
        for f in round["files"].as_array().unwrap() {
            let p = src.join(f[0].as_str().unwrap());
            fs::create_dir_all(p.parent().unwrap()).unwrap();
            fs::write(p, f[1].as_str().unwrap()).unwrap();
        }
        let mut cfg = json!({"project_path": src.to_string_lossy(), "output_path": out.to_string_lossy(), "validation_library": mode});
        if let Some(s) = round["default_case"].as_str() {
            cfg["default_parameter_case"] = json!(s);
        }
        let cfg_path = dir.path().join(format!("typegen-{i}.json"));
        fs::write(&cfg_path, serde_json::to_string(&cfg).unwrap()).unwrap();
        let reuse_analyzer = case["reuse_analyzer"].as_bool().unwrap_or(false);
        let r = catch_unwind(AssertUnwindSafe(|| -> Result<(), String> {
            let config = GenerateConfig::from_file(&cfg_path).map_err(|e| format!("config: {e}"))?;
            let mut fresh = CommandAnalyzer::new();
            let analyzer: &mut CommandAnalyzer = if reuse_analyzer { &mut shared } else { &mut fresh };
            let commands = analyzer.analyze_project(&config.project_path).map_err(|e| e.to_string())?;
            generator
                .generate_models(&commands, analyzer.get_discovered_structs(), &config.output_path, analyzer, &config)
                .map(|_| ())
                .map_err(|e| e.to_string())
        }));
        rounds.push(match r {
            Err(e) => json!({"panic": panic_msg(e)}),
            Ok(Err(e)) => json!({"error": e}),
            Ok(Ok(())) => json!({"types": fs::read_to_string(out.join("types.ts")).ok(), "commands": fs::read_to_string(out.join("commands.ts")).ok()}),
        });
    }
    json!({"id": case["id"], "rounds": rounds})
}

fn main() {
    tt_harness::dispatch(&[("gen", gen), ("route", route), ("reuse", reuse)]);
}
