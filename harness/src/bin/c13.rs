//! C13 driver: the library entry point `generate_from_config` on a project / output directory that the
//! python side prepared (used for the prior-state stream: the output directory already holds files).
use serde_json::{json, Value};
use tauri_typegen::{generate_from_config, GenerateConfig};

/// case: {"id", "project": dir, "out": dir, "mode": "none"|"zod", "viz": bool}
pub fn lib(case: &Value) -> Value {
    let config = GenerateConfig {
        project_path: case["project"].as_str().unwrap().to_string(),
        output_path: case["out"].as_str().unwrap().to_string(),
        validation_library: case["mode"].as_str().unwrap_or("none").to_string(),
        visualize_deps: Some(case["viz"].as_bool().unwrap_or(false)),
        force: Some(true),
        ..Default::default()
    };
    match generate_from_config(&config) {
        Ok(files) => json!({"id": case["id"], "ok": true, "files": files}),
        Err(e) => json!({"id": case["id"], "ok": false, "error": e.to_string()}),
    }
}

fn main() {
    tt_harness::dispatch(&[("lib", lib)]);
}
