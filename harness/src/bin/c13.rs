//! C13 driver: the entry points of the library other than the CLI binary.
//! `c13 lib`      JSON lines {"id","project","out","mode","viz","type_mappings": {..}|null}: calls
//!                `generate_from_config` in the current working directory (paths may be relative).
//! `c13 build1`   (no stdin) calls `BuildSystem::generate_at_build_time()` in the current working
//!                directory (which must hold tauri.conf.json); exit status 0 = Ok, 3 = Err.
use serde_json::{json, Value};
use std::collections::HashMap;
use tauri_typegen::{generate_from_config, GenerateConfig};

pub fn lib(case: &Value) -> Value {
    let mappings: Option<HashMap<String, String>> = case["type_mappings"].as_object().map(|m| {
        m.iter().map(|(k, v)| (k.clone(), v.as_str().unwrap_or("").to_string())).collect()
    });
    let config = GenerateConfig {
        project_path: case["project"].as_str().unwrap().to_string(),
        output_path: case["out"].as_str().unwrap().to_string(),
        validation_library: case["mode"].as_str().unwrap_or("none").to_string(),
        visualize_deps: Some(case["viz"].as_bool().unwrap_or(false)),
        type_mappings: mappings,
        force: Some(true),
        ..Default::default()
    };
    match generate_from_config(&config) {
        Ok(files) => json!({"id": case["id"], "ok": true, "files": files}),
        Err(e) => json!({"id": case["id"], "ok": false, "error": e.to_string()}),
    }
}

fn build1() -> ! {
    match tauri_typegen::BuildSystem::generate_at_build_time() {
        Ok(()) => std::process::exit(0),
        Err(e) => {
            eprintln!("ERR: {e}");
            std::process::exit(3)
        }
    }
}

fn main() {
    let args: Vec<String> = std::env::args().collect();
    if args.get(1).map(|s| s.as_str()) == Some("build1") {
        build1();
    }
    tt_harness::dispatch(&[("lib", lib)]);
}
