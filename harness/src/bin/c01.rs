//! C01 driver: subcommand `analyze`.
//! case: {"id", "files": {"src/a.rs": "<Rust source>", ...}}
//! Observation, through the public API only, of the two analysis results the C01 generator model
//! does not derive itself (they are the subject of C11 and C12):
//!   validators  {"Struct.field": null | {email, url, length: null|{min,max,message}, range: ...}}
//!               from ValidatorParser::parse_validator_attributes(&field.attrs); bounds as the text
//!               Rust's Display prints (what format!("{}") puts into the schema)
//!   events      [[event_name, payload_type], ...] per file from EventParser::extract_events_from_ast
use serde_json::{json, Map, Value};
use std::path::Path;
use tauri_typegen::analysis::event_parser::EventParser;
use tauri_typegen::analysis::type_resolver::TypeResolver;
use tauri_typegen::analysis::validator_parser::ValidatorParser;
use tauri_typegen::models::ValidatorAttributes;

fn va_json(va: &Option<ValidatorAttributes>) -> Value {
    match va {
        None => Value::Null,
        Some(v) => json!({
            "email": v.email,
            "url": v.url,
            "length": v.length.as_ref().map(|l| json!({
                "min": l.min.map(|x| x.to_string()),
                "max": l.max.map(|x| x.to_string()),
                "message": l.message,
            })),
            "range": v.range.as_ref().map(|r| json!({
                "min": r.min.map(|x| x.to_string()),
                "max": r.max.map(|x| x.to_string()),
                "message": r.message,
            })),
        }),
    }
}

pub fn analyze(case: &Value) -> Value {
    let vp = ValidatorParser::new();
    let ep = EventParser::new();
    let mut validators = Map::new();
    let mut events = Vec::new();
    let mut errors = Vec::new();
    let files = case["files"].as_object().unwrap();
    let mut names: Vec<&String> = files.keys().collect();
    names.sort();
    for rel in names {
        let src = files[rel].as_str().unwrap();
        let ast = match syn::parse_file(src) {
            Ok(a) => a,
            Err(e) => {
                errors.push(json!([rel, e.to_string()]));
                continue;
            }
        };
        for item in &ast.items {
            if let syn::Item::Struct(s) = item {
                if let syn::Fields::Named(named) = &s.fields {
                    for f in &named.named {
                        if let Some(id) = &f.ident {
                            let va = vp.parse_validator_attributes(&f.attrs);
                            validators.insert(format!("{}.{}", s.ident, id), va_json(&va));
                        }
                    }
                }
            }
        }
        let mut resolver = TypeResolver::new();
        match ep.extract_events_from_ast(&ast, Path::new(rel), &mut resolver) {
            Ok(evs) => {
                for e in evs {
                    events.push(json!([e.event_name, e.payload_type]));
                }
            }
            Err(e) => errors.push(json!([rel, e.to_string()])),
        }
    }
    json!({"id": case["id"], "validators": validators, "events": events, "errors": errors})
}

fn main() {
    tt_harness::dispatch(&[("analyze", analyze)]);
}
