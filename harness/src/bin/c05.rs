//! C05 / C18 driver: subcommand `emit`.
//!
//! case: {"id", "ty": "<Rust type text>", "mappings": {name: target, ...} | null}
//!
//! Observation (everything through public items of the crate):
//!  * `tts`: what the three `type_to_string` variants print for the type when it is written
//!    at a command parameter, the command's return position, inside `Channel<..>` and at a
//!    struct field (source text parsed by syn, then CommandParser / ChannelParser / StructParser);
//!  * `structure`: `TypeResolver::parse_type_structure` of the string at each site, canonical text;
//!  * `none` / `zod`: per site the type text that ends up in the generated module, obtained by
//!    building the template contexts with the real visitors (TypeCollector::create_*_contexts),
//!    the schema builder for Zod parameter and field schemas, and rendering the real partial
//!    templates (hence the `add_types_prefix` filter) through `create_tera()`;
//!  * `prefix`: the `add_types_prefix` filter applied to the plain rendering (one-off template).
use serde_json::{json, Map, Value};
use std::collections::HashMap;
use std::path::Path;
use tauri_typegen::analysis::channel_parser::ChannelParser;
use tauri_typegen::analysis::command_parser::CommandParser;
use tauri_typegen::analysis::struct_parser::StructParser;
use tauri_typegen::analysis::type_resolver::TypeResolver;
use tauri_typegen::analysis::CommandAnalyzer;
use tauri_typegen::generators::base::templates::TemplateRegistry;
use tauri_typegen::generators::base::type_visitor::TypeVisitor;
use tauri_typegen::generators::ts::templates::TypeScriptTemplate;
use tauri_typegen::generators::ts::type_visitor::TypeScriptVisitor;
use tauri_typegen::generators::zod::schema_builder::ZodSchemaBuilder;
use tauri_typegen::generators::zod::templates::ZodTemplate;
use tauri_typegen::generators::zod::type_visitor::ZodVisitor;
use tauri_typegen::generators::TypeCollector;
use tauri_typegen::models::{EventInfo, TypeStructure};
use tauri_typegen::GenerateConfig;

/// byte-wise quoting shared with the runner: printable ASCII verbatim, everything else \xHH
fn esc(s: &str) -> String {
    let mut out = String::from("\"");
    for b in s.bytes() {
        if (32..127).contains(&b) && b != b'"' && b != b'\\' {
            out.push(b as char);
        } else {
            out.push_str(&format!("\\x{:02x}", b));
        }
    }
    out.push('"');
    out
}

fn canon(ts: &TypeStructure) -> String {
    match ts {
        TypeStructure::Primitive(p) => format!("(prim {})", esc(p)),
        TypeStructure::Array(i) => format!("(arr {})", canon(i)),
        TypeStructure::Map { key, value } => format!("(map {} {})", canon(key), canon(value)),
        TypeStructure::Set(i) => format!("(set {})", canon(i)),
        TypeStructure::Tuple(l) => format!("(tuple{})", l.iter().map(|x| format!(" {}", canon(x))).collect::<String>()),
        TypeStructure::Optional(i) => format!("(opt {})", canon(i)),
        TypeStructure::Result(i) => format!("(res {})", canon(i)),
        TypeStructure::Custom(n) => format!("(custom {})", esc(n)),
    }
}

/// text between the first occurrence of `a` and the next occurrence of `b` after it
fn between<'a>(s: &'a str, a: &str, b: &str) -> Option<&'a str> {
    let i = s.find(a)? + a.len();
    let j = s[i..].find(b)? + i;
    Some(&s[i..j])
}

fn opt(v: Option<&str>) -> Value {
    match v {
        Some(s) => Value::String(s.to_string()),
        None => Value::Null,
    }
}

struct Parsed {
    commands: Vec<tauri_typegen::models::CommandInfo>,
    strukt: tauri_typegen::models::StructInfo,
}

fn analyse(ty: &str, resolver: &mut TypeResolver) -> Result<Parsed, String> {
    // lifetimes are needed in struct fields; every printer drops them
    let field_ty = ty.replace('&', "&'static ");
    let src = format!(
        "#[tauri::command]\nfn c(p: {ty}, ch: Channel<{ty}>) -> {ty} {{ todo!() }}\n\
         #[derive(Serialize, Deserialize)]\npub struct S {{ pub f: {field_ty} }}\n"
    );
    let ast: syn::File = syn::parse_str(&src).map_err(|e| format!("syn: {e}"))?;
    let path = Path::new("src/lib.rs");
    let mut commands = CommandParser::new()
        .extract_commands_from_ast(&ast, path, resolver)
        .map_err(|e| e.to_string())?;
    let mut strukt = None;
    for item in &ast.items {
        match item {
            syn::Item::Fn(f) => {
                let chans = ChannelParser::new()
                    .extract_channels_from_command(f, "c", path, resolver)
                    .map_err(|e| e.to_string())?;
                if let Some(c) = commands.first_mut() {
                    c.channels = chans;
                }
            }
            syn::Item::Struct(s) => {
                strukt = StructParser::new().parse_struct(s, path, resolver);
            }
            _ => {}
        }
    }
    Ok(Parsed { commands, strukt: strukt.ok_or("struct not parsed")? })
}

fn render(tera: &tera::Tera, name: &str, ctx: &tera::Context) -> String {
    match tera.render(name, ctx) {
        Ok(s) => s,
        Err(e) => format!("<<template error {name}: {e:?}>>"),
    }
}

fn sites(
    mode: &str,
    p: &Parsed,
    ty: &str,
    config: &GenerateConfig,
    analyzer: &CommandAnalyzer,
) -> Value {
    let coll = TypeCollector::new();
    let ev = EventInfo {
        event_name: "e".to_string(),
        payload_type: ty.to_string(),
        payload_type_structure: analyzer.get_type_resolver().borrow().parse_type_structure(ty),
        file_path: "src/lib.rs".to_string(),
        line_number: 1,
    };
    let mut out = Map::new();
    if mode == "none" {
        let tera = TypeScriptTemplate::create_tera().expect("tera");
        let v = TypeScriptVisitor::with_config(config);
        let cmds = coll.create_command_contexts(&p.commands, &v, analyzer, config);
        let fields = coll.create_field_contexts(&p.strukt, &v, config);
        let events = coll.create_event_contexts(&[ev], &v, analyzer, config);
        let mut ctx = tera::Context::new();
        ctx.insert("command", &cmds[0]);
        let pi = render(&tera, "typescript/partials/param_interface.ts.tera", &ctx);
        out.insert("param".into(), opt(between(&pi, "\n  p: ", ";\n").or(between(&pi, "\n  p?: ", ";\n"))));
        out.insert("channel".into(), opt(between(&pi, "\n  ch: Channel<", ">;\n")));
        let cf = render(&tera, "typescript/partials/command_function.ts.tera", &ctx);
        out.insert("return".into(), opt(between(&cf, "Promise<", "> {\n")));
        let mut ctx = tera::Context::new();
        ctx.insert("name", "S");
        ctx.insert("fields", &fields);
        let it = render(&tera, "typescript/partials/interface.tera", &ctx);
        out.insert("field".into(), opt(between(&it, "\n  f: ", ";\n").or(between(&it, "\n  f?: ", ";\n"))));
        let mut ctx = tera::Context::new();
        ctx.insert("event", &events[0]);
        let el = render(&tera, "typescript/partials/event_listener.ts.tera", &ctx);
        let a = between(&el, "(payload: ", ") => void\n");
        let b = between(&el, "listen<", ">('e'");
        out.insert("event".into(), if a == b { opt(a) } else { json!({"handler": a, "listen": b}) });
        // the filter alone, on the plain rendering of the return type
        let mut ctx = tera::Context::new();
        ctx.insert("t", &cmds[0].return_type_ts);
        let mut t2 = tera.clone();
        let pf = t2.render_str("{{ t | add_types_prefix | safe }}", &ctx).unwrap_or_else(|e| format!("<<{e:?}>>"));
        out.insert("plain".into(), Value::String(cmds[0].return_type_ts.clone()));
        out.insert("prefix".into(), Value::String(pf));
        // both visitors must agree on interface types
        let zv = ZodVisitor::with_config(config);
        out.insert(
            "zod_interface".into(),
            Value::String(zv.visit_type_for_interface(&p.commands[0].return_type_structure)),
        );
    } else {
        let tera = ZodTemplate::create_tera().expect("tera");
        let v = ZodVisitor::with_config(config);
        let sb = ZodSchemaBuilder::new(config);
        let mut cmds = coll.create_command_contexts(&p.commands, &v, analyzer, config);
        // as ZodBindingsGenerator::generate_types_file_content does
        for c in &mut cmds {
            for prm in &mut c.parameters {
                prm.typescript_type = sb.build_param_schema(&prm.type_structure);
            }
        }
        let mut fields = coll.create_field_contexts(&p.strukt, &v, config);
        // as ZodBindingsGenerator::generate_object_schema does
        for f in &mut fields {
            f.typescript_type = sb.build_schema(&f.type_structure, &f.validator_attributes);
        }
        let events = coll.create_event_contexts(&[ev], &v, analyzer, config);
        let mut ctx = tera::Context::new();
        ctx.insert("commands", &cmds);
        let ps = render(&tera, "zod/partials/param_schemas.ts.tera", &ctx);
        out.insert("param".into(), opt(between(&ps, "\n  p: ", ",\n});")));
        let ta = render(&tera, "zod/partials/type_aliases.ts.tera", &ctx);
        out.insert("channel".into(), opt(between(&ta, "\n  ch: Channel<", ">;\n")));
        let mut ctx = tera::Context::new();
        ctx.insert("command", &cmds[0]);
        let cf = render(&tera, "zod/partials/command_function.ts.tera", &ctx);
        let a = between(&cf, "): Promise<", "> {\n");
        let b = between(&cf, "hooks?: CommandHooks<", ">): Promise<");
        let c = between(&cf, "await invoke<", ">('c'");
        out.insert(
            "return".into(),
            if a == b && b == c { opt(a) } else { json!({"promise": a, "hooks": b, "invoke": c}) },
        );
        let mut ctx = tera::Context::new();
        ctx.insert("name", "S");
        ctx.insert("fields", &fields);
        let it = render(&tera, "zod/partials/schema.ts.tera", &ctx);
        out.insert("field".into(), opt(between(&it, "\n  f: ", ",\n});")));
        let mut ctx = tera::Context::new();
        ctx.insert("event", &events[0]);
        let el = render(&tera, "zod/partials/event_listener.ts.tera", &ctx);
        let a = between(&el, "(payload: ", ") => void\n");
        let b = between(&el, "listen<", ">('e'");
        out.insert("event".into(), if a == b { opt(a) } else { json!({"handler": a, "listen": b}) });
        // the Zod visitor on its own (reachable in the output only through visit_custom)
        out.insert("visitor".into(), Value::String(v.visit_type(&p.commands[0].return_type_structure)));
    }
    Value::Object(out)
}

pub fn emit(case: &Value) -> Value {
    // "ty": Rust SOURCE text of the type (a 1-tuple is `(T,)`); "printed": what type_to_string prints for it
    // (`(T)`), used where the tool starts from a printed string (EventInfo.payload_type, direct parse)
    let ty = case["ty"].as_str().unwrap();
    let printed = case.get("printed").and_then(|p| p.as_str()).unwrap_or(ty);
    let mappings: Option<HashMap<String, String>> = case.get("mappings").and_then(|m| m.as_object()).map(|m| {
        m.iter().map(|(k, v)| (k.clone(), v.as_str().unwrap().to_string())).collect()
    });
    let mut analyzer = CommandAnalyzer::new();
    if let Some(m) = &mappings {
        analyzer.add_type_mappings(m);
    }
    let mut resolver = TypeResolver::new();
    if let Some(m) = &mappings {
        resolver.apply_type_mappings(m);
    }
    let p = match analyse(ty, &mut resolver) {
        Ok(p) => p,
        Err(e) => return json!({"id": case["id"], "error": e}),
    };
    if p.commands.is_empty() || p.commands[0].parameters.is_empty() || p.commands[0].channels.is_empty() || p.strukt.fields.is_empty() {
        return json!({"id": case["id"], "error": "a site was not recognised",
                      "params": p.commands.first().map(|c| c.parameters.len()),
                      "channels": p.commands.first().map(|c| c.channels.len())});
    }
    let c = &p.commands[0];
    let tts = json!({
        "param": c.parameters[0].rust_type, "return": c.return_type,
        "channel": c.channels[0].message_type, "field": p.strukt.fields[0].rust_type,
    });
    let structure = json!({
        "param": canon(&c.parameters[0].type_structure), "return": canon(&c.return_type_structure),
        "channel": canon(&c.channels[0].message_type_structure), "field": canon(&p.strukt.fields[0].type_structure),
        "direct": canon(&resolver.parse_type_structure(printed)),
    });
    let mut cfg_none = GenerateConfig::default();
    cfg_none.type_mappings = mappings.clone();
    let mut cfg_zod = cfg_none.clone();
    cfg_zod.validation_library = "zod".to_string();
    json!({
        "id": case["id"], "tts": tts, "structure": structure,
        "is_optional": {"param": c.parameters[0].is_optional, "field": p.strukt.fields[0].is_optional},
        "none": sites("none", &p, printed, &cfg_none, &analyzer),
        "zod": sites("zod", &p, printed, &cfg_zod, &analyzer),
    })
}

/// malformed stream: {"id", "ty": any ASCII string, "mappings"} -> the unit-level functions only
pub fn raw(case: &Value) -> Value {
    let ty = case["ty"].as_str().unwrap();
    let mappings: Option<HashMap<String, String>> = case.get("mappings").and_then(|m| m.as_object()).map(|m| {
        m.iter().map(|(k, v)| (k.clone(), v.as_str().unwrap().to_string())).collect()
    });
    let mut cfg = GenerateConfig::default();
    cfg.type_mappings = mappings;
    let ts = TypeResolver::new().parse_type_structure(ty);
    let plain = TypeScriptVisitor::with_config(&cfg).visit_type(&ts);
    let zi = ZodVisitor::with_config(&cfg).visit_type_for_interface(&ts);
    let mut tera = TypeScriptTemplate::create_tera().expect("tera");
    let mut ctx = tera::Context::new();
    ctx.insert("t", &plain);
    let pf = tera.render_str("{{ t | add_types_prefix | safe }}", &ctx).unwrap_or_else(|e| format!("<<{e:?}>>"));
    json!({
        "id": case["id"], "structure": canon(&ts), "plain": plain, "zod_interface": zi, "prefix": pf,
        "visitor": ZodVisitor::with_config(&cfg).visit_type(&ts),
        "builder": ZodSchemaBuilder::new(&cfg).build_schema(&ts, &None),
        "param_builder": ZodSchemaBuilder::new(&cfg).build_param_schema(&ts),
    })
}

pub fn main() {
    tt_harness::dispatch(&[("emit", emit), ("raw", raw)]);
}
