//! C20 driver: subcommands `topo`, `kahn`.
use serde_json::{json, Value};
use std::collections::HashSet;
use tauri_typegen::analysis::dependency_graph::TypeDependencyGraph;
use tauri_typegen::models::StructInfo;
use tauri_typegen::build::dependency_resolver::{
    Dependency, DependencyNode, DependencyNodeType, DependencyResolver, DependencyType,
};

/// labels: plain `T<i>` for i < 100; module-qualified spellings of the same last segment for
/// 100..199 (`a::T<i-100>`) and 200..299 (`b::T<i-200>`) - the struct parser records such labels
/// for fields typed `models::User`; a label is an opaque key (no normalisation). With two-digit
/// suffixes the sorted order of the labels is the numeric order of the indices.
fn name(i: u64) -> String {
    match i {
        100..=199 => format!("a::T{}", i - 100),
        200..=299 => format!("b::T{}", i - 200),
        _ => format!("T{i}"),
    }
}
fn idx(s: &str) -> u64 {
    if let Some(r) = s.strip_prefix("a::T") {
        100 + r.parse::<u64>().unwrap()
    } else if let Some(r) = s.strip_prefix("b::T") {
        200 + r.parse::<u64>().unwrap()
    } else {
        s[1..].parse().unwrap()
    }
}

/// case: {"id", "adj": [[node, [dep, ...]], ...], "req": [node, ...], "reps": k}
/// Each repetition builds fresh hash sets (fresh RandomState keys), records the
/// iteration order of every dependency set and of the requested set, and runs
/// topological_sort_types.
pub fn topo(case: &Value) -> Value {
    let reps = case["reps"].as_u64().unwrap_or(1);
    let mut runs = Vec::new();
    for _ in 0..reps {
        let mut g = TypeDependencyGraph::new();
        for e in case["adj"].as_array().unwrap() {
            let n = e[0].as_u64().unwrap();
            let set: HashSet<String> = e[1].as_array().unwrap().iter().map(|d| name(d.as_u64().unwrap())).collect();
            g.add_dependencies(name(n), set);
        }
        let req: HashSet<String> = case["req"].as_array().unwrap().iter().map(|d| name(d.as_u64().unwrap())).collect();
        let mut adj_order = Vec::new();
        for e in case["adj"].as_array().unwrap() {
            let n = e[0].as_u64().unwrap();
            let order: Vec<u64> = g.dependencies.get(&name(n)).unwrap().iter().map(|s| idx(s)).collect();
            adj_order.push(json!([n, order]));
        }
        let req_order: Vec<u64> = req.iter().map(|s| idx(s)).collect();
        // the same collections in sorted name order (the order a tree that sorts before
        // iterating uses); the model is tried under both, see tools/props/c20.py
        let mut adj_sorted = Vec::new();
        for e in case["adj"].as_array().unwrap() {
            let n = e[0].as_u64().unwrap();
            let mut names: Vec<&String> = g.dependencies.get(&name(n)).unwrap().iter().collect();
            names.sort();
            adj_sorted.push(json!([n, names.iter().map(|s| idx(s)).collect::<Vec<u64>>()]));
        }
        let mut req_names: Vec<&String> = req.iter().collect();
        req_names.sort();
        let req_sorted: Vec<u64> = req_names.iter().map(|s| idx(s)).collect();
        let out: Vec<u64> = g.topological_sort_types(&req).iter().map(|s| idx(s)).collect();
        runs.push(json!({"adj": adj_order, "req": req_order, "adj_sorted": adj_sorted, "req_sorted": req_sorted, "out": out}));
    }
    json!({"id": case["id"], "runs": runs})
}

fn node(i: u64) -> DependencyNode {
    DependencyNode { name: name(i), path: format!("src/{i}.rs"), node_type: DependencyNodeType::Struct }
}

/// case: {"id", "nodes": [n, ...], "deps": [[from, to], ...] (duplicates allowed), "reps": k}
pub fn kahn(case: &Value) -> Value {
    let reps = case["reps"].as_u64().unwrap_or(1);
    let mut runs = Vec::new();
    for _ in 0..reps {
        let mut r = DependencyResolver::new();
        for n in case["nodes"].as_array().unwrap() {
            r.add_node(node(n.as_u64().unwrap()));
        }
        for d in case["deps"].as_array().unwrap() {
            r.add_dependency(Dependency {
                from: node(d[0].as_u64().unwrap()),
                to: node(d[1].as_u64().unwrap()),
                dependency_type: DependencyType::Field,
            });
        }
        match r.resolve_build_order() {
            Ok(l) => runs.push(json!({"ok": true, "out": l.iter().map(|n| idx(&n.name)).collect::<Vec<_>>() })),
            Err(e) => runs.push(json!({"ok": false, "err": e.to_string()})),
        }
    }
    json!({"id": case["id"], "runs": runs})
}

const KINDS: [DependencyNodeType; 5] = [
    DependencyNodeType::Command,
    DependencyNodeType::Struct,
    DependencyNodeType::Enum,
    DependencyNodeType::Type,
    DependencyNodeType::Module,
];

/// path spellings: the path is part of a node's identity as written (no normalisation): the same
/// file spelled with backslashes, a `./` prefix, a doubled slash or another case is another node
const PATHS: [&str; 10] = [
    "src/p0.rs",
    "src/p1.rs",
    "src/p2.rs",
    "src\\p0.rs",
    "./src/p0.rs",
    "src//p0.rs",
    "src/P0.rs",
    "",
    "src/models/user.rs",
    "src\\models\\user.rs",
];

/// node `i` of a history case: identity (name, path, kind) from the case's table
/// `idents[i] = [name index, path index, kind index]`; distinct nodes may share a name
fn ident(case: &Value, i: u64) -> DependencyNode {
    match case["idents"].get(i as usize) {
        Some(t) => DependencyNode {
            name: format!("N{}", t[0].as_u64().unwrap()),
            path: PATHS[t[1].as_u64().unwrap() as usize % PATHS.len()].to_string(),
            node_type: KINDS[t[2].as_u64().unwrap() as usize % 5].clone(),
        },
        None => node(i),
    }
}

/// case: {"id", "idents": [[name, path, kind], ...], "ops": [["n", i] | ["d", from, to] | ["r"], ...]}
/// one resolver object lives through the whole history; every resolve_build_order answer is
/// reported with nodes mapped back to their indices (by full identity)
pub fn hist(case: &Value) -> Value {
    let n = case["idents"].as_array().map(|a| a.len()).unwrap_or(0) as u64;
    let back = |d: &DependencyNode| -> i64 {
        (0..n).find(|&i| &ident(case, i) == d).map(|i| i as i64).unwrap_or(-1)
    };
    let mut r = DependencyResolver::new();
    let mut outs = Vec::new();
    for op in case["ops"].as_array().unwrap() {
        match op[0].as_str().unwrap() {
            "n" => r.add_node(ident(case, op[1].as_u64().unwrap())),
            "d" => r.add_dependency(Dependency {
                from: ident(case, op[1].as_u64().unwrap()),
                to: ident(case, op[2].as_u64().unwrap()),
                // optional 4th element: the kind of the dependency record (a label; every kind constrains the order)
                dependency_type: match op.get(3).and_then(|v| v.as_u64()).unwrap_or(0) % 5 {
                    0 => DependencyType::Direct,
                    1 => DependencyType::Field,
                    2 => DependencyType::Variant,
                    3 => DependencyType::Import,
                    _ => DependencyType::Generic,
                },
            }),
            _ => match r.resolve_build_order() {
                Ok(l) => outs.push(json!({"ok": true, "out": l.iter().map(back).collect::<Vec<_>>() })),
                Err(e) => outs.push(json!({"ok": false, "err": e.to_string()})),
            },
        }
    }
    json!({"id": case["id"], "outs": outs})
}

/// case: {"id", "ops": [["d", a, b] | ["ds", a, [..]] | ["s", [..]], ...]} on one TypeDependencyGraph
pub fn ghist(case: &Value) -> Value {
    let mut g = TypeDependencyGraph::new();
    let mut outs = Vec::new();
    for op in case["ops"].as_array().unwrap() {
        match op[0].as_str().unwrap() {
            "d" => g.add_dependency(name(op[1].as_u64().unwrap()), name(op[2].as_u64().unwrap())),
            "rt" => g.add_resolved_type(
                name(op[1].as_u64().unwrap()),
                StructInfo {
                    name: name(op[1].as_u64().unwrap()),
                    fields: Vec::new(),
                    file_path: "src/lib.rs".to_string(),
                    is_enum: op[2].as_bool().unwrap_or(false),
                    serde_rename_all: None,
                },
            ),
            "td" => g.add_type_definition(name(op[1].as_u64().unwrap()), std::path::PathBuf::from("src/lib.rs")),
            "ds" => g.add_dependencies(
                name(op[1].as_u64().unwrap()),
                op[2].as_array().unwrap().iter().map(|d| name(d.as_u64().unwrap())).collect(),
            ),
            _ => {
                let req: HashSet<String> = op[1].as_array().unwrap().iter().map(|d| name(d.as_u64().unwrap())).collect();
                outs.push(g.topological_sort_types(&req).iter().map(|s| idx(s)).collect::<Vec<u64>>());
            }
        }
    }
    json!({"id": case["id"], "outs": outs})
}

fn main() {
    // the routines under test recurse to the depth of the graph: run them on a thread with a
    // generous, environment-independent stack (long chains are legitimate inputs); an unbounded
    // recursion still overflows it within milliseconds, the process aborts and the python side
    // attributes the death to the case in flight (outcome PANIC, the graph is the replay)
    let t = std::thread::Builder::new()
        .stack_size(64 << 20)
        .spawn(|| tt_harness::dispatch(&[("topo", topo), ("kahn", kahn), ("hist", hist), ("ghist", ghist)]))
        .expect("spawn driver thread");
    if t.join().is_err() {
        std::process::exit(3);
    }
}
