//! C02 driver: subcommand `atp` - the real add_types_prefix filter (reached through the public
//! TemplateRegistry::create_tera) applied to the TypeScript text the real visitor renders for a
//! Rust type string. The project-level observation of C02 comes from the real CLI binary.
use serde_json::{json, Value};
use tauri_typegen::analysis::type_resolver::TypeResolver;
use tauri_typegen::generators::base::templates::TemplateRegistry;
use tauri_typegen::generators::base::type_visitor::TypeVisitor;
use tauri_typegen::generators::ts::templates::TypeScriptTemplate;
use tauri_typegen::generators::ts::type_visitor::TypeScriptVisitor;

/// case: {"id", "rust": "Vec<Option<User>>"} -> {"id", "ts": "...", "atp": "..."}
pub fn atp(case: &Value) -> Value {
    let rust = case["rust"].as_str().unwrap();
    let resolver = TypeResolver::new();
    let structure = resolver.parse_type_structure(rust);
    let visitor = TypeScriptVisitor::new();
    let ts = visitor.visit_type(&structure);
    let mut tera = TypeScriptTemplate::create_tera().expect("tera");
    tera.add_raw_template("c02/atp", "{{ t | add_types_prefix }}").expect("template");
    tera.autoescape_on(vec![]);
    let mut ctx = tera::Context::new();
    ctx.insert("t", &ts);
    let out = tera.render("c02/atp", &ctx).expect("render");
    json!({"id": case["id"], "ts": ts, "atp": out})
}

/// case: {"id", "dir": <sandbox directory>, "mode": "none"|"zod", "rounds": [{"files": {rel: text}}, ...]}
/// ONE CommandAnalyzer and ONE generator are reused over all rounds (the library API as long-lived
/// objects). Before each round the project directory <dir>/proj is made to hold exactly the
/// round's files; the round is analysed with analyze_project and generated into the fresh
/// directory <dir>/out<k>. Returns the four generated files of every round.
pub fn reuse(case: &Value) -> Value {
    use std::fs;
    use std::path::{Path, PathBuf};
    use tauri_typegen::analysis::CommandAnalyzer;
    use tauri_typegen::generators::create_generator;
    use tauri_typegen::GenerateConfig;

    fn rs_files(dir: &Path, out: &mut Vec<PathBuf>) {
        if let Ok(rd) = fs::read_dir(dir) {
            for e in rd.flatten() {
                let p = e.path();
                if p.is_dir() {
                    rs_files(&p, out);
                } else {
                    out.push(p);
                }
            }
        }
    }

    let dir = PathBuf::from(case["dir"].as_str().unwrap());
    let mode = case["mode"].as_str().unwrap_or("none").to_string();
    let proj = dir.join("proj");
    let mut analyzer = CommandAnalyzer::new();
    let mut generator = create_generator(Some(mode.clone()));
    let mut rounds = Vec::new();
    for (k, round) in case["rounds"].as_array().unwrap().iter().enumerate() {
        let files = round["files"].as_object().unwrap();
        fs::create_dir_all(&proj).unwrap();
        let mut existing = Vec::new();
        rs_files(&proj, &mut existing);
        for p in existing {
            let rel = p.strip_prefix(&proj).unwrap().to_string_lossy().to_string();
            if !files.contains_key(&rel) {
                let _ = fs::remove_file(&p);
            }
        }
        for (rel, text) in files {
            let p = proj.join(rel);
            fs::create_dir_all(p.parent().unwrap()).unwrap();
            fs::write(&p, text.as_str().unwrap()).unwrap();
        }
        let out = dir.join(format!("out{}", k));
        let mappings: std::collections::HashMap<String, String> = round["mappings"]
            .as_object()
            .map(|m| m.iter().map(|(k, v)| (k.clone(), v.as_str().unwrap_or("").to_string())).collect())
            .unwrap_or_default();
        let config = GenerateConfig {
            project_path: proj.to_string_lossy().to_string(),
            output_path: out.to_string_lossy().to_string(),
            validation_library: mode.clone(),
            type_mappings: if mappings.is_empty() { None } else { Some(mappings.clone()) },
            ..Default::default()
        };
        if !mappings.is_empty() {
            analyzer.add_type_mappings(&mappings);
        }
        let commands = match analyzer.analyze_project(&config.project_path) {
            Ok(c) => c,
            Err(e) => {
                rounds.push(json!({"status": format!("analyze: {}", e), "files": {}}));
                continue;
            }
        };
        let structs = analyzer.get_discovered_structs().clone();
        let status = match generator.generate_models(&commands, &structs, &config.output_path, &analyzer, &config) {
            Ok(_) => "ok".to_string(),
            Err(e) => format!("generate: {}", e),
        };
        let mut got = serde_json::Map::new();
        for n in ["types.ts", "commands.ts", "events.ts", "index.ts"] {
            if let Ok(t) = fs::read_to_string(out.join(n)) {
                got.insert(n.to_string(), Value::String(t));
            }
        }
        rounds.push(json!({"status": status, "commands": commands.iter().map(|c| c.name.clone()).collect::<Vec<_>>(), "files": got}));
    }
    json!({"id": case["id"], "rounds": rounds})
}

fn main() {
    tt_harness::dispatch(&[("atp", atp), ("reuse", reuse)]);
}
