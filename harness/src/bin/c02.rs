//! C02 driver: subcommand `atp` - the real add_types_prefix filter (reached through the public
//! TemplateRegistry::create_tera) applied to the TypeScript text the real visitor renders for a
//! Rust type string. The project-level observation of C02 comes from the real CLI binary.
use serde_json::{json, Value};
use tauri_typegen::analysis::type_resolver::TypeResolver;
use tauri_typegen::generators::base::templates::TemplateRegistry;
use tauri_typegen::generators::base::type_visitor::TypeVisitor;
use tauri_typegen::generators::ts::templates::TypeScriptTemplate;
use tauri_typegen::generators::ts::type_visitor::TypeScriptVisitor;

/// case: {"id", "rust": "Vec<Option<User>>"} -> {"id", "ts": "...", "atp": "..."}
pub fn atp(case: &Value) -> Value {
    let rust = case["rust"].as_str().unwrap();
    let resolver = TypeResolver::new();
    let structure = resolver.parse_type_structure(rust);
    let visitor = TypeScriptVisitor::new();
    let ts = visitor.visit_type(&structure);
    let mut tera = TypeScriptTemplate::create_tera().expect("tera");
    tera.add_raw_template("c02/atp", "{{ t | add_types_prefix }}").expect("template");
    tera.autoescape_on(vec![]);
    let mut ctx = tera::Context::new();
    ctx.insert("t", &ts);
    let out = tera.render("c02/atp", &ctx).expect("render");
    json!({"id": case["id"], "ts": ts, "atp": out})
}

fn main() {
    tt_harness::dispatch(&[("atp", atp)]);
}
