//! C18 driver: the same observation program as C05 (subcommands `emit`, `raw`), built as its own
//! binary; cases carry a `mappings` table that is put into GenerateConfig.type_mappings.
#[path = "c05.rs"]
mod driver;

fn main() {
    driver::main()
}
