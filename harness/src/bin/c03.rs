//! C03 driver: subcommand `discover` runs the library-level analysis
//! (CommandAnalyzer::analyze_project) on a directory the python side has written.
use serde_json::{json, Value};
use tauri_typegen::analysis::CommandAnalyzer;

/// case: {"id", "cwd": absolute directory, "root": the project path exactly as it is to be
/// spelled (absolute, or relative to cwd)}
/// observation: {"ok": true, "commands": [[name, file_path, return_type, is_async], ...]}
///           or {"ok": false, "err": message}
pub fn discover(case: &Value) -> Value {
    let cwd = case["cwd"].as_str().unwrap();
    std::env::set_current_dir(cwd).expect("chdir");
    let root = case["root"].as_str().unwrap();
    let mut analyzer = CommandAnalyzer::new();
    match analyzer.analyze_project(root) {
        Ok(cmds) => {
            let l: Vec<Value> = cmds
                .iter()
                .map(|c| json!([c.name, c.file_path, c.return_type, c.is_async]))
                .collect();
            json!({"id": case["id"], "ok": true, "commands": l})
        }
        Err(e) => json!({"id": case["id"], "ok": false, "err": e.to_string()}),
    }
}

/// Subcommand `build`: one run of the build-script entry point, as a build.rs would do it.
/// case: {"id", "cwd": directory inside a Tauri project (tauri.conf.json with plugins.typegen)}
/// The tool prints cargo: directives on stdout; the python side takes the last JSON line.
pub fn build(case: &Value) -> Value {
    let cwd = case["cwd"].as_str().unwrap();
    std::env::set_current_dir(cwd).expect("chdir");
    let r = tauri_typegen::BuildSystem::generate_at_build_time().map_err(|e| e.to_string());
    println!();
    match r {
        Ok(()) => json!({"id": case["id"], "ok": true}),
        Err(e) => json!({"id": case["id"], "ok": false, "err": e}),
    }
}

fn main() {
    tt_harness::dispatch(&[("discover", discover), ("build", build)]);
}
