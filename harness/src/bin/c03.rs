//! C03 driver: subcommand `discover` runs the library-level analysis
//! (CommandAnalyzer::analyze_project) on a directory the python side has written.
use serde_json::{json, Value};
use tauri_typegen::analysis::CommandAnalyzer;

/// case: {"id", "cwd": absolute directory, "root": the project path exactly as it is to be
/// spelled (absolute, or relative to cwd)}
/// observation: {"ok": true, "commands": [[name, file_path, return_type, is_async], ...]}
///           or {"ok": false, "err": message}
pub fn discover(case: &Value) -> Value {
    let cwd = case["cwd"].as_str().unwrap();
    std::env::set_current_dir(cwd).expect("chdir");
    let root = case["root"].as_str().unwrap();
    let mut analyzer = CommandAnalyzer::new();
    match analyzer.analyze_project(root) {
        Ok(cmds) => {
            let l: Vec<Value> = cmds
                .iter()
                .map(|c| json!([c.name, c.file_path, c.return_type, c.is_async]))
                .collect();
            json!({"id": case["id"], "ok": true, "commands": l})
        }
        Err(e) => json!({"id": case["id"], "ok": false, "err": e.to_string()}),
    }
}

fn main() {
    tt_harness::dispatch(&[("discover", discover)]);
}
