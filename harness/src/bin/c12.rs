//! C12 driver: subcommand `events`.
//! case: {"id", "files": [{"name", "src"}]}
//! For every file: syn::parse_file, then EventParser::extract_events_from_ast (public API),
//! and for every event the listener name / payload text EventContext computes in both modes.
use serde_json::{json, Value};
use std::path::Path;
use tauri_typegen::analysis::event_parser::EventParser;
use tauri_typegen::analysis::type_resolver::TypeResolver;
use tauri_typegen::generators::base::template_context::EventContext;
use tauri_typegen::generators::ts::type_visitor::TypeScriptVisitor;
use tauri_typegen::generators::zod::type_visitor::ZodVisitor;
use tauri_typegen::GenerateConfig;

pub fn events(case: &Value) -> Value {
    let mut out = Vec::new();
    // case["mappings"]: {rust name: ts target} = config.type_mappings
    let mut config = GenerateConfig::default();
    if let Some(m) = case.get("mappings").and_then(|m| m.as_object()) {
        if !m.is_empty() {
            config.type_mappings = Some(m.iter().map(|(k, v)| (k.clone(), v.as_str().unwrap_or("").to_string())).collect());
        }
    }
    let visitor = TypeScriptVisitor::with_config(&config);
    let zvisitor = ZodVisitor::with_config(&config);
    for f in case["files"].as_array().unwrap() {
        let name = f["name"].as_str().unwrap();
        let src = f["src"].as_str().unwrap();
        let ast = match syn::parse_file(src) {
            Ok(a) => a,
            Err(e) => {
                out.push(json!({"name": name, "syntax_error": e.to_string()}));
                continue;
            }
        };
        let mut resolver = TypeResolver::new();
        let parser = EventParser::new();
        match parser.extract_events_from_ast(&ast, Path::new(name), &mut resolver) {
            Ok(evs) => {
                let list: Vec<Value> = evs
                    .iter()
                    .map(|e| {
                        let mut r2 = TypeResolver::new();
                        let ctx = EventContext::new(&config).from_event_info(e, &visitor, &|t: &str| r2.parse_type_structure(t));
                        let mut r3 = TypeResolver::new();
                        let zctx = EventContext::new(&config).from_event_info(e, &zvisitor, &|t: &str| r3.parse_type_structure(t));
                        json!({"name": e.event_name, "payload": e.payload_type, "line": e.line_number,
                               "fn": ctx.ts_function_name, "ts": ctx.typescript_payload_type,
                               "ts_zod": zctx.typescript_payload_type})
                    })
                    .collect();
                out.push(json!({"name": name, "events": list}));
            }
            Err(e) => out.push(json!({"name": name, "error": e.to_string()})),
        }
    }
    json!({"id": case["id"], "files": out})
}

/// Subcommand `build`: case {"id", "dir"}: chdir into the sandbox and call the build-script entry point
/// BuildSystem::generate_at_build_time(), exactly as a src-tauri/build.rs would (configuration from typegen.json).
pub fn build(case: &Value) -> Value {
    let dir = case["dir"].as_str().expect("dir");
    std::env::set_current_dir(dir).expect("chdir");
    let r = tauri_typegen::BuildSystem::generate_at_build_time();
    println!();
    match r {
        Ok(()) => json!({"id": case["id"], "ok": true}),
        Err(e) => json!({"id": case["id"], "ok": false, "err": e.to_string()}),
    }
}

fn main() {
    tt_harness::dispatch(&[("events", events), ("build", build)]);
}
