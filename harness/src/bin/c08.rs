//! C08 driver (also used by C14 and C17 for the build-script entry point).
//! Subcommand `gen`: case {"id", "dir"}: chdir into the sandbox `dir` and call the public build-script
//! entry point BuildSystem::generate_at_build_time(), exactly as a src-tauri/build.rs would.
//! The tool prints `cargo:rerun-if-changed=` lines on stdout; the python side picks the JSON line.
use serde_json::{json, Value};
use tauri_typegen::build::BuildSystem;

pub fn gen(case: &Value) -> Value {
    let dir = case["dir"].as_str().expect("dir");
    std::env::set_current_dir(dir).expect("chdir");
    let r = BuildSystem::generate_at_build_time();
    println!();
    match r {
        Ok(()) => json!({"id": case["id"], "ok": true}),
        Err(e) => json!({"id": case["id"], "ok": false, "err": e.to_string()}),
    }
}

/// Subcommand `genconf`: case {"id", "dir"}: chdir into the sandbox, load `typegen.json` and call the public library
/// entry point generate_from_config (no cache involved: every call generates).
pub fn genconf(case: &Value) -> Value {
    let dir = case["dir"].as_str().expect("dir");
    std::env::set_current_dir(dir).expect("chdir");
    let r = tauri_typegen::GenerateConfig::from_file("typegen.json")
        .map_err(|e| e.to_string())
        .and_then(|c| tauri_typegen::generate_from_config(&c).map_err(|e| e.to_string()));
    println!();
    match r {
        Ok(files) => json!({"id": case["id"], "ok": true, "files": files}),
        Err(e) => json!({"id": case["id"], "ok": false, "err": e}),
    }
}

fn main() {
    tt_harness::dispatch(&[("gen", gen), ("genconf", genconf)]);
}
