//! C08 driver (also used by C14 and C17 for the build-script entry point).
//! Subcommand `gen`: case {"id", "dir"}: chdir into the sandbox `dir` and call the public build-script
//! entry point BuildSystem::generate_at_build_time(), exactly as a src-tauri/build.rs would.
//! The tool prints `cargo:rerun-if-changed=` lines on stdout; the python side picks the JSON line.
use serde_json::{json, Value};
use tauri_typegen::build::BuildSystem;

pub fn gen(case: &Value) -> Value {
    let dir = case["dir"].as_str().expect("dir");
    std::env::set_current_dir(dir).expect("chdir");
    let r = BuildSystem::generate_at_build_time();
    println!();
    match r {
        Ok(()) => json!({"id": case["id"], "ok": true}),
        Err(e) => json!({"id": case["id"], "ok": false, "err": e.to_string()}),
    }
}

fn main() {
    tt_harness::dispatch(&[("gen", gen)]);
}
