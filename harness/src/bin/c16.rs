//! C16 driver: the build-script entry point of tauri-typegen run inside a sandbox.
//!
//! `c16 build1`            (no stdin) calls BuildSystem::generate_at_build_time() in the
//!                         current working directory; exit status 0 = Ok, 3 = Err, 101 = panic;
//!                         the error text goes to stderr. The library prints cargo directives
//!                         (`cargo:rerun-if-changed=...`) on stdout, which is why the JSON-lines
//!                         subcommand below runs this in a child process.
//! `c16 api1 p o lib`      (no stdin) calls generate_from_config (library entry) in the cwd.
//! `c16 build`             JSON lines: {"id", "cwd": absolute directory}; for each case a child
//!                         `c16 build1` is started with that working directory (fresh process =
//!                         fresh hash keys, private cwd) and {"id","status","stdout","stderr"}
//!                         is reported.
use serde_json::{json, Value};
use std::process::{Command, Stdio};

fn build1() -> ! {
    match tauri_typegen::BuildSystem::generate_at_build_time() {
        Ok(()) => std::process::exit(0),
        Err(e) => {
            eprintln!("ERR: {e}");
            std::process::exit(3)
        }
    }
}

pub fn build(case: &Value) -> Value {
    let cwd = case["cwd"].as_str().expect("cwd");
    let exe = std::env::current_exe().expect("current_exe");
    let out = Command::new(exe)
        .arg("build1")
        .current_dir(cwd)
        .stdin(Stdio::null())
        .output()
        .expect("spawn child");
    json!({
        "id": case["id"],
        "status": out.status.code().unwrap_or(-1),
        "stdout": String::from_utf8_lossy(&out.stdout),
        "stderr": String::from_utf8_lossy(&out.stderr),
    })
}

/// `c16 api1 <project_path> <output_path> <validation_library>`: the library entry
/// tauri_typegen::generate_from_config in the current working directory; exit status 0 = Ok
/// (the number of written files on stderr as `FILES n`), 3 = Err.
fn api1(args: &[String]) -> ! {
    let config = tauri_typegen::GenerateConfig {
        project_path: args[2].clone(),
        output_path: args[3].clone(),
        validation_library: args[4].clone(),
        ..Default::default()
    };
    match tauri_typegen::generate_from_config(&config) {
        Ok(files) => {
            eprintln!("FILES {}", files.len());
            std::process::exit(0)
        }
        Err(e) => {
            eprintln!("ERR: {e}");
            std::process::exit(3)
        }
    }
}

fn main() {
    let args: Vec<String> = std::env::args().collect();
    if args.get(1).map(|s| s.as_str()) == Some("build1") {
        build1();
    }
    if args.get(1).map(|s| s.as_str()) == Some("api1") && args.len() >= 5 {
        api1(&args);
    }
    tt_harness::dispatch(&[("build", build)]);
}
