//! C15 driver: every observation runs the public API of /repo under catch_unwind.
//! Subcommands: validator, serde, type, prefix, naming, inventory, project.
use quote::ToTokens;
use serde_json::{json, Value};
use serde_rename_rule::RenameRule;
use std::collections::HashSet;
use std::panic::{catch_unwind, AssertUnwindSafe};
use tauri_typegen::analysis::serde_parser::SerdeParser;
use tauri_typegen::analysis::type_resolver::TypeResolver;
use tauri_typegen::analysis::validator_parser::ValidatorParser;
use tauri_typegen::analysis::CommandAnalyzer;
use tauri_typegen::generators::base::template_context::{CommandContext, EventContext, FieldContext, NamingContext};
use tauri_typegen::generators::base::templates::TemplateRegistry;
use tauri_typegen::generators::ts::templates::TypeScriptTemplate;
use tauri_typegen::{GenerateConfig, TypeStructure};

static LAST_LOC: std::sync::Mutex<String> = std::sync::Mutex::new(String::new());
static HOOK: std::sync::Once = std::sync::Once::new();
/// record the source location of the last panic (the shared dispatcher installs a silent hook)
fn install_hook() {
    HOOK.call_once(|| {
        std::panic::set_hook(Box::new(|info| {
            let loc = info.location().map(|l| format!("{}:{}", l.file(), l.line())).unwrap_or_default();
            if let Ok(mut g) = LAST_LOC.lock() {
                *g = loc;
            }
        }));
    });
}
fn panic_msg(e: Box<dyn std::any::Any + Send>) -> String {
    let msg = if let Some(s) = e.downcast_ref::<&str>() {
        s.to_string()
    } else if let Some(s) = e.downcast_ref::<String>() {
        s.clone()
    } else {
        "panic".to_string()
    };
    let loc = LAST_LOC.lock().map(|g| g.clone()).unwrap_or_default();
    format!("{msg} @ {loc}")
}

fn guarded<F: FnOnce() -> Value>(f: F) -> Value {
    install_hook();
    match catch_unwind(AssertUnwindSafe(f)) {
        Ok(v) => v,
        Err(e) => json!({ "PANIC": panic_msg(e) }),
    }
}

/// `struct S { #[<name>(<payload>)] f: u8 }` parsed by syn; the single attribute of the first
/// field and the token string the parsers will look at (computed exactly as they do).
fn attr_of(name: &str, payload: &str) -> Option<(Vec<syn::Attribute>, String)> {
    let src = format!("struct S {{ #[{}({})] f: u8 }}", name, payload);
    let item: syn::ItemStruct = syn::parse_str(&src).ok()?;
    let field = item.fields.iter().next()?;
    if field.attrs.len() != 1 || item.fields.len() != 1 {
        return None;
    }
    let attr = field.attrs[0].clone();
    if !attr.path().is_ident(name) {
        return None;
    }
    let list = syn::parse2::<syn::MetaList>(attr.meta.to_token_stream()).ok()?;
    Some((vec![attr], list.tokens.to_string()))
}

fn f64_bits(v: Option<f64>) -> Value {
    match v {
        Some(x) => json!([if x.is_nan() { "nan".to_string() } else { x.to_bits().to_string() }]),
        None => json!([]),
    }
}
fn opt<T: Into<Value>>(v: Option<T>) -> Value {
    match v {
        Some(x) => json!([x.into()]),
        None => json!([]),
    }
}

/// case {"id", "payload"} -> {"id", "tokens", "res": [email, url, [len], [range]] | {"PANIC": msg}} | {"id","skip"}
fn validator(case: &Value) -> Value {
    let payload = case["payload"].as_str().unwrap();
    let Some((attrs, tokens)) = attr_of("validate", payload) else {
        return json!({"id": case["id"], "skip": true});
    };
    let res = guarded(|| {
        let r = ValidatorParser::new().parse_validator_attributes(&attrs);
        match r {
            None => json!("none"),
            Some(a) => json!([
                a.email,
                a.url,
                match a.length {
                    Some(l) => json!([[opt(l.min.map(|x| x.to_string())), opt(l.max.map(|x| x.to_string())), opt(l.message)]]),
                    None => json!([]),
                },
                match a.range {
                    Some(l) => json!([[f64_bits(l.min), f64_bits(l.max), opt(l.message)]]),
                    None => json!([]),
                }
            ]),
        }
    });
    json!({"id": case["id"], "tokens": tokens, "res": res})
}

/// case {"id", "payload"} -> {"id", "tokens", "res": [[rename], skip, [rename_all]] | PANIC}
fn serde(case: &Value) -> Value {
    let payload = case["payload"].as_str().unwrap();
    let Some((attrs, tokens)) = attr_of("serde", payload) else {
        return json!({"id": case["id"], "skip": true});
    };
    let res = guarded(|| {
        let p = SerdeParser::new();
        let f = p.parse_field_serde_attrs(&attrs);
        let s = p.parse_struct_serde_attrs(&attrs);
        json!([opt(f.rename), f.skip, opt(s.rename_all.map(|r| r.to_rename_all_str().to_string()))])
    });
    json!({"id": case["id"], "tokens": tokens, "res": res})
}

fn ts_json(t: &TypeStructure) -> Value {
    match t {
        TypeStructure::Primitive(s) => json!(["prim", s]),
        TypeStructure::Array(t) => json!(["arr", ts_json(t)]),
        TypeStructure::Map { key, value } => json!(["map", ts_json(key), ts_json(value)]),
        TypeStructure::Set(t) => json!(["set", ts_json(t)]),
        TypeStructure::Tuple(l) => {
            let mut v = vec![json!("tuple")];
            v.extend(l.iter().map(ts_json));
            Value::Array(v)
        }
        TypeStructure::Optional(t) => json!(["opt", ts_json(t)]),
        TypeStructure::Result(t) => json!(["res", ts_json(t)]),
        TypeStructure::Custom(s) => json!(["custom", s]),
    }
}

/// case {"id", "s"} -> {"id", "ts": tree | PANIC, "names": sorted list | PANIC}
fn type_(case: &Value) -> Value {
    let s = case["s"].as_str().unwrap().to_string();
    let ts = guarded(|| ts_json(&TypeResolver::new().parse_type_structure(&s)));
    let names = guarded(|| {
        let mut set = HashSet::new();
        CommandAnalyzer::new().extract_type_names(&s, &mut set);
        let mut v: Vec<String> = set.into_iter().collect();
        v.sort();
        json!(v)
    });
    json!({"id": case["id"], "ts": ts, "names": names})
}

thread_local! {
    static TERA: tera::Tera = {
        let mut t = TypeScriptTemplate::create_tera().expect("tera");
        t.add_raw_template("c15_prefix", "{{ v | add_types_prefix | safe }}").expect("template");
        t
    };
}

/// case {"id", "s"} -> {"id", "out": string | PANIC | {"ERR": msg}}: the add_types_prefix filter
/// as the templates call it
fn prefix(case: &Value) -> Value {
    let s = case["s"].as_str().unwrap().to_string();
    let out = guarded(|| {
        TERA.with(|t| {
            let mut ctx = tera::Context::new();
            ctx.insert("v", &s);
            match t.render("c15_prefix", &ctx) {
                Ok(o) => json!(o),
                Err(e) => json!({"ERR": format!("{e:?}")}),
            }
        })
    });
    json!({"id": case["id"], "out": out})
}

thread_local! {
    static TERA_KEY: tera::Tera = {
        let mut t = TypeScriptTemplate::create_tera().expect("tera");
        // the filter exists from repair C01-bare-key-quote on; on older trees rendering reports an error
        let _ = t.add_raw_template("c15_tskey", "{{ v | ts_key | safe }}|{{ v | ts_key(member=true) | safe }}");
        t
    };
}

/// case {"id", "s"} -> {"id", "out": string | PANIC | {"ERR": msg}}: the ts_key filter (key and member form)
fn tskey(case: &Value) -> Value {
    let s = case["s"].as_str().unwrap().to_string();
    let out = guarded(|| {
        TERA_KEY.with(|t| {
            let mut ctx = tera::Context::new();
            ctx.insert("v", &s);
            match t.render("c15_tskey", &ctx) {
                Ok(o) => json!(o),
                Err(e) => json!({"ERR": format!("{e:?}")}),
            }
        })
    });
    json!({"id": case["id"], "out": out})
}

/// case {"id", "rule", "name"} -> {"id", "out": string | PANIC}: the naming functions as the
/// contexts call them (rule = one of the eight serde names, or "event")
fn naming(case: &Value) -> Value {
    let rule = case["rule"].as_str().unwrap().to_string();
    let name = case["name"].as_str().unwrap().to_string();
    let cfg = GenerateConfig::default();
    let out = guarded(|| {
        if rule == "event" {
            return json!(EventContext::new(&cfg).event_name_to_function(&name));
        }
        if let Some(value) = rule.strip_prefix("default:") {
            // the configured default_field_case / default_parameter_case, no serde attribute on the item
            let mut c = GenerateConfig::default();
            c.default_field_case = value.to_string();
            c.default_parameter_case = value.to_string();
            let a = FieldContext::new(&c).compute_field_name(&name, &None, &None);
            let b = CommandContext::new(&c).compute_parameter_name(&name, &None, &None);
            assert_eq!(a, b, "default field and parameter naming disagree");
            return json!(a);
        }
        if let Some(vr) = rule.strip_prefix("variant:") {
            // an enum variant as StructParser::parse_enum records it, through FieldContext::from_field_info
            let r = RenameRule::from_rename_all_str(vr).expect("rule");
            let fi = tauri_typegen::FieldInfo {
                name: name.clone(),
                rust_type: "enum_variant".to_string(),
                is_optional: false,
                is_public: true,
                validator_attributes: None,
                serde_rename: None,
                type_structure: TypeStructure::Custom("enum_variant".to_string()),
            };
            let visitor = tauri_typegen::generators::ts::type_visitor::TypeScriptVisitor::new();
            let fc = FieldContext::new(&cfg).from_field_info(&fi, &Some(r), &visitor);
            return json!(fc.serialized_name);
        }
        let r = RenameRule::from_rename_all_str(&rule).expect("rule");
        let a = FieldContext::new(&cfg).compute_field_name(&name, &None, &Some(r));
        let b = CommandContext::new(&cfg).compute_parameter_name(&name, &None, &Some(r));
        assert_eq!(a, b, "field and parameter naming disagree");
        if rule == "camelCase" {
            let c = CommandContext::new(&cfg).compute_function_name(&name, &None);
            assert_eq!(a, c, "function naming disagrees");
            // default_parameter_case is camelCase
            let d = CommandContext::new(&cfg).compute_parameter_name(&name, &None, &None);
            assert_eq!(a, d, "default parameter naming disagrees");
        }
        if rule == "PascalCase" {
            let c = CommandContext::new(&cfg).compute_type_name(&name, &None);
            assert_eq!(a, c, "type naming disagrees");
        }
        json!(a)
    });
    json!({"id": case["id"], "out": out})
}

/// case {"id", "kind": "emit"|"attr"|"param", "src"} -> what the walker found, under catch_unwind:
/// emit: event names found by EventParser; attr: number of commands CommandParser finds;
/// param: names of the parameters kept by CommandParser
fn walker(case: &Value) -> Value {
    let kind = case["kind"].as_str().unwrap().to_string();
    let src = case["src"].as_str().unwrap().to_string();
    let Ok(ast) = syn::parse_file(&src) else {
        return json!({"id": case["id"], "skip": true});
    };
    let out = guarded(|| {
        let mut tr = TypeResolver::new();
        let path = std::path::Path::new("walker.rs");
        if kind == "emit" {
            let evs = tauri_typegen::analysis::event_parser::EventParser::new()
                .extract_events_from_ast(&ast, path, &mut tr)
                .expect("events");
            json!(evs.iter().map(|e| e.event_name.clone()).collect::<Vec<_>>())
        } else {
            let cmds = tauri_typegen::analysis::command_parser::CommandParser::new()
                .extract_commands_from_ast(&ast, path, &mut tr)
                .expect("commands");
            if kind == "attr" {
                json!(cmds.len())
            } else {
                json!(cmds.iter().flat_map(|c| c.parameters.iter().map(|p| p.name.clone())).collect::<Vec<_>>())
            }
        }
    });
    json!({"id": case["id"], "out": out})
}

struct Inv {
    camel_variants: Vec<String>,
    idents: Vec<String>,
    validate: Vec<String>,
    serde: Vec<String>,
}
impl Inv {
    fn attrs(&mut self, attrs: &[syn::Attribute]) {
        for a in attrs {
            let which = if a.path().is_ident("validate") {
                1
            } else if a.path().is_ident("serde") {
                2
            } else {
                0
            };
            if which == 0 {
                continue;
            }
            if let Ok(l) = syn::parse2::<syn::MetaList>(a.meta.to_token_stream()) {
                let t = l.tokens.to_string();
                if which == 1 {
                    self.validate.push(t)
                } else {
                    self.serde.push(t)
                }
            }
        }
    }
    fn items(&mut self, items: &[syn::Item]) {
        for it in items {
            match it {
                syn::Item::Fn(f) => {
                    self.idents.push(f.sig.ident.to_string());
                    self.attrs(&f.attrs);
                    for inp in &f.sig.inputs {
                        if let syn::FnArg::Typed(pt) = inp {
                            self.attrs(&pt.attrs);
                            if let syn::Pat::Ident(pi) = &*pt.pat {
                                self.idents.push(pi.ident.to_string());
                            }
                        }
                    }
                }
                syn::Item::Struct(s) => {
                    self.idents.push(s.ident.to_string());
                    self.attrs(&s.attrs);
                    for f in s.fields.iter() {
                        self.attrs(&f.attrs);
                        if let Some(i) = &f.ident {
                            self.idents.push(i.to_string());
                        }
                    }
                }
                syn::Item::Enum(e) => {
                    self.idents.push(e.ident.to_string());
                    let before = self.serde.len();
                    self.attrs(&e.attrs);
                    // variants of an enum whose serde attributes mention camelCase (class C15-variant)
                    if self.serde[before..].iter().any(|t| t.contains("camelCase")) {
                        for v in e.variants.iter() {
                            self.camel_variants.push(v.ident.to_string());
                        }
                    }
                    for v in e.variants.iter() {
                        self.attrs(&v.attrs);
                        self.idents.push(v.ident.to_string());
                        for f in v.fields.iter() {
                            self.attrs(&f.attrs);
                            if let Some(i) = &f.ident {
                                self.idents.push(i.to_string());
                            }
                        }
                    }
                }
                syn::Item::Mod(m) => {
                    if let Some((_, its)) = &m.content {
                        self.items(its);
                    }
                }
                _ => {}
            }
        }
    }
}

/// case {"id", "src"} -> {"id", "parses", "idents", "validate", "serde"}: what the class
/// predicates are applied to for a project-level case (the harness itself must not die on it)
fn inventory(case: &Value) -> Value {
    let src = case["src"].as_str().unwrap().to_string();
    // syn recursion on hostile nesting can exhaust the stack: run on a big-stack thread
    let h = std::thread::Builder::new().stack_size(256 << 20).spawn(move || {
        match syn::parse_file(&src) {
            Ok(f) => {
                let mut inv = Inv { camel_variants: vec![], idents: vec![], validate: vec![], serde: vec![] };
                inv.items(&f.items);
                inv.idents.sort();
                inv.idents.dedup();
                json!({"parses": true, "idents": inv.idents, "validate": inv.validate, "serde": inv.serde, "camel_variants": inv.camel_variants})
            }
            Err(e) => json!({"parses": false, "error": e.to_string()}),
        }
    });
    let mut v = match h.unwrap().join() {
        Ok(v) => v,
        Err(_) => json!({"parses": false, "error": "panic in syn"}),
    };
    v["id"] = case["id"].clone();
    v
}

/// case {"id", "src_dir", "out_dir", "validation"} -> {"id", "result": "ok"|"err"|"panic", "detail", "files"}
/// the library entry point generate_from_config on a directory python prepared
fn project(case: &Value) -> Value {
    let mut cfg = GenerateConfig::default();
    cfg.project_path = case["src_dir"].as_str().unwrap().to_string();
    cfg.output_path = case["out_dir"].as_str().unwrap().to_string();
    cfg.validation_library = case["validation"].as_str().unwrap_or("none").to_string();
    cfg.force = Some(true);
    install_hook();
    let r = catch_unwind(AssertUnwindSafe(|| tauri_typegen::generate_from_config(&cfg)));
    match r {
        Ok(Ok(files)) => json!({"id": case["id"], "result": "ok", "files": files}),
        Ok(Err(e)) => json!({"id": case["id"], "result": "err", "detail": e.to_string()}),
        Err(e) => json!({"id": case["id"], "result": "panic", "detail": panic_msg(e)}),
    }
}

/// The three project shapes of the hash-extreme search: the candidate name is the command name,
/// the name of a returned serde struct, or the name of an emitted event
fn hash_src(kind: &str, name: &str) -> String {
    match kind {
        "struct" => format!("#[derive(serde::Serialize)]\npub struct {name} {{ pub a: u8 }}\n#[tauri::command]\npub fn get() -> {name} {{ todo!() }}\n"),
        "event" => format!("#[tauri::command]\npub fn c(app: tauri::AppHandle) {{ app.emit(\"{name}\", 1u8).ok(); }}\n"),
        _ => format!("#[tauri::command]\npub fn {name}() {{}}\n"),
    }
}
fn hash_name(kind: &str, i: u64) -> String {
    match kind {
        "struct" => format!("Rec{i}"),
        "event" => format!("ev-{i}"),
        _ => format!("cmd_{i}"),
    }
}
type HashState = (Vec<tauri_typegen::CommandInfo>, std::collections::HashMap<String, tauri_typegen::StructInfo>, Vec<tauri_typegen::EventInfo>);
/// what the real analysis records for the project (the state GenerationCache hashes)
fn hash_state(dir: &str, kind: &str, name: &str) -> Result<HashState, String> {
    let src = format!("{dir}/src");
    std::fs::create_dir_all(&src).map_err(|e| e.to_string())?;
    std::fs::write(format!("{src}/lib.rs"), hash_src(kind, name)).map_err(|e| e.to_string())?;
    let mut a = CommandAnalyzer::new();
    let cmds = a.analyze_project(&src).map_err(|e| e.to_string())?;
    let structs = a.get_discovered_structs().clone();
    // EventInfo is not Clone: rebuilt field by field
    let events = a
        .get_discovered_events()
        .iter()
        .map(|e| tauri_typegen::EventInfo {
            event_name: e.event_name.clone(),
            payload_type: e.payload_type.clone(),
            payload_type_structure: e.payload_type_structure.clone(),
            file_path: e.file_path.clone(),
            line_number: e.line_number,
        })
        .collect();
    Ok((cmds, structs, events))
}
fn hash_cfg(dir: &str, validation: &str) -> GenerateConfig {
    let mut cfg = GenerateConfig::default();
    cfg.project_path = format!("{dir}/src");
    cfg.output_path = format!("{dir}/out");
    cfg.validation_library = validation.to_string();
    cfg
}
/// the five hash texts of the cache the tool would write for this state (public API: new, with_events, Serialize)
fn hash_texts(st: &HashState, cfg: &GenerateConfig) -> Option<[String; 5]> {
    let c = tauri_typegen::build::GenerationCache::new(&st.0, &st.1, cfg).ok()?.with_events(&st.2).ok()?;
    let v = serde_json::to_value(&c).ok()?;
    let g = |k: &str| v[k].as_str().unwrap_or("").to_string();
    Some([g("combined_hash"), g("commands_hash"), g("structs_hash"), g("events_hash"), g("config_hash")])
}
fn hash_rename(st: &mut HashState, kind: &str, name: &str) {
    match kind {
        "struct" => {
            let old: Vec<String> = st.1.keys().cloned().collect();
            if let Some(mut si) = old.first().and_then(|k| st.1.remove(k)) {
                si.name = name.to_string();
                st.1.insert(name.to_string(), si);
            }
            if let Some(c) = st.0.get_mut(0) {
                c.return_type = name.to_string();
            }
        }
        "event" => {
            if let Some(e) = st.2.get_mut(0) {
                e.event_name = name.to_string();
            }
        }
        _ => {
            if let Some(c) = st.0.get_mut(0) {
                c.name = name.to_string();
            }
        }
    }
}

/// case {"id", "dir", "kind": command|struct|event, "validation", "table": [names], "maxlen", "want", "max_tries", "threads"}
/// -> {"verified": [{name, hashes}], "stale": [names], "found": [{name, hashes}], "by_length": {len: name}, "tries"}:
/// project states whose cache hash TEXT is extreme (few hex digits = leading zero nibbles). The table entries are
/// recomputed through the real analysis; when fewer than `want` still have a hash text of at most `maxlen` digits,
/// a counter is searched (state of the template with the name replaced, then confirmed through the real analysis)
fn hashsearch(case: &Value) -> Value {
    let dir = case["dir"].as_str().unwrap().to_string();
    let kind = case["kind"].as_str().unwrap_or("command").to_string();
    let validation = case["validation"].as_str().unwrap_or("none").to_string();
    let maxlen = case["maxlen"].as_u64().unwrap_or(11) as usize;
    let want = case["want"].as_u64().unwrap_or(2) as usize;
    let max_tries = case["max_tries"].as_u64().unwrap_or(6_000_000);
    let threads = case["threads"].as_u64().unwrap_or(4).max(1);
    let cfg = hash_cfg(&dir, &validation);
    let short = |h: &[String; 5]| h.iter().any(|t| !t.is_empty() && t.len() <= maxlen);
    let entry = |name: &str, h: &[String; 5]| json!({"name": name, "combined": h[0], "commands": h[1], "structs": h[2], "events": h[3], "config": h[4]});
    let mut verified = vec![];
    let mut stale = vec![];
    let mut n_combined = 0usize;
    for name in case["table"].as_array().cloned().unwrap_or_default() {
        let name = name.as_str().unwrap_or("").to_string();
        match hash_state(&dir, &kind, &name).ok().and_then(|st| hash_texts(&st, &cfg)) {
            Some(h) if short(&h) => {
                if h[0].len() <= maxlen {
                    n_combined += 1;
                }
                verified.push(entry(&name, &h));
            }
            _ => stale.push(json!(name)),
        }
    }
    let found = std::sync::Mutex::new(Vec::<(String, [String; 5])>::new());
    let by_len = std::sync::Mutex::new(std::collections::BTreeMap::<usize, String>::new());
    let stop = std::sync::atomic::AtomicBool::new(false);
    let tries = std::sync::atomic::AtomicU64::new(0);
    let need = want.saturating_sub(n_combined);
    if need > 0 {
        // the template is analysed once per thread; only the candidate name changes afterwards
        if hash_state(&dir, &kind, &hash_name(&kind, 0)).is_err() {
            return json!({"id": case["id"], "error": "template analysis failed"});
        }
        std::thread::scope(|s| {
            for t in 0..threads {
                let (dir, kind, cfg, found, by_len, stop, tries) = (&dir, &kind, &cfg, &found, &by_len, &stop, &tries);
                s.spawn(move || {
                    let src = format!("{dir}/src");
                    let mut a = CommandAnalyzer::new();
                    let Ok(cmds) = a.analyze_project(&src) else { return };
                    let structs = a.get_discovered_structs().clone();
                    let events = a
                        .get_discovered_events()
                        .iter()
                        .map(|e| tauri_typegen::EventInfo {
                            event_name: e.event_name.clone(),
                            payload_type: e.payload_type.clone(),
                            payload_type_structure: e.payload_type_structure.clone(),
                            file_path: e.file_path.clone(),
                            line_number: e.line_number,
                        })
                        .collect();
                    let mut st: HashState = (cmds, structs, events);
                    let mut i = 1 + t;
                    let mut local = 0u64;
                    while i <= max_tries && !stop.load(std::sync::atomic::Ordering::Relaxed) {
                        let name = hash_name(kind, i);
                        hash_rename(&mut st, kind, &name);
                        if let Some(h) = hash_texts(&st, cfg) {
                            if h[0].len() < 16 {
                                let mut m = by_len.lock().unwrap();
                                m.entry(h[0].len()).or_insert_with(|| name.clone());
                            }
                            if h.iter().any(|t| !t.is_empty() && t.len() <= maxlen) {
                                let mut f = found.lock().unwrap();
                                f.push((name.clone(), h.clone()));
                                if f.iter().filter(|(_, h)| h[0].len() <= maxlen).count() >= need {
                                    stop.store(true, std::sync::atomic::Ordering::Relaxed);
                                }
                            }
                        }
                        i += threads;
                        local += 1;
                    }
                    tries.fetch_add(local, std::sync::atomic::Ordering::Relaxed);
                });
            }
        });
    }
    // every name found on the renamed template is confirmed through the real analysis of its own source
    let mut out_found = vec![];
    let mut unconfirmed = vec![];
    for (name, h) in found.into_inner().unwrap() {
        match hash_state(&dir, &kind, &name).ok().and_then(|st| hash_texts(&st, &cfg)) {
            Some(h2) if h2 == h => out_found.push(entry(&name, &h)),
            _ => unconfirmed.push(json!(name)),
        }
    }
    let bl: serde_json::Map<String, Value> = by_len.into_inner().unwrap().into_iter().map(|(k, v)| (k.to_string(), json!(v))).collect();
    json!({"id": case["id"], "kind": kind, "validation": validation, "verified": verified, "stale": stale, "found": out_found,
           "unconfirmed": unconfirmed, "by_length": bl, "tries": tries.load(std::sync::atomic::Ordering::Relaxed)})
}

/// `c15 oneshot <case.json> <result.json>`: one library-entry run in this process, result written to a file.
/// Used where the entry point prints to stdout (verbose, cargo: directives) or may abort the process
/// (stack overflow): the caller judges the exit status / signal of this child and reads the file.
/// case {"entry": "lib"|"build", "src_dir", "out_dir", "validation", "verbose", "visualize_deps",
/// "include_private", "exclude_patterns", "dir" (build: directory to chdir into; reads tauri.conf.json there)}
fn oneshot(case_path: &str, result_path: &str) {
    let case: Value = serde_json::from_str(&std::fs::read_to_string(case_path).expect("case file")).expect("case json");
    install_hook();
    let entry = case["entry"].as_str().unwrap_or("lib").to_string();
    let r = catch_unwind(AssertUnwindSafe(|| -> Result<Vec<String>, String> {
        if entry == "analyze" {
            // the analysis entry point with its verbose switch (what the CLI calls before generating)
            let mut a = CommandAnalyzer::new();
            return a
                .analyze_project_with_verbose(case["src_dir"].as_str().unwrap(), case["verbose"].as_bool().unwrap_or(false))
                .map(|c| c.iter().map(|x| x.name.clone()).collect())
                .map_err(|e| e.to_string());
        }
        if entry == "build" {
            std::env::set_current_dir(case["dir"].as_str().unwrap()).map_err(|e| e.to_string())?;
            tauri_typegen::BuildSystem::generate_at_build_time().map(|_| vec![]).map_err(|e| e.to_string())
        } else {
            let mut cfg = GenerateConfig::default();
            cfg.project_path = case["src_dir"].as_str().unwrap().to_string();
            cfg.output_path = case["out_dir"].as_str().unwrap().to_string();
            cfg.validation_library = case["validation"].as_str().unwrap_or("none").to_string();
            cfg.force = Some(true);
            cfg.verbose = case["verbose"].as_bool();
            cfg.visualize_deps = case["visualize_deps"].as_bool();
            cfg.include_private = case["include_private"].as_bool();
            if let Some(v) = case["default_field_case"].as_str() {
                cfg.default_field_case = v.to_string();
            }
            if let Some(v) = case["default_parameter_case"].as_str() {
                cfg.default_parameter_case = v.to_string();
            }
            if let Some(p) = case["exclude_patterns"].as_array() {
                cfg.exclude_patterns = Some(p.iter().filter_map(|x| x.as_str().map(|s| s.to_string())).collect());
            }
            tauri_typegen::generate_from_config(&cfg).map_err(|e| e.to_string())
        }
    }));
    let v = match r {
        Ok(Ok(files)) => json!({"result": "ok", "files": files}),
        Ok(Err(e)) => json!({"result": "err", "detail": e}),
        Err(e) => json!({"result": "panic", "detail": panic_msg(e)}),
    };
    std::fs::write(result_path, serde_json::to_string(&v).unwrap()).expect("result file");
}

fn main() {
    let args: Vec<String> = std::env::args().collect();
    if args.len() == 4 && args[1] == "oneshot" {
        oneshot(&args[2], &args[3]);
        return;
    }
    tt_harness::dispatch(&[
        ("validator", validator),
        ("serde", serde),
        ("type", type_),
        ("prefix", prefix),
        ("tskey", tskey),
        ("walker", walker),
        ("naming", naming),
        ("inventory", inventory),
        ("project", project),
        ("hashsearch", hashsearch),
    ]);
}
