//! C09 driver: subcommand `rounds` - the library API used as a long-lived object: ONE CommandAnalyzer and ONE
//! generator are reused for several analyze + generate rounds over the sources of each round (unchanged or edited).
//! Public items only: CommandAnalyzer::{new, analyze_project, get_discovered_structs}, generators::create_generator,
//! BindingsGenerator::generate_models, GenerateConfig.
use serde_json::{json, Value};
use std::fs;
use std::path::Path;
use tauri_typegen::analysis::CommandAnalyzer;
use tauri_typegen::generators::create_generator;
use tauri_typegen::GenerateConfig;

fn write_sources(root: &Path, files: &Value) {
    let src = root.join("proj");
    let _ = fs::remove_dir_all(&src);
    for (rel, text) in files.as_object().unwrap() {
        let p = src.join(rel);
        fs::create_dir_all(p.parent().unwrap()).unwrap();
        fs::write(&p, text.as_str().unwrap()).unwrap();
    }
}

/// case: {"id", "dir": scratch directory (exists, empty), "mode": "zod"|"none", "rounds": [{"files": {rel: text}}, ...]}
/// answer: {"id", "rounds": [{"ok": bool, "types_ts": text | null, "error": msg | null}, ...]}
pub fn rounds(case: &Value) -> Value {
    let root = Path::new(case["dir"].as_str().unwrap()).to_path_buf();
    let mode = case["mode"].as_str().unwrap_or("zod").to_string();
    let fresh = case["fresh_analyzer"].as_bool().unwrap_or(false);
    let mut analyzer = CommandAnalyzer::new();
    let mut generator = create_generator(Some(mode.clone()));
    let mut out = Vec::new();
    for (k, round) in case["rounds"].as_array().unwrap().iter().enumerate() {
        write_sources(&root, &round["files"]);
        let out_dir = root.join(format!("out{}", k));
        let config = GenerateConfig {
            project_path: root.join("proj").to_string_lossy().to_string(),
            output_path: out_dir.to_string_lossy().to_string(),
            validation_library: mode.clone(),
            ..Default::default()
        };
        if fresh {
            analyzer = CommandAnalyzer::new();
        }
        let res = (|| -> Result<String, Box<dyn std::error::Error>> {
            let commands = analyzer.analyze_project(&config.project_path)?;
            generator.generate_models(&commands, analyzer.get_discovered_structs(), &config.output_path, &analyzer, &config)?;
            Ok(fs::read_to_string(out_dir.join("types.ts"))?)
        })();
        match res {
            Ok(text) => out.push(json!({"ok": true, "types_ts": text, "error": null})),
            Err(e) => out.push(json!({"ok": false, "types_ts": null, "error": e.to_string()})),
        }
    }
    json!({"id": case["id"], "rounds": out})
}

fn main() {
    tt_harness::dispatch(&[("rounds", rounds)]);
}
