//! C06 driver: subcommand `names`.
//! case: {"id", "src": Rust source declaring `T0` (struct or enum) and a command that uses it,
//!        "dfc": default_field_case of the configuration, "e2e": bool}
//! observation:
//!   tokens      [[token string of each #[serde(..)] on item i] ...]   (MetaList.tokens.to_string())
//!   ctokens     [token string of each #[serde(..)] on the container]
//!   names       serialized_name of every FieldContext built from StructParser's StructInfo (plain visitor)
//!   names_zod   the same through the Zod visitor
//!   ts_plain / ts_zod   text of types.ts written by generate_from_config for a one-file project
use quote::ToTokens;
use serde_json::{json, Value};
use std::cell::RefCell;
use std::path::{Path, PathBuf};
use tauri_typegen::analysis::struct_parser::StructParser;
use tauri_typegen::analysis::type_resolver::TypeResolver;
use tauri_typegen::generators::ts::type_visitor::TypeScriptVisitor;
use tauri_typegen::generators::zod::type_visitor::ZodVisitor;
use tauri_typegen::generators::TypeCollector;
use tauri_typegen::{generate_from_config, GenerateConfig};

thread_local! {
    static SANDBOX: RefCell<Option<tempfile::TempDir>> = RefCell::new(None);
}

fn sandbox_root() -> PathBuf {
    SANDBOX.with(|s| {
        let mut s = s.borrow_mut();
        if s.is_none() {
            let base = std::env::var("C06_SANDBOX").unwrap_or_else(|_| "/verif/build/sandbox".to_string());
            std::fs::create_dir_all(&base).expect("sandbox base");
            *s = Some(tempfile::Builder::new().prefix("c06-").tempdir_in(&base).expect("sandbox"));
        }
        s.as_ref().unwrap().path().to_path_buf()
    })
}

fn serde_tokens(attrs: &[syn::Attribute]) -> Vec<String> {
    let mut out = Vec::new();
    for a in attrs {
        if a.path().is_ident("serde") {
            if let Ok(ml) = syn::parse2::<syn::MetaList>(a.meta.to_token_stream()) {
                out.push(ml.tokens.to_string());
            }
        }
    }
    out
}

fn config(dfc: &str, project: &Path, out: &Path, lib: &str) -> GenerateConfig {
    GenerateConfig {
        project_path: project.to_string_lossy().to_string(),
        output_path: out.to_string_lossy().to_string(),
        validation_library: lib.to_string(),
        default_field_case: dfc.to_string(),
        ..Default::default()
    }
}

fn e2e(src: &str, dfc: &str, lib: &str) -> Value {
    let root = sandbox_root();
    let project = root.join("proj");
    let out = root.join(format!("out-{lib}"));
    let _ = std::fs::remove_dir_all(&out);
    std::fs::create_dir_all(project.join("src")).expect("mkdir");
    std::fs::write(project.join("src").join("lib.rs"), src).expect("write source");
    let cfg = config(dfc, &project, &out, lib);
    match generate_from_config(&cfg) {
        Ok(_) => match std::fs::read_to_string(out.join("types.ts")) {
            Ok(t) => json!(t),
            Err(e) => json!({"error": format!("types.ts: {e}")}),
        },
        Err(e) => json!({"error": e.to_string()}),
    }
}

pub fn names(case: &Value) -> Value {
    let src = case["src"].as_str().unwrap();
    let dfc = case["dfc"].as_str().unwrap_or("snake_case");
    let file = match syn::parse_file(src) {
        Ok(f) => f,
        Err(e) => return json!({"id": case["id"], "syn_error": e.to_string()}),
    };
    let parser = StructParser::new();
    let mut resolver = TypeResolver::new();
    let mut info = None;
    let mut tokens: Vec<Vec<String>> = Vec::new();
    let mut ctokens: Vec<String> = Vec::new();
    for it in &file.items {
        match it {
            syn::Item::Struct(s) if s.ident == "T0" => {
                ctokens = serde_tokens(&s.attrs);
                for f in s.fields.iter() {
                    tokens.push(serde_tokens(&f.attrs));
                }
                info = parser.parse_struct(s, Path::new("lib.rs"), &mut resolver);
            }
            syn::Item::Enum(e) if e.ident == "T0" => {
                ctokens = serde_tokens(&e.attrs);
                for v in e.variants.iter() {
                    tokens.push(serde_tokens(&v.attrs));
                }
                info = parser.parse_enum(e, Path::new("lib.rs"));
            }
            _ => {}
        }
    }
    let info = match info {
        Some(i) => i,
        None => return json!({"id": case["id"], "no_info": true}),
    };
    let root = sandbox_root();
    let cfg = config(dfc, &root, &root, "none");
    let collector = TypeCollector::new();
    let plain = TypeScriptVisitor::with_config(&cfg);
    let names: Vec<String> = collector
        .create_field_contexts(&info, &plain, &cfg)
        .iter()
        .map(|f| f.serialized_name.clone())
        .collect();
    let zod = ZodVisitor::with_config(&cfg);
    let names_zod: Vec<String> = collector
        .create_field_contexts(&info, &zod, &cfg)
        .iter()
        .map(|f| f.serialized_name.clone())
        .collect();
    let mut obs = json!({"id": case["id"], "tokens": tokens, "ctokens": ctokens,
                         "names": names, "names_zod": names_zod, "is_enum": info.is_enum});
    if case["e2e"].as_bool().unwrap_or(true) {
        obs["ts_plain"] = e2e(src, dfc, "none");
        obs["ts_zod"] = e2e(src, dfc, "zod");
    }
    obs
}

// ---------------------------------------------------------------- real serde (validates Spec/C06SerdeRule.v)
// One struct and one enum per rename_all rule, derived by the real serde_derive this crate is built
// with, serialised with serde_json; python compares the names with the extracted specification.
macro_rules! real_struct {
    ($name:ident, $rule:literal) => {
        #[allow(non_snake_case, dead_code)]
        #[derive(serde::Serialize, Default)]
        #[serde(rename_all = $rule)]
        struct $name {
            id: u8, user_id: u8, first_last_name: u8, a: u8, x1: u8, user_2fa: u8, http_url: u8, _private: u8,
            a__b: u8, trailing_: u8, userName: u8, myHTTPServer: u8, URL: u8, x_y_z: u8, field1_name2: u8, i: u8,
            r#type: u8, r#match_arm: u8,
            #[serde(rename = "re-named")]
            r: u8,
            #[serde(skip)]
            s: u8,
            #[serde(default, skip_serializing_if = "is_one")]
            kept: u8,
        }
    };
}
macro_rules! real_enum {
    ($name:ident, $rule:literal) => {
        #[allow(non_camel_case_types, dead_code)]
        #[derive(serde::Serialize)]
        #[serde(rename_all = $rule)]
        enum $name {
            Active, InProgress, A, HTTPError, V2, Ok, MyHTTPServer, Snake_Case, lower, X_Y, ABC, A1B2, NotFound404,
            IoError, x, UserID, r#type, r#Match,
            #[serde(rename = "re-named")]
            R,
        }
        impl $name {
            fn all() -> Vec<$name> {
                use $name::*;
                vec![Active, InProgress, A, HTTPError, V2, Ok, MyHTTPServer, Snake_Case, lower, X_Y, ABC, A1B2,
                     NotFound404, IoError, x, UserID, r#type, r#Match, R]
            }
        }
    };
}
fn is_one(v: &u8) -> bool {
    *v == 1
}
real_struct!(SLower, "lowercase");
real_struct!(SUpper, "UPPERCASE");
real_struct!(SPascal, "PascalCase");
real_struct!(SCamel, "camelCase");
real_struct!(SSnake, "snake_case");
real_struct!(SScreaming, "SCREAMING_SNAKE_CASE");
real_struct!(SKebab, "kebab-case");
real_struct!(SScreamingKebab, "SCREAMING-KEBAB-CASE");
real_enum!(ELower, "lowercase");
real_enum!(EUpper, "UPPERCASE");
real_enum!(EPascal, "PascalCase");
real_enum!(ECamel, "camelCase");
real_enum!(ESnake, "snake_case");
real_enum!(EScreaming, "SCREAMING_SNAKE_CASE");
real_enum!(EKebab, "kebab-case");
real_enum!(EScreamingKebab, "SCREAMING-KEBAB-CASE");
#[allow(non_snake_case, dead_code)]
#[derive(serde::Serialize, Default)]
struct SNone { id: u8, user_id: u8, userName: u8, URL: u8, _private: u8 }
#[allow(non_camel_case_types, dead_code)]
#[derive(serde::Serialize)]
enum ENone { Active, InProgress, Snake_Case, lower }

// other legal spellings: parenthesised serialize / deserialize forms, rename_all_fields, data-carrying variants
#[allow(dead_code)]
#[derive(serde::Serialize, Default)]
#[serde(rename_all(serialize = "camelCase", deserialize = "SCREAMING_SNAKE_CASE"))]
struct SParen {
    user_id: u8,
    #[serde(rename(serialize = "ser_name", deserialize = "de_name"))]
    a: u8,
    #[serde(rename(deserialize = "de_only"))]
    b_c: u8,
    #[serde(rename(deserialize = "d2", serialize = "s2"))]
    d_e: u8,
}
#[allow(dead_code)]
#[derive(serde::Serialize, Default)]
#[serde(rename_all(deserialize = "camelCase"))]
struct SDeOnly {
    user_id: u8,
    first_last_name: u8,
}
#[allow(dead_code)]
#[derive(serde::Serialize)]
#[serde(rename_all = "snake_case", rename_all_fields = "camelCase")]
enum EData {
    TaskStarted(u32, u8),
    Moved { to_x: i32 },
    QueueEmpty,
    #[serde(rename = "DONE")]
    Finished(u8),
}
#[allow(dead_code)]
#[derive(serde::Serialize)]
#[serde(rename_all_fields = "camelCase")]
enum EFieldsOnly {
    TaskStarted { to_x: i32 },
    Idle,
}
// every field serde writes has a key whatever its type (markers, unit, empty arrays, boxes, borrows)
#[allow(dead_code)]
#[derive(serde::Serialize)]
#[serde(rename_all = "camelCase")]
struct STypes<'a> {
    plain_field: String,
    marker_a: std::marker::PhantomData<u8>,
    marker_b: core::marker::PhantomData<String>,
    unit_field: (),
    empty_arr: [u8; 0],
    boxed_val: Box<String>,
    cow_val: std::borrow::Cow<'a, str>,
    str_ref: &'a str,
    opt_unit: Option<()>,
    bytes_vec: Vec<u8>,
    pair_val: (i32, String),
    #[serde(skip)]
    skipped_marker: std::marker::PhantomData<u8>,
}
// serde attributes behind cfg_attr with predicates that are false in this build: rustc drops them
#[allow(dead_code, unexpected_cfgs)]
#[derive(serde::Serialize, Default)]
#[cfg_attr(feature = "c06_gated_off", serde(rename_all = "camelCase"))]
struct SGated {
    first_name: u8,
    #[cfg_attr(any(), serde(rename = "legacyId"))]
    legacy_id: u8,
    #[cfg_attr(not(all()), serde(skip))]
    debug_info: u8,
}
#[allow(dead_code, unexpected_cfgs)]
#[derive(serde::Serialize)]
#[cfg_attr(all(test, feature = "c06_gated_off"), serde(rename_all = "SCREAMING_SNAKE_CASE"))]
enum EGated {
    InProgress,
    #[cfg_attr(target_os = "c06-none", serde(rename = "fin"))]
    Done(u8),
}

// deepening round 7: non-ASCII identifiers under the rules serde_derive computes with ASCII operations only
// (every field rule; PascalCase / lowercase / UPPERCASE variant rules; camelCase when the first character is
// ASCII - with a non-ASCII first character the derive macro itself panics, so such a type cannot be compiled)
macro_rules! real_ustruct {
    ($name:ident, $rule:literal) => {
        #[allow(non_snake_case, dead_code, uncommon_codepoints)]
        #[derive(serde::Serialize, Default)]
        #[serde(rename_all = $rule)]
        struct $name { größe_x: u8, naïve_été: u8, x_ß: u8, a_名前: u8, #[serde(rename = "ü-named")] r_ü: u8, #[serde(skip)] s_é: u8 }
    };
}
macro_rules! real_ustruct_head {
    ($name:ident, $rule:literal) => {
        #[allow(non_snake_case, dead_code, uncommon_codepoints)]
        #[derive(serde::Serialize, Default)]
        #[serde(rename_all = $rule)]
        struct $name { 名前: u8, été_x: u8, _ö_b: u8 }
    };
}
macro_rules! real_uenum {
    ($name:ident, $rule:literal) => {
        #[allow(non_camel_case_types, dead_code, uncommon_codepoints)]
        #[derive(serde::Serialize)]
        #[serde(rename_all = $rule)]
        enum $name { Été, Naïve, Größe, A名, Snake_Ünder }
        impl $name { fn all() -> Vec<$name> { use $name::*; vec![Été, Naïve, Größe, A名, Snake_Ünder] } }
    };
}
real_ustruct!(UsLower, "lowercase");
real_ustruct!(UsUpper, "UPPERCASE");
real_ustruct!(UsPascal, "PascalCase");
real_ustruct!(UsCamel, "camelCase");
real_ustruct!(UsSnake, "snake_case");
real_ustruct!(UsScreaming, "SCREAMING_SNAKE_CASE");
real_ustruct!(UsKebab, "kebab-case");
real_ustruct!(UsScreamingKebab, "SCREAMING-KEBAB-CASE");
real_ustruct_head!(UhLower, "lowercase");
real_ustruct_head!(UhUpper, "UPPERCASE");
real_ustruct_head!(UhPascal, "PascalCase");
real_ustruct_head!(UhSnake, "snake_case");
real_ustruct_head!(UhScreaming, "SCREAMING_SNAKE_CASE");
real_ustruct_head!(UhKebab, "kebab-case");
real_ustruct_head!(UhScreamingKebab, "SCREAMING-KEBAB-CASE");
real_uenum!(UeLower, "lowercase");
real_uenum!(UeUpper, "UPPERCASE");
real_uenum!(UePascal, "PascalCase");
#[allow(non_camel_case_types, dead_code, uncommon_codepoints)]
#[derive(serde::Serialize)]
#[serde(rename_all = "camelCase")]
enum UeCamel { Naïve, Größe, A名 }
#[allow(non_snake_case, dead_code, uncommon_codepoints)]
#[derive(serde::Serialize, Default)]
struct UsNone { größe_x: u8, 名前: u8 }
/// wire name of a variant: the string itself, or the single key of the externally tagged object
fn variant_name<T: serde::Serialize>(v: &T) -> String {
    match serde_json::to_value(v).unwrap() {
        Value::String(s) => s,
        Value::Object(m) => m.keys().next().unwrap().clone(),
        other => other.to_string(),
    }
}

/// keys of a serialised struct in field order, for arbitrary values: a tiny serializer would be exact; here the
/// order is taken from a streaming pass over the JSON text at nesting depth 1
fn keys_of_any<T: serde::Serialize>(v: &T) -> Vec<String> {
    let s = serde_json::to_string(v).unwrap();
    let (mut depth, mut keys, mut i, b) = (0i32, Vec::new(), 0usize, s.as_bytes());
    let mut expect_key = false;
    while i < b.len() {
        match b[i] {
            b'{' | b'[' => { depth += 1; expect_key = b[i] == b'{' && depth == 1; }
            b'}' | b']' => depth -= 1,
            b',' if depth == 1 => expect_key = true,
            b'"' => {
                let start = i + 1;
                i += 1;
                while b[i] != b'"' { if b[i] == b'\\' { i += 1; } i += 1; }
                if depth == 1 && expect_key { keys.push(s[start..i].to_string()); expect_key = false; }
            }
            _ => {}
        }
        i += 1;
    }
    keys
}

fn keys_of<T: serde::Serialize>(v: &T) -> Vec<String> {
    // {"k1":0,"k2":0}: every value is 0 and no key holds a quote or a comma
    let s = serde_json::to_string(v).unwrap();
    s.trim_start_matches('{').trim_end_matches('}').split(',').filter(|p| !p.is_empty())
        .map(|p| p.trim_start_matches('"').split("\":").next().unwrap().to_string()).collect()
}
fn lits_of<T: serde::Serialize>(vs: Vec<T>) -> Vec<String> {
    vs.iter().map(|v| serde_json::to_string(v).unwrap().trim_matches('"').to_string()).collect()
}

pub fn real_serde(case: &Value) -> Value {
    json!({"id": case["id"],
      "struct": {
        "lowercase": keys_of(&SLower::default()), "UPPERCASE": keys_of(&SUpper::default()),
        "PascalCase": keys_of(&SPascal::default()), "camelCase": keys_of(&SCamel::default()),
        "snake_case": keys_of(&SSnake::default()), "SCREAMING_SNAKE_CASE": keys_of(&SScreaming::default()),
        "kebab-case": keys_of(&SKebab::default()), "SCREAMING-KEBAB-CASE": keys_of(&SScreamingKebab::default()),
        "": keys_of(&SNone::default())},
      "extra": {
        "paren": keys_of(&SParen::default()),
        "deonly": keys_of(&SDeOnly::default()),
        "data": [variant_name(&EData::TaskStarted(1, 2)), variant_name(&EData::Moved { to_x: 1 }),
                 variant_name(&EData::QueueEmpty), variant_name(&EData::Finished(1))],
        "types": keys_of_any(&STypes { plain_field: String::new(), marker_a: std::marker::PhantomData, marker_b: core::marker::PhantomData,
            unit_field: (), empty_arr: [], boxed_val: Box::new(String::new()), cow_val: "".into(), str_ref: "", opt_unit: None,
            bytes_vec: vec![], pair_val: (0, String::new()), skipped_marker: std::marker::PhantomData }),
        "gated_s": keys_of(&SGated::default()),
        "gated_e": [variant_name(&EGated::InProgress), variant_name(&EGated::Done(1))],
        "fieldsonly": [variant_name(&EFieldsOnly::TaskStarted { to_x: 1 }), variant_name(&EFieldsOnly::Idle)]},
      "uni": {
        "s:lowercase": keys_of(&UsLower::default()), "s:UPPERCASE": keys_of(&UsUpper::default()),
        "s:PascalCase": keys_of(&UsPascal::default()), "s:camelCase": keys_of(&UsCamel::default()),
        "s:snake_case": keys_of(&UsSnake::default()), "s:SCREAMING_SNAKE_CASE": keys_of(&UsScreaming::default()),
        "s:kebab-case": keys_of(&UsKebab::default()), "s:SCREAMING-KEBAB-CASE": keys_of(&UsScreamingKebab::default()),
        "h:lowercase": keys_of(&UhLower::default()), "h:UPPERCASE": keys_of(&UhUpper::default()),
        "h:PascalCase": keys_of(&UhPascal::default()), "h:snake_case": keys_of(&UhSnake::default()),
        "h:SCREAMING_SNAKE_CASE": keys_of(&UhScreaming::default()), "h:kebab-case": keys_of(&UhKebab::default()),
        "h:SCREAMING-KEBAB-CASE": keys_of(&UhScreamingKebab::default()),
        "e:lowercase": lits_of(UeLower::all()), "e:UPPERCASE": lits_of(UeUpper::all()), "e:PascalCase": lits_of(UePascal::all()),
        "e:camelCase": lits_of(vec![UeCamel::Naïve, UeCamel::Größe, UeCamel::A名]),
        "n:": keys_of(&UsNone::default())},
      "enum": {
        "lowercase": lits_of(ELower::all()), "UPPERCASE": lits_of(EUpper::all()), "PascalCase": lits_of(EPascal::all()),
        "camelCase": lits_of(ECamel::all()), "snake_case": lits_of(ESnake::all()),
        "SCREAMING_SNAKE_CASE": lits_of(EScreaming::all()), "kebab-case": lits_of(EKebab::all()),
        "SCREAMING-KEBAB-CASE": lits_of(EScreamingKebab::all()),
        "": lits_of(vec![ENone::Active, ENone::InProgress, ENone::Snake_Case, ENone::lower])}})
}

/// Subcommand `route`: the ways a configuration reaches the generator from Rust code.
/// case: {"id", "cwd": dir, "kind": "build" | "lib-tauri", "conf": path}
///   build     - chdir into cwd and call BuildSystem::generate_at_build_time(), as a build.rs would
///   lib-tauri - GenerateConfig::from_tauri_config(conf) followed by generate_from_config
/// The tool may print cargo: lines on stdout; the python side picks the last JSON line.
pub fn route(case: &Value) -> Value {
    let back = std::env::current_dir().unwrap();
    std::env::set_current_dir(case["cwd"].as_str().unwrap()).unwrap();
    let kind = case["kind"].as_str().unwrap().to_string();
    let conf = case["conf"].as_str().unwrap_or("").to_string();
    let r = std::panic::catch_unwind(std::panic::AssertUnwindSafe(|| -> Result<(), String> {
        match kind.as_str() {
            "build" => tauri_typegen::BuildSystem::generate_at_build_time().map_err(|e| e.to_string()),
            _ => {
                let config = GenerateConfig::from_tauri_config(&conf)
                    .map_err(|e| format!("config: {e}"))?
                    .ok_or_else(|| "no typegen section".to_string())?;
                generate_from_config(&config).map(|_| ()).map_err(|e| e.to_string())
            }
        }
    }));
    std::env::set_current_dir(back).unwrap();
    println!();
    match r {
        Err(_) => json!({"id": case["id"], "panic": "panic in route"}),
        Ok(Err(e)) => json!({"id": case["id"], "error": e}),
        Ok(Ok(())) => json!({"id": case["id"], "ok": true}),
    }
}

fn main() {
    tt_harness::dispatch(&[("names", names), ("real-serde", real_serde), ("route", route)]);
}
