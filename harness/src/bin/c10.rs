//! C10 driver: subcommand `tcase`.
//!
//! case: {"id", "ts": T, "opt": bool, "mappings": {name: target}|null, "enum": bool, "unit": bool,
//!        "keys": [field key, parameter key, channel key, second enum literal] | null,
//!        "extra": [[command name, [[parameter name, T, opt], ..]], ..] | null, "scratch": dir}
//!   T = ["prim", "string"|"number"|"boolean"|"void"] | ["arr", T] | ["map", T, T] | ["set", T]
//!     | ["tuple", T...] | ["opt", T] | ["res", T] | ["custom", name]
//!
//! Observation (public items of the crate only):
//!  * the five renderings of the TypeStructure: TypeScriptVisitor::visit_type (plain),
//!    ZodVisitor::visit_type_for_interface, ZodVisitor::visit_type, ZodSchemaBuilder::build_schema
//!    (validator None) and build_param_schema;
//!  * types.ts as written by TypeScriptBindingsGenerator::generate_models and by
//!    ZodBindingsGenerator::generate_models for the same analysis result: struct S { f: T },
//!    optionally enum K { A, B } and the member-less struct Z, commands c(p: T), d(p: T, ch: Channel<T>), e(ch: Channel<T>),
//!    u(s: S [, k: K] [, z: Z]);
//!  * the TypeStructure the real resolver reads from the channel's message type string (the channel
//!    context re-parses the string), so that the model is fed what the implementation used.
use serde_json::{json, Value};
use std::collections::HashMap;
use tauri_typegen::analysis::CommandAnalyzer;
use tauri_typegen::generators::base::type_visitor::TypeVisitor;
use tauri_typegen::generators::ts::type_visitor::TypeScriptVisitor;
use tauri_typegen::generators::zod::schema_builder::ZodSchemaBuilder;
use tauri_typegen::generators::zod::type_visitor::ZodVisitor;
use tauri_typegen::generators::{BindingsGenerator, TypeScriptBindingsGenerator, ZodBindingsGenerator};
use tauri_typegen::models::{ChannelInfo, CommandInfo, FieldInfo, ParameterInfo, StructInfo, TypeStructure};
use tauri_typegen::GenerateConfig;

fn ts_of(v: &Value) -> TypeStructure {
    let a = v.as_array().expect("type node");
    let tag = a[0].as_str().expect("tag");
    let b = |i: usize| Box::new(ts_of(&a[i]));
    match tag {
        "prim" => TypeStructure::Primitive(a[1].as_str().unwrap().to_string()),
        "arr" => TypeStructure::Array(b(1)),
        "map" => TypeStructure::Map { key: b(1), value: b(2) },
        "set" => TypeStructure::Set(b(1)),
        "tuple" => TypeStructure::Tuple(a[1..].iter().map(ts_of).collect()),
        "opt" => TypeStructure::Optional(b(1)),
        "res" => TypeStructure::Result(b(1)),
        "custom" => TypeStructure::Custom(a[1].as_str().unwrap().to_string()),
        _ => panic!("unknown tag {tag}"),
    }
}

fn to_json(t: &TypeStructure) -> Value {
    match t {
        TypeStructure::Primitive(p) => json!(["prim", p]),
        TypeStructure::Array(i) => json!(["arr", to_json(i)]),
        TypeStructure::Map { key, value } => json!(["map", to_json(key), to_json(value)]),
        TypeStructure::Set(i) => json!(["set", to_json(i)]),
        TypeStructure::Tuple(l) => {
            let mut v = vec![json!("tuple")];
            v.extend(l.iter().map(to_json));
            Value::Array(v)
        }
        TypeStructure::Optional(i) => json!(["opt", to_json(i)]),
        TypeStructure::Result(i) => json!(["res", to_json(i)]),
        TypeStructure::Custom(n) => json!(["custom", n]),
    }
}

/// a Rust type text whose structure is (mostly) the given one; what the resolver really reads
/// from it is reported back
fn rust_text(t: &TypeStructure) -> String {
    match t {
        TypeStructure::Primitive(p) => match p.as_str() {
            "string" => "String".into(),
            "number" => "i32".into(),
            "boolean" => "bool".into(),
            "void" => "()".into(),
            o => o.to_string(),
        },
        TypeStructure::Array(i) => format!("Vec<{}>", rust_text(i)),
        TypeStructure::Map { key, value } => format!("HashMap<{}, {}>", rust_text(key), rust_text(value)),
        TypeStructure::Set(i) => format!("HashSet<{}>", rust_text(i)),
        TypeStructure::Tuple(l) => format!("({})", l.iter().map(rust_text).collect::<Vec<_>>().join(", ")),
        TypeStructure::Optional(i) => format!("Option<{}>", rust_text(i)),
        TypeStructure::Result(i) => format!("Result<{}, String>", rust_text(i)),
        TypeStructure::Custom(n) => n.clone(),
    }
}

fn param(name: &str, t: &TypeStructure, opt: bool) -> ParameterInfo {
    param_as(name, None, t, opt)
}

/// `key`: the serialised name (as a serde rename) when it differs from the Rust name
fn param_as(name: &str, key: Option<&str>, t: &TypeStructure, opt: bool) -> ParameterInfo {
    ParameterInfo {
        name: name.to_string(),
        rust_type: rust_text(t),
        is_optional: opt,
        type_structure: t.clone(),
        serde_rename: key.map(|k| k.to_string()),
    }
}

fn channel(cmd: &str, key: Option<&str>, t: &TypeStructure) -> ChannelInfo {
    ChannelInfo {
        parameter_name: "ch".to_string(),
        message_type: rust_text(t),
        command_name: cmd.to_string(),
        file_path: "src/lib.rs".to_string(),
        line_number: 1,
        serde_rename: key.map(|k| k.to_string()),
        message_type_structure: t.clone(),
    }
}

fn command(name: &str, params: Vec<ParameterInfo>, channels: Vec<ChannelInfo>) -> CommandInfo {
    CommandInfo {
        name: name.to_string(),
        file_path: "src/lib.rs".to_string(),
        line_number: 1,
        parameters: params,
        return_type: "()".to_string(),
        return_type_structure: TypeStructure::Primitive("void".to_string()),
        is_async: false,
        channels,
        serde_rename_all: None,
    }
}

fn field(name: &str, t: &TypeStructure, opt: bool) -> FieldInfo {
    field_as(name, None, t, opt)
}

fn field_as(name: &str, key: Option<&str>, t: &TypeStructure, opt: bool) -> FieldInfo {
    FieldInfo {
        name: name.to_string(),
        rust_type: rust_text(t),
        is_optional: opt,
        is_public: true,
        validator_attributes: None,
        serde_rename: key.map(|k| k.to_string()),
        type_structure: t.clone(),
    }
}

fn read_types(dir: &std::path::Path) -> String {
    std::fs::read_to_string(dir.join("types.ts")).unwrap_or_else(|e| format!("<<unreadable: {e}>>"))
}

pub fn tcase(case: &Value) -> Value {
    let t = ts_of(&case["ts"]);
    let opt = case["opt"].as_bool().unwrap_or(false);
    let with_enum = case["enum"].as_bool().unwrap_or(false);
    let mappings: Option<HashMap<String, String>> = case.get("mappings").and_then(|m| m.as_object()).map(|m| {
        m.iter().map(|(k, v)| (k.clone(), v.as_str().unwrap().to_string())).collect()
    });
    let mut cfg = GenerateConfig::default();
    cfg.type_mappings = mappings.clone();
    let mut zcfg = cfg.clone();
    zcfg.validation_library = "zod".to_string();

    let plain = TypeScriptVisitor::with_config(&cfg).visit_type(&t);
    let zv = ZodVisitor::with_config(&zcfg);
    let ziface = zv.visit_type_for_interface(&t);
    let zvisit = zv.visit_type(&t);
    let sb = ZodSchemaBuilder::new(&zcfg);
    let zfield = sb.build_schema(&t, &None);
    let zparam = sb.build_param_schema(&t);

    let mut analyzer = CommandAnalyzer::new();
    if let Some(m) = &mappings {
        analyzer.add_type_mappings(m);
    }
    // the channel context re-parses the message type text; texts the resolver does not read back
    // as the same structure (comma classes of C05: nested Result / tuples of generics) are replaced
    // by String so that this driver stays inside the feature set C10 quantifies over
    let reparsed = analyzer.get_type_resolver().borrow_mut().parse_type_structure(&rust_text(&t));
    let chan_t = if to_json(&reparsed) == to_json(&t) { t.clone() } else { TypeStructure::Primitive("string".to_string()) };
    let chan_ts = analyzer.get_type_resolver().borrow_mut().parse_type_structure(&rust_text(&chan_t));

    // optional serialised names (serde renames): [field key, parameter key, channel key, second enum literal]
    let keys: Vec<Option<String>> = (0..4)
        .map(|i| case.get("keys").and_then(|k| k.get(i)).and_then(|v| v.as_str()).map(|s| s.to_string()))
        .collect();
    let (fk, pk, ck, lit) = (keys[0].as_deref(), keys[1].as_deref(), keys[2].as_deref(), keys[3].as_deref());
    let mut structs: HashMap<String, StructInfo> = HashMap::new();
    structs.insert(
        "S".to_string(),
        StructInfo {
            name: "S".to_string(),
            fields: vec![field_as("f", fk, &t, opt)],
            file_path: "src/lib.rs".to_string(),
            is_enum: false,
            serde_rename_all: None,
        },
    );
    let mut uparams = vec![param("s", &TypeStructure::Custom("S".to_string()), false)];
    if with_enum {
        let unit = TypeStructure::Custom("enum_variant".to_string());
        structs.insert(
            "K".to_string(),
            StructInfo {
                name: "K".to_string(),
                fields: vec![field("A", &unit, false), field_as("B", lit, &unit, false)],
                file_path: "src/lib.rs".to_string(),
                is_enum: true,
                serde_rename_all: None,
            },
        );
        uparams.push(param("k", &TypeStructure::Custom("K".to_string()), false));
    }
    if case["unit"].as_bool().unwrap_or(false) {
        // a struct without serialised members (unit struct, or every field #[serde(skip)])
        structs.insert(
            "Z".to_string(),
            StructInfo {
                name: "Z".to_string(),
                fields: vec![],
                file_path: "src/lib.rs".to_string(),
                is_enum: false,
                serde_rename_all: None,
            },
        );
        uparams.push(param("z", &TypeStructure::Custom("Z".to_string()), false));
    }
    let mut commands = vec![
        command("c", vec![param_as("p", pk, &t, opt)], vec![]),
        command("d", vec![param_as("p", pk, &t, opt)], vec![channel("d", ck, &chan_t)]),
        command("e", vec![], vec![channel("e", ck, &chan_t)]),
        command("u", uparams, vec![]),
    ];
    // further commands with several parameters each: [[name, [[pname, T, opt], ..]], ..], in this order
    if let Some(extra) = case.get("extra").and_then(|e| e.as_array()) {
        for c in extra {
            let ps: Vec<ParameterInfo> = c[1]
                .as_array()
                .unwrap()
                .iter()
                .map(|p| param(p[0].as_str().unwrap(), &ts_of(&p[1]), p[2].as_bool().unwrap_or(false)))
                .collect();
            commands.push(command(c[0].as_str().unwrap(), ps, vec![]));
        }
    }

    let scratch = case["scratch"].as_str().expect("scratch dir");
    let base = std::path::Path::new(scratch).join(format!("c10-{}-{}", std::process::id(), case["id"]));
    let pdir = base.join("none");
    let zdir = base.join("zod");
    let r1 = TypeScriptBindingsGenerator::new()
        .generate_models(&commands, &structs, pdir.to_str().unwrap(), &analyzer, &cfg)
        .map_err(|e| e.to_string());
    let r2 = ZodBindingsGenerator::new()
        .generate_models(&commands, &structs, zdir.to_str().unwrap(), &analyzer, &zcfg)
        .map_err(|e| e.to_string());
    let plain_mod = read_types(&pdir);
    let zod_mod = read_types(&zdir);
    let _ = std::fs::remove_dir_all(&base);
    json!({
        "id": case["id"],
        "strings": [plain, ziface, zvisit, zfield, zparam],
        "chan_ts": to_json(&chan_ts),
        "plain_mod": plain_mod, "zod_mod": zod_mod,
        "gen": [r1.is_ok(), r2.is_ok()],
    })
}

fn main() {
    tt_harness::dispatch(&[("tcase", tcase)]);
}
