#!/bin/sh
# Offline build of the whole framework from files on disk (MANIFEST.setup_cmd).
set -e
cd "$(dirname "$0")"
export CARGO_NET_OFFLINE=true
mkdir -p build evidence replays
# Coq development: full .vo build (never -vos), then extraction + runner
( cd coq && coq_makefile -f _CoqProject $(find Model Spec Proofs Properties Extract -name '*.v' | sort) -o Makefile >/dev/null \
  && timeout 3000 make -j16 > ../build/coq-build.log 2>&1 ) || { tail -50 build/coq-build.log; exit 1; }
./runner/build.sh
# implementation side: harness linked against /repo, and the real CLI binary
cp /repo/Cargo.lock harness/Cargo.lock
( cd harness && cargo build --release --offline 2>&1 | tail -3 ) &
( RUSTFLAGS="--cfg tauri_typegen_verif" cargo build --release --offline --manifest-path /repo/Cargo.toml \
    --bin cargo-tauri-typegen --target-dir build/target-repo 2>&1 | tail -3 ) &
wait
test -x build/target/release/tt-harness
test -x build/target-repo/release/cargo-tauri-typegen
test -x build/runner/tt-runner
echo setup-ok
