#!/bin/sh
# Offline build of the whole framework from files on disk (MANIFEST.setup_cmd).
# Full .vo builds only (never -vos); cargo with --offline; nothing is fetched.
cd "$(dirname "$0")"
export CARGO_NET_OFFLINE=true GOPROXY=off PIP_NO_INDEX=1
mkdir -p build evidence replays
exec python3 -m tools.build setup
