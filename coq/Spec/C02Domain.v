(* C02: the documented type language as a decidable predicate on the project syntax
   (the premise under which the harvest / parse agreement theorems of C07 apply). Definitions only. *)
From Coq Require Import String Ascii.
From Coq Require Import List Arith Bool.
Require Import TT.Model.Str TT.Model.C07TypeParse TT.Model.C07Harvest TT.Model.Pipeline TT.Model.C02Model.
Import ListNotations.
Local Open Scope list_scope.

Fixpoint to_rty7 (t : qty) : rty :=
  match t with
  | QPath _ n _ args => RPath n (map to_rty7 args)
  | QRef u => RRef (to_rty7 u)
  | QTuple l => RTuple (map to_rty7 l)
  end.

Definition is_nil {A} (l : list A) : bool := match l with [] => true | _ => false end.
(* characters that cannot occur in a name (C07TypeParseProofs.special) *)
Definition specialc (c : ascii) : bool :=
  (Ascii.eqb c "<" || Ascii.eqb c ">" || Ascii.eqb c "(" || Ascii.eqb c ")" || Ascii.eqb c "," || is_space c || Ascii.eqb c "&"
   || Ascii.eqb c "[" || Ascii.eqb c "]")%char.
Definition ident_b (n : str) : bool := negb (is_nil n) && forallb (fun c => negb (specialc c)) n.
Local Open Scope string_scope.
Definition arity_b (n : str) (args : list rty) : bool :=
  (negb (one_of n ["Option"; "Vec"; "HashSet"; "BTreeSet"]) || (List.length args <=? 1)%nat) &&
  (negb (one_of n ["HashMap"; "BTreeMap"]) || match args with [] => true | [k; _] => negb (multi k) | _ => false end) &&
  (negb (is_name n "Result") || (List.length args <=? 2)%nat).
Local Close Scope string_scope.
(* unqualified paths, angle brackets exactly when there are arguments, names without special
   characters, container heads exactly where arguments are given, container arities *)
Fixpoint q_ok (t : qty) : bool :=
  match t with
  | QPath segs n angle args =>
      is_nil segs && Bool.eqb angle (negb (is_nil args)) && ident_b n && arity_b n (map to_rty7 args) &&
      Bool.eqb (one_of n container_heads) (negb (is_nil args)) && forallb q_ok args
  | QRef u => q_ok u
  | QTuple l => forallb q_ok l
  end.

(* every type written at a site is of that language; type names pass the harvester's final test
   (upper-case initial, no angle bracket, not a built-in); literal payload names are names *)
Definition dom (p : proj) : bool :=
  forallb q_ok (site_qtys p) &&
  forallb (fun n => custom_name n && ident_b n) (type_names p) &&
  forallb ident_b (payload_names p).
