(* C02 specification: closedness of the generated module graph, at the level of name sets.
   A parsed module is summarised ([summarise]) into what it exports, imports and mentions;
   [closed_b] decides whether every mentioned name resolves and index.ts re-exports exactly the
   files written; [nodup_b] decides that no module declares an exported name twice.
   [closed] / [exports_nodup] are the Prop-level readings (reflection lemmas in Proofs/C02Reflect.v).
   Definitions only. *)
From Coq Require Import String Ascii.
From Coq Require Import List Arith Bool.
Require Import TT.Model.Str TT.Spec.TsLex TT.Spec.TsModule TT.Spec.TsObs.
Import ListNotations.
Local Open Scope list_scope.

(* a reference: a free single name (type or value position), or a member of a namespace import *)
Inductive ref := Bare (n : str) | Qual (alias member : str).

Record msum := { ms_exports : list str;            (* declared = exported names, with repetitions *)
                 ms_imports : list str;            (* named imports and namespace aliases *)
                 ms_star : list (str * str);       (* namespace imports: alias, module specifier *)
                 ms_reexports : list str;          (* export * from <specifier> *)
                 ms_refs : list ref }.

Definition mem (n : str) (l : list str) : bool := existsb (str_eqb n) l.
Definition pair_eqb (a b : str * str) : bool := str_eqb (fst a) (fst b) && str_eqb (snd a) (snd b).
Definition memp (x : str * str) (l : list (str * str)) : bool := existsb (pair_eqb x) l.

Local Open Scope string_scope.
Definition builtin_names : list string :=
  ["string"; "number"; "boolean"; "void"; "null"; "undefined"; "unknown"; "any"; "never"; "object"; "bigint"; "symbol";
   "Record"; "Promise"; "Array"; "Map"; "Set"; "Date"].
Definition builtins : list str := map L builtin_names.
Definition types_spec : str := L "./types".
Definition commands_spec : str := L "./commands".
Definition events_spec : str := L "./events".
Local Close Scope string_scope.

(* ---------------- summary of a parsed module ---------------- *)
Definition path_ref (aliases : list str) (p : list str) : list ref :=
  match p with
  | [] => []
  | [n] => [Bare n]
  | a :: b :: _ => if mem a aliases then [Qual a b] else [Bare a]
  end.

Definition is_dot (t : tk) : bool := tk_is "." t || tk_is "?." t.
Definition is_open (t : tk) : bool := tk_is "(" t || tk_is "<" t.
(* names a function body mentions, as far as a token sequence allows: alias.member for every
   namespace alias; heads of calls  f( / f<  that are not member accesses and not keywords;
   the operand of instanceof. [prev] is the previous token. *)
Fixpoint body_refs (aliases : list str) (prev : option tk) (l : list tk) : list ref :=
  match l with
  | [] => []
  | KId a :: r =>
      let after_dot := match prev with Some p => is_dot p | None => false end in
      let after_instanceof := match prev with Some p => tk_is "instanceof" p | None => false end in
      let here :=
        if after_dot then []
        else if mem a aliases then
          match r with d :: KId b :: _ => if is_dot d then [Qual a b] else [Bare a] | _ => [Bare a] end
        else if after_instanceof then [Bare a]
        else if is_reserved a then []
        else match r with o :: _ => if is_open o then [Bare a] else [] | [] => [] end in
      here ++ body_refs aliases (Some (KId a)) r
  | t :: r => body_refs aliases (Some t) r
  end.

Definition ref_is_bound (bound : list str) (r : ref) : bool :=
  match r with Bare n => mem n bound | Qual _ _ => false end.

Definition item_refs (aliases : list str) (it : item) : list ref :=
  flat_map (path_ref aliases) (item_ty_refs it ++ item_typeofs it) ++
  map Bare (item_value_refs it) ++
  match it with
  | IFunction _ _ ps _ body =>
      filter (fun r => negb (ref_is_bound (map (fun p => fst (fst p)) ps) r)) (body_refs aliases None body)
  | _ => [] end.

Definition summarise (m : list item) : msum :=
  let aliases := map fst (star_imports m) in
  {| ms_exports := exports m; ms_imports := imported_names m; ms_star := star_imports m;
     ms_reexports := reexports m; ms_refs := flat_map (item_refs aliases) m |}.

(* ---------------- the four files of one run ---------------- *)
Inductive fobs := Absent | Unparsed | Parsed (m : msum).
Record files := { f_types : fobs; f_commands : fobs; f_events : fobs; f_index : fobs }.

Definition read_file (o : option str) : fobs :=
  match o with
  | None => Absent
  | Some s => match parse_module s with Some m => Parsed (summarise m) | None => Unparsed end
  end.

(* ---------------- resolution ---------------- *)
(* tex: the names types.ts exports *)
Definition resolves_b (tex : list str) (m : msum) (r : ref) : bool :=
  match r with
  | Bare n => mem n (ms_exports m) || mem n (ms_imports m) || mem n builtins
  | Qual a x => memp (a, types_spec) (ms_star m) && mem x tex
  end.
Definition unresolved (tex : list str) (m : msum) : list ref := filter (fun r => negb (resolves_b tex m r)) (ms_refs m).
Definition module_closed_b (tex : list str) (m : msum) : bool := forallb (resolves_b tex m) (ms_refs m).

Definition written (fs : files) : list str :=
  (match f_types fs with Absent => [] | _ => [types_spec] end) ++
  (match f_commands fs with Absent => [] | _ => [commands_spec] end) ++
  (match f_events fs with Absent => [] | _ => [events_spec] end).
Definition incl_b (a b : list str) : bool := forallb (fun x => mem x b) a.
Definition index_exact_b (fs : files) (mi : msum) : bool :=
  incl_b (ms_reexports mi) (written fs) && incl_b (written fs) (ms_reexports mi) && negb (has_dup (ms_reexports mi)).

Definition closed_b (fs : files) : bool :=
  match f_types fs, f_commands fs, f_index fs with
  | Parsed mt, Parsed mc, Parsed mi =>
      let tex := ms_exports mt in
      module_closed_b tex mt && module_closed_b tex mc && module_closed_b tex mi &&
      match f_events fs with Absent => true | Unparsed => false | Parsed me => module_closed_b tex me end &&
      index_exact_b fs mi
  | _, _, _ => false
  end.

Definition fobs_nodup_b (f : fobs) : bool := match f with Parsed m => negb (has_dup (ms_exports m)) | _ => true end.
Definition nodup_b (fs : files) : bool :=
  fobs_nodup_b (f_types fs) && fobs_nodup_b (f_commands fs) && fobs_nodup_b (f_events fs) && fobs_nodup_b (f_index fs).

Definition c02_ok (fs : files) : bool := closed_b fs && nodup_b fs.

(* ---------------- Prop-level reading ---------------- *)
Definition resolves (tex : list str) (m : msum) (r : ref) : Prop :=
  match r with
  | Bare n => In n (ms_exports m) \/ In n (ms_imports m) \/ In n builtins
  | Qual a x => In (a, types_spec) (ms_star m) /\ In x tex
  end.
Definition module_closed (tex : list str) (m : msum) : Prop := forall r, In r (ms_refs m) -> resolves tex m r.
Definition index_exact (fs : files) (mi : msum) : Prop :=
  (forall s, In s (ms_reexports mi) <-> In s (written fs)) /\ NoDup (ms_reexports mi).
Definition closed (fs : files) : Prop :=
  exists mt mc mi,
    f_types fs = Parsed mt /\ f_commands fs = Parsed mc /\ f_index fs = Parsed mi /\
    module_closed (ms_exports mt) mt /\ module_closed (ms_exports mt) mc /\ module_closed (ms_exports mt) mi /\
    (f_events fs = Absent \/ exists me, f_events fs = Parsed me /\ module_closed (ms_exports mt) me) /\
    index_exact fs mi.
Definition fobs_nodup (f : fobs) : Prop := match f with Parsed m => NoDup (ms_exports m) | _ => True end.
Definition exports_nodup (fs : files) : Prop :=
  fobs_nodup (f_types fs) /\ fobs_nodup (f_commands fs) /\ fobs_nodup (f_events fs) /\ fobs_nodup (f_index fs).

(* ---------------- observations that the property text does not cover (reported, not judged) ---------------- *)
(* a name exported by two of the modules index.ts re-exports with export * : TypeScript reports
   the second re-export as ambiguous (TS2308) *)
Definition fobs_exports (f : fobs) : list str := match f with Parsed m => ms_exports m | _ => [] end.
Definition common (a b : list str) : list str := filter (fun x => mem x b) a.
Definition index_ambiguous (fs : files) : list str :=
  common (fobs_exports (f_types fs)) (fobs_exports (f_commands fs)) ++
  common (fobs_exports (f_types fs)) (fobs_exports (f_events fs)) ++
  common (fobs_exports (f_commands fs)) (fobs_exports (f_events fs)).
(* a name both imported and declared in one module *)
Definition import_decl_conflicts (f : fobs) : list str :=
  match f with Parsed m => common (ms_exports m) (ms_imports m) | _ => [] end.
