(* Specification lexer for the TypeScript the tool emits (tokens only; comments and white space vanish) *)
From Coq Require Import String Ascii.
From Coq Require Import List Arith Lia Bool.
Require Import TT.Model.Str.
Import ListNotations.
Local Open Scope char_scope.
Local Open Scope list_scope.

Inductive tk :=
| KId (s : str)                      (* identifier or keyword *)
| KStr (q : ascii) (body : str)      (* string literal: quote and raw body (escapes not decoded) *)
| KNum (s : str)
| KTpl (body : str)                  (* template literal without substitutions *)
| KP (s : str)                       (* punctuator *)
| KErr (what : str).

Definition n_of (c : ascii) : nat := nat_of_ascii c.
Definition is_ws (c : ascii) : bool := let n := n_of c in ((n =? 32) || (n =? 9) || (n =? 10) || (n =? 13))%nat.
Definition is_digit (c : ascii) : bool := let n := n_of c in ((48 <=? n) && (n <=? 57))%nat.
Definition is_id_start (c : ascii) : bool :=
  let n := n_of c in (((65 <=? n) && (n <=? 90)) || ((97 <=? n) && (n <=? 122)) || (n =? 95) || (n =? 36) || (128 <=? n))%nat.
Definition is_id_char (c : ascii) : bool := is_id_start c || is_digit c.
Definition is_num_char (c : ascii) : bool := is_id_char c || Ascii.eqb c ".".

Fixpoint span (p : ascii -> bool) (s : str) : str * str :=
  match s with
  | c :: r => if p c then let '(a, b) := span p r in (c :: a, b) else ([], s)
  | [] => ([], [])
  end.
Fixpoint skip_line (s : str) : str := match s with [] => [] | c :: r => if (n_of c =? 10)%nat then r else skip_line r end.
Fixpoint skip_block (s : str) : option str :=
  match s with
  | "*" :: (("/" :: r) as t) => Some r
  | _ :: r => skip_block r
  | [] => None
  end.
(* body of a quoted literal: stops at the matching quote, rejects a raw newline, keeps escapes *)
Fixpoint scan_str (q : ascii) (s : str) (acc : str) : option (str * str) :=
  match s with
  | [] => None
  | c :: r =>
      if Ascii.eqb c q then Some (rev acc, r)
      else if (n_of c =? 10)%nat then None
      else if Ascii.eqb c "\" then match r with e :: r' => scan_str q r' (e :: c :: acc) | [] => None end
      else scan_str q r (c :: acc)
  end.
Fixpoint scan_tpl (s : str) (acc : str) : option (str * str) :=
  match s with
  | [] => None
  | c :: r =>
      if Ascii.eqb c "`" then Some (rev acc, r)
      else if Ascii.eqb c "\" then match r with e :: r' => scan_tpl r' (e :: c :: acc) | [] => None end
      else scan_tpl r (c :: acc)
  end.

Local Open Scope string_scope.
Definition puncts3 : list string := ["..."; "==="; "!=="; "**="; "<<="; ">>="].
Definition puncts2 : list string := ["=>"; "?."; "=="; "!="; "&&"; "||"; "??"; "<="; ">="; "++"; "--"; "+="; "-="; "*="; "/="; "**"].
Definition puncts1 : string := "{}()[]<>;:,.?=+-*/!&|~%^@#".
Local Close Scope string_scope.
Definition try_punct (s : str) : option (str * str) :=
  match find (fun p => starts (L p) s) puncts3 with
  | Some p => Some (L p, skipn 3 s)
  | None =>
    match find (fun p => starts (L p) s) puncts2 with
    | Some p => Some (L p, skipn 2 s)
    | None => match s with
              | c :: r => if existsb (Ascii.eqb c) (L puncts1) then Some ([c], r) else None
              | [] => None
              end
    end
  end.

Fixpoint lexm (fuel : nat) (s : str) : list tk :=
  match fuel with
  | 0 => [KErr (L "fuel")]
  | S f =>
    match s with
    | [] => []
    | c :: r =>
      if is_ws c then lexm f r
      else if Ascii.eqb c "/" && starts (L "/") r then lexm f (skip_line r)
      else if Ascii.eqb c "/" && starts (L "*") r then
        match skip_block (skipn 1 r) with Some r' => lexm f r' | None => [KErr (L "unterminated comment")] end
      else if is_id_start c then let '(id, r') := span is_id_char s in KId id :: lexm f r'
      else if is_digit c then let '(n, r') := span is_num_char s in KNum n :: lexm f r'
      else if Ascii.eqb c """" || Ascii.eqb c "'" then
        match scan_str c r [] with Some (b, r') => KStr c b :: lexm f r' | None => [KErr (L "unterminated string")] end
      else if Ascii.eqb c "`" then
        match scan_tpl r [] with Some (b, r') => KTpl b :: lexm f r' | None => [KErr (L "unterminated template")] end
      else match try_punct s with
           | Some (p, r') => KP p :: lexm f r'
           | None => [KErr [c]]
           end
    end
  end.
Definition lex_module (s : str) : list tk := lexm (S (List.length s)) s.
Definition has_err (l : list tk) : bool := existsb (fun t => match t with KErr _ => true | _ => false end) l.

