(* C09: correspondence of the whole list of constants of the Zod-mode types.ts with Model/C09Module.v. *)
From Coq Require Import String Ascii.
From Coq Require Import List Arith Bool.
Require Import TT.Model.Str TT.Model.C07TypeParse TT.Model.C07Harvest TT.Model.C07Reach.
Require Import TT.Spec.TsObs TT.Spec.C07Spec TT.Spec.C09Spec TT.Model.C09Module.
Import ListNotations.

(* identifiers of a right-hand side that name a constant of the module (z is not one) *)
Definition module_refs (names : list str) (refs : list str) : list str := filter (fun x => smemb x names) (dedup refs).
(* the observed constants (names in order, references of each) are those of the model run under the orders
   reconstructed from the observed order of the struct schemas *)
Definition c09_module_corr (m : list (str * str)) (p : project) (text : str) : bool :=
  let '(cs, _) := observe_consts text in
  let structs := map (fun c => strip_schema (fst c))
                     (filter (fun c => ends_in "Schema" (fst c) && negb (is_params (fst c))) cs) in
  match zod_consts_m m (o_obs structs) p with
  | Some ms =>
      let names := map fst ms in
      (if list_eq_dec str_dec (map fst cs) names then true else false)
      && forallb (fun pr => same_set_b (module_refs names (snd (fst pr))) (module_refs names (snd (snd pr)))) (combine cs ms)
  | None => false
  end.
