(* C09: observation of the Zod-mode types.ts (order of constants, identifiers each right-hand side
   mentions), the predicate decl_before_use, the model's schema references, the fed-back order and
   the known class. Definitions only. *)
From Coq Require Import String Ascii.
From Coq Require Import List Arith Bool.
Require Import TT.Model.Base TT.Model.Str TT.Model.C07TypeParse TT.Model.C07Harvest TT.Model.C07Worklist TT.Model.C07Reach.
Require Import TT.Spec.TsLex TT.Spec.TsModule TT.Spec.TsObs TT.Spec.C07Spec.
Import ListNotations.
Local Open Scope list_scope.

(* ---------------- observation ---------------- *)
(* token level: each top-level  export const N = ... ;  with the identifiers of its right-hand side
   (up to the next top-level export); used when the module does not parse *)
Fixpoint rhs_ids (depth : nat) (l : list tk) : list str * list tk :=
  match l with
  | [] => ([], [])
  | t :: r =>
    match t with
    | KP s => if kp_in s ["{"; "("; "["]%string then let '(a, b) := rhs_ids (S depth) r in (a, b)
              else if kp_in s ["}"; ")"; "]"]%string then let '(a, b) := rhs_ids (pred depth) r in (a, b)
              else rhs_ids depth r
    | KId e => if Nat.eqb depth 0 && str_eqb e (L "export") then ([], l)
               else let '(a, b) := rhs_ids depth r in (e :: a, b)
    | _ => rhs_ids depth r
    end
  end.
Fixpoint scan_consts (fuel : nat) (l : list tk) : list (str * list str) :=
  match fuel with
  | 0 => []
  | S f =>
    match l with
    | KId e :: KId k :: KId n :: r =>
        if str_eqb e (L "export") then
          let '(ids, rest) := rhs_ids 0 r in
          (if str_eqb k (L "const") then [(n, ids)] else []) ++ scan_consts f rest
        else scan_consts f (KId k :: KId n :: r)
    | _ :: r => scan_consts f r
    | [] => []
    end
  end.
(* parse level (precise: member names and object keys are not references) *)
Definition parsed_consts (m : list item) : list (str * list str) :=
  flat_map (fun it => match it with IConst n _ => [(n, item_value_refs it)] | _ => [] end) m.
Definition observe_consts (text : str) : list (str * list str) * bool :=
  match parse_module text with
  | Some m => (parsed_consts m, true)
  | None => let l := lex_module text in (scan_consts (S (List.length l)) l, false)
  end.

(* ---------------- the predicate ---------------- *)
(* every identifier of the k-th right-hand side that names a constant of the module names one declared
   at an index < k; every ..ParamsSchema constant follows every other schema constant *)
Fixpoint dbu_go (all_names seen : list str) (cs : list (str * list str)) : bool :=
  match cs with
  | [] => true
  | (n, refs) :: r =>
      forallb (fun x => negb (smemb x all_names) || smemb x seen) refs && dbu_go all_names (n :: seen) r
  end.
Definition is_params (n : str) : bool := ends_in "ParamsSchema" n.
Fixpoint params_last (seen_params : bool) (cs : list (str * list str)) : bool :=
  match cs with
  | [] => true
  | (n, _) :: r => if is_params n then params_last true r else negb seen_params && params_last seen_params r
  end.
Definition decl_before_use (cs : list (str * list str)) : bool :=
  dbu_go (map fst cs) [] cs && params_last false cs.

(* ---------------- model side ---------------- *)
Definition schema_name (n : str) : str := n ++ L "Schema".
(* identifiers the rendered schema of a struct mentions: one per custom name of its field structures *)
Definition schema_refs (p : project) (n : str) : list str := concat (raw_fields_ts p n).
(* iteration orders reconstructed from the order of declarations observed in the output: every set is
   iterated in that order (elements not in the output last) *)
Definition o_obs (seen : list str) : orders :=
  fun _ _ l => filter (fun x => smemb x l) seen ++ filter (fun x => negb (smemb x seen)) (dedup l).
(* the defined-name part of the recorded dependencies covers every schema reference *)
Definition edges_recorded_b (p : project) : bool :=
  forallb (fun n => forallb (fun v => negb (resolvable p v) || smemb v (deps_of p n)) (schema_refs p n)) (dnames p).
(* the orders of the repaired tool (sort before use): every collection is iterated in the byte order of
   Rust's String comparison *)
Fixpoint str_leb (a b : str) : bool :=
  match a, b with
  | [], _ => true
  | _ :: _, [] => false
  | x :: a', y :: b' => if Nat.ltb (nat_of_ascii x) (nat_of_ascii y) then true
                        else if Nat.ltb (nat_of_ascii y) (nat_of_ascii x) then false else str_leb a' b'
  end.
Fixpoint insert_str (x : str) (l : list str) : list str :=
  match l with [] => [x] | y :: r => if str_leb x y then x :: l else y :: insert_str x r end.
Definition sort_str (l : list str) : list str := fold_right insert_str [] l.
Definition o_sorted : orders := fun _ _ l => sort_str (dedup l).

Record c09obs := { c_structs : list str;                (* X for each constant XSchema that is not a ParamsSchema, in order *)
                   c_refs : list (str * list str);      (* per such X: the Y with YSchema mentioned and declared in the module *)
                   c_ok : bool; c_parsed : bool }.
Definition strip_schema (n : str) : str := drop_suffix "Schema" n.
Definition observe_zod_order (text : str) : c09obs :=
  let '(cs, parsed) := observe_consts text in
  let names := map fst cs in
  let structs := filter (fun c => ends_in "Schema" (fst c) && negb (is_params (fst c))) cs in
  {| c_structs := map (fun c => strip_schema (fst c)) structs;
     c_refs := map (fun c => (strip_schema (fst c),
                              map strip_schema (filter (fun x => smemb x names && negb (str_eqb x (L "z"))) (dedup (snd c))))) structs;
     c_ok := decl_before_use cs; c_parsed := parsed |}.

(* config.type_mappings: a mapped name is rendered as its mapping (visit_custom), so the schema of a field no longer
   mentions the mapped type's schema; discovery, selection and order do not look at the mappings *)
Definition is_mapped (m : list (str * str)) (n : str) : bool := existsb (fun kv => str_eqb (fst kv) n) m.
Definition schema_refs_m (m : list (str * str)) (p : project) (n : str) : list str :=
  filter (fun x => negb (is_mapped m x)) (schema_refs p n).

(* correspondence: the model, run under the orders reconstructed from the output, emits the same list,
   and each schema mentions the declared schemas the model says it mentions *)
(* since the sort-before-use repair the emitted order is the one of the model under o_sorted *)
Definition c09_sorted_order (p : project) (ob : c09obs) : bool :=
  match emitted_zod o_sorted p with
  | Some out => if list_eq_dec str_dec out (c_structs ob) then true else false
  | None => false end.
Definition c09_corr (m : list (str * str)) (p : project) (ob : c09obs) : bool :=
  match emitted_zod (o_obs (c_structs ob)) p with
  | Some out =>
      (if list_eq_dec str_dec out (c_structs ob) then true else false)
      && forallb (fun r => same_set_b (snd r) (filter (fun v => smemb v out) (schema_refs_m m p (fst r)))) (c_refs ob)
  | None => false
  end.

(* the type dependency graph of the property text: serde types and the serde types their fields mention *)
Definition spec_names (p : project) : list str := map d_name (filter serde_def (spec_defs p)).
Definition spec_graph (p : project) : Topo.graph str := map (fun n => (n, spec_edges p n)) (spec_names p).
