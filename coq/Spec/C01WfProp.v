(* C01: Prop-level specification of the token part of wf_module_b (Spec/C01Wf.v): what a well-formed body of a quoted
   literal IS, as an inductive grammar, and the Prop-level module predicate built on it. Definitions only; the
   reflection lemmas (boolean oracle = this specification) are in Proofs/C01Reflect.v.
     body    ::= empty | plain body | escape body
     plain   ::= any character except LF, CR, the quote in force and the backslash
     escape  ::= \x hex hex | \u hex hex hex hex | \u{ (the brace and what follows are read as plain text: digits are
                 checked loosely, at least three more characters must follow the brace)
               | \0 not followed by a digit | \ followed by any character that is not x, u, a digit, LF or CR *)
From Coq Require Import String Ascii.
From Coq Require Import List Arith Bool NArith.
Require Import TT.Model.Str TT.Spec.TsLex TT.Spec.TsModule TT.Spec.TsObs TT.Spec.C01Wf.
Import ListNotations.
Local Open Scope list_scope.
Local Open Scope char_scope.

Definition BS : ascii := "\".
Definition no_digit_next (r : str) : Prop := match r with d :: _ => is_digit d = false | [] => True end.

Inductive StrBody (q : ascii) : str -> Prop :=
| SB_nil : StrBody q []
| SB_plain c r : is_line_term c = false -> c <> q -> c <> BS -> StrBody q r -> StrBody q (c :: r)
| SB_hex h1 h2 r : BS <> q -> is_hex h1 = true -> is_hex h2 = true -> StrBody q r -> StrBody q (BS :: "x" :: h1 :: h2 :: r)
| SB_u4 h1 h2 h3 h4 r : BS <> q -> h1 <> "{" -> is_hex h1 = true -> is_hex h2 = true -> is_hex h3 = true -> is_hex h4 = true ->
    StrBody q r -> StrBody q (BS :: "u" :: h1 :: h2 :: h3 :: h4 :: r)
| SB_ubrace h2 h3 h4 r : BS <> q -> StrBody q ("{" :: h2 :: h3 :: h4 :: r) -> StrBody q (BS :: "u" :: "{" :: h2 :: h3 :: h4 :: r)
| SB_zero r : BS <> q -> no_digit_next r -> StrBody q r -> StrBody q (BS :: "0" :: r)
| SB_simple e r : BS <> q -> e <> "x" -> e <> "u" -> is_digit e = false -> is_line_term e = false ->
    StrBody q r -> StrBody q (BS :: e :: r).

(* tokens *)
Definition TokOk (t : tk) : Prop :=
  match t with
  | KStr q b => StrBody q b
  | KNum s => num_ok s = true
  | KErr _ => False
  | _ => True
  end.

(* items: the declared name is a binding name, every part is well formed (the parts stay boolean: ty_ok, ex_ok, body_ok) *)
Definition ItemOk (it : item) : Prop :=
  match it with
  | IImport _ names star _ => Forall (fun n => is_binding_name (snd n) = true) names /\ (match star with Some a => is_binding_name a = true | None => True end)
  | IExportStar _ => True
  | IInterface n tps ext ms ix =>
      is_binding_name n = true /\ Forall (fun p => is_binding_name p = true) tps /\ (match ext with Some t => ty_ok t = true | None => True end) /\
      Forall (fun m => key_ok (fst (fst m)) = true /\ ty_ok (snd m) = true) ms /\
      Forall (fun i => is_binding_name (fst (fst i)) = true /\ ty_ok (snd (fst i)) = true /\ ty_ok (snd i) = true) ix
  | ITypeAlias n tps t => is_binding_name n = true /\ Forall (fun p => is_binding_name p = true) tps /\ ty_ok t = true
  | IConst n e => is_binding_name n = true /\ ex_ok e = true
  | IFunction _ n ps r body =>
      is_binding_name n = true /\ Forall (fun p => is_binding_name (fst (fst p)) = true /\ ty_ok (snd p) = true) ps /\
      (match r with Some t => ty_ok t = true | None => True end) /\ body_ok body = true
  end.

Definition WfModule (m : list item) (toks : list tk) : Prop := Forall TokOk toks /\ Forall ItemOk m.

(* ---------------- types: the Prop-level counterpart of ty_ok ---------------- *)
Inductive TyOk : ty -> Prop :=
| TO_ref p args : path_ok p = true -> Forall TyOk args -> TyOk (TyRef p args)
| TO_arr t : TyOk t -> TyOk (TyArr t)
| TO_tuple ts : Forall TyOk ts -> TyOk (TyTuple ts)
| TO_union ts : Forall TyOk ts -> TyOk (TyUnion ts)
| TO_lit s : TyOk (TyLit s)
| TO_typeof p : path_ok p = true -> TyOk (TyTypeof p)
| TO_fun ps r : Forall (fun p : str * bool * ty => is_binding_name (fst (fst p)) = true /\ TyOk (snd p)) ps -> TyOk r -> TyOk (TyFun ps r)
| TO_obj ms ix : Forall (fun m : key * bool * ty => key_ok (fst (fst m)) = true /\ TyOk (snd m)) ms ->
                 Forall (fun i : str * ty * ty => is_binding_name (fst (fst i)) = true /\ TyOk (snd (fst i)) /\ TyOk (snd i)) ix -> TyOk (TyObj ms ix).
Fixpoint tsize (t : ty) : nat :=
  match t with
  | TyRef _ args => S (list_sum (map tsize args))
  | TyArr t => S (tsize t)
  | TyTuple ts | TyUnion ts => S (list_sum (map tsize ts))
  | TyLit _ | TyTypeof _ => 1
  | TyFun ps r => S (list_sum (map (fun p : str * bool * ty => tsize (snd p)) ps) + tsize r)
  | TyObj ms ix => S (list_sum (map (fun m : key * bool * ty => tsize (snd m)) ms) +
                      list_sum (map (fun i : str * ty * ty => tsize (snd (fst i)) + tsize (snd i)) ix))
  end.
