(* C01: ECMAScript line terminators the shared specification lexer (Spec/TsLex.v) does not know.
   LineTerminator = LF, CR, U+2028 LINE SEPARATOR (UTF-8 E2 80 A8), U+2029 PARAGRAPH SEPARATOR (E2 80 A9).
   The shared lexer ends a line comment at LF only. [ls_norm] rewrites a file text so that the shared lexer sees what
   ECMAScript says: outside string / template literals and block comments every U+2028 / U+2029 becomes LF (in code it
   is a line break, in a line comment it ENDS the comment), and a CR inside a line comment becomes LF. Inside string and
   template literals the two characters stay (legal there since ES2019); inside block comments they are inert.
   The run-time oracle of the check is c01_ok (ls_norm text). Definitions only. *)
From Coq Require Import String Ascii List Arith Bool.
Require Import TT.Model.Str TT.Spec.TsLex.
Import ListNotations.
Local Open Scope list_scope.
Local Open Scope char_scope.

Inductive lstate := LCode | LLine | LBlock | LStr (q : ascii) | LTpl.
Definition LF : ascii := ascii_of_nat 10.
Definition b_e2 (c : ascii) : bool := (n_of c =? 226)%nat.
Definition b_80 (c : ascii) : bool := (n_of c =? 128)%nat.
Definition b_a8a9 (c : ascii) : bool := ((n_of c =? 168) || (n_of c =? 169))%nat.

Fixpoint ls_go (st : lstate) (s : str) : str :=
  match s with
  | [] => []
  | c :: r =>
    match st with
    | LCode =>
        match r with
        | d :: r' =>
            if Ascii.eqb c "/" && Ascii.eqb d "/" then c :: d :: ls_go LLine r'
            else if Ascii.eqb c "/" && Ascii.eqb d "*" then c :: d :: ls_go LBlock r'
            else if b_e2 c && b_80 d then
              match r' with
              | e :: r'' => if b_a8a9 e then LF :: ls_go LCode r'' else c :: ls_go LCode r
              | [] => c :: ls_go LCode r end
            else if Ascii.eqb c """" || Ascii.eqb c "'" then c :: ls_go (LStr c) r
            else if Ascii.eqb c "`" then c :: ls_go LTpl r
            else c :: ls_go LCode r
        | [] => [c] end
    | LLine =>
        if (n_of c =? 10)%nat || (n_of c =? 13)%nat then LF :: ls_go LCode r
        else match r with
             | d :: e :: r'' => if b_e2 c && b_80 d && b_a8a9 e then LF :: ls_go LCode r'' else c :: ls_go LLine r
             | _ => c :: ls_go LLine r end
    | LBlock =>
        match r with
        | d :: r' => if Ascii.eqb c "*" && Ascii.eqb d "/" then c :: d :: ls_go LCode r' else c :: ls_go LBlock r
        | [] => [c] end
    | LStr q =>
        if Ascii.eqb c "\" then match r with e :: r' => c :: e :: ls_go (LStr q) r' | [] => [c] end
        else if Ascii.eqb c q || (n_of c =? 10)%nat then c :: ls_go LCode r
        else c :: ls_go (LStr q) r
    | LTpl =>
        if Ascii.eqb c "\" then match r with e :: r' => c :: e :: ls_go LTpl r' | [] => [c] end
        else if Ascii.eqb c "`" then c :: ls_go LCode r
        else c :: ls_go LTpl r
    end
  end.
Definition ls_norm (s : str) : str := ls_go LCode s.
