(* C04 - specification: which keys Tauri deserialises for a command, stated independently of the
   generator. Naming: tauri-macros turns each argument identifier into lowerCamelCase with
   heck (split on underscores, drop empty words, capitalise every word but the first), or leaves
   it alone under rename_all = snake_case; the configured default_parameter_case stands for
   serde's rename rule of that name. Kinds: the property text's list of injected parameters
   in every accepted spelling, channels, everything else is a value. *)
From Coq Require Import String Ascii.
From Coq Require Import List Arith Bool NArith.
Require Import TT.Model.Str TT.Model.C04Case TT.Model.C04Model.
Import ListNotations.
Local Open Scope list_scope.
Local Open Scope char_scope.

(* ---- Tauri's naming rule ---- *)
Fixpoint words_go (cur : str) (s : str) : list str :=
  match s with
  | [] => match cur with [] => [] | _ => [rev cur] end
  | c :: s' => if is_us c then match cur with [] => words_go [] s' | _ => rev cur :: words_go [] s' end
               else words_go (c :: cur) s'
  end.
Definition words (s : str) : list str := words_go [] s.
Definition capw (w : str) : str := match w with [] => [] | c :: r => upper c :: r end.
Definition tauri_camel (s : str) : str :=
  match words s with [] => [] | w :: ws => w ++ concat (map capw ws) end.

(* under rename_all = snake_case tauri-macros applies heck's snake_case: the words joined by one underscore *)
Definition tauri_snake (s : str) : str := join [ "_"%char ] (words s).

Definition is_digit_c (c : ascii) : bool := (48 <=? N_of_ascii c)%N && (N_of_ascii c <=? 57)%N.
Definition snake_char (c : ascii) : bool := is_us c || is_lower c || is_digit_c c.
(* a Rust parameter name of the quantifier: over [a-z0-9_], not starting with a digit *)
Definition snake_name (s : str) : bool :=
  forallb snake_char s && match s with c :: _ => negb (is_digit_c c) | [] => false end.
Definition has_letter (s : str) : bool := existsb (fun c => negb (is_us c)) s.

(* the name a rule gives to a snake_case identifier *)
Definition spec_name (r : rule) (s : str) : str :=
  match r with
  | RCamel => tauri_camel s
  | RPascal => concat (map capw (words s))
  | RSnake | RLower => s
  | RScreamingSnake | RUpper => map upper s
  | RKebab => map us_to_dash s
  | RScreamingKebab => map us_to_dash (map upper s)
  end.

Definition rule_eqb (a b : rule) : bool :=
  match a, b with
  | RLower, RLower | RUpper, RUpper | RPascal, RPascal | RCamel, RCamel | RSnake, RSnake
  | RScreamingSnake, RScreamingSnake | RKebab, RKebab | RScreamingKebab, RScreamingKebab => true
  | _, _ => false
  end.

(* the key Tauri deserialises for a parameter name: what the command attribute's rename_all says
   (heck's lowerCamelCase / snake_case), else the configured case *)
Local Open Scope string_scope.
Definition spec_key (cf : cfg) (c : cmd) (name : str) : str :=
  match c_macro_case c with
  | Some s => if str_eqb s (L "snake_case") then tauri_snake name
              else if str_eqb s (L "camelCase") then tauri_camel name else spec_name (configured cf) name
  | None => spec_name (configured cf) name
  end.
Local Close Scope string_scope.

(* ---- kinds of parameters ---- *)
Inductive kind := KInjected | KChannel | KValue.
Definition pre_root (pre : list stag) : bool := match pre with [] | [STauri] => true | _ => false end.
Definition pre_ipc (pre : list stag) : bool := match pre with [] | [SIpc] | [STauri; SIpc] => true | _ => false end.
Definition has_type_arg (a : option (list garg)) : bool :=
  match a with Some l => existsb (fun g => match g with GType => true | GLife => false end) l | None => false end.
Definition spec_kind (t : aty) : kind :=
  match t with
  | AOther => KValue
  | APath pre n args =>
      match n with
      | NAppHandle | NWindow | NWebviewWindow => if pre_root pre then KInjected else KValue
      | NState => if pre_root pre && has_type_arg args then KInjected else KValue
      | NRequest => if pre_ipc pre then KInjected else KValue
      | NChannel => if pre_ipc pre && first_is_type args then KChannel else KValue
      | _ => KValue
      end
  end.
Definition spec_opt (t : aty) : bool := match t with APath _ NOption _ => true | _ => false end.

(* the name tauri-macros starts from (wrapper.rs parse_arg): the identifier; the empty string for the wildcard;
   for a struct / tuple-struct pattern the identifier of the pattern's path - carried in p_name in snake form *)
Definition spec_pname (p : param) : str := match p_pat p with PatWild => [] | _ => p_name p end.
Definition spec_entry (cf : cfg) (c : cmd) (p : param) : list (str * bool) :=
  match spec_kind (p_ty p) with
  | KInjected => []
  | KChannel => [(spec_key cf c (spec_pname p), false)]
  | KValue => [(spec_key cf c (spec_pname p), spec_opt (p_ty p))]
  end.
(* one (key, omittable) pair per parameter Tauri fills from the frontend, in parameter order *)
Definition spec_keys (cf : cfg) (c : cmd) : list (str * bool) := flat_map (spec_entry cf c) (c_params c).
Definition spec_value_keys (cf : cfg) (c : cmd) : list str :=
  flat_map (fun p => match spec_kind (p_ty p) with KValue => [spec_key cf c (spec_pname p)] | _ => [] end) (c_params c).
Definition spec_chan_keys (cf : cfg) (c : cmd) : list str :=
  flat_map (fun p => match spec_kind (p_ty p) with KChannel => [spec_key cf c (spec_pname p)] | _ => [] end) (c_params c).

(* ---- the inputs the quantifier speaks about ---- *)
Definition args_sane (a : option (list garg)) : bool := match a with Some [] => false | _ => true end.
Definition is_none {A} (a : option A) : bool := match a with None => true | Some _ => false end.
Definition is_nil {A} (l : list A) : bool := match l with [] => true | _ => false end.
Definition ty_dom (t : aty) : bool :=
  match t with
  | AOther => true
  | APath pre n args =>
      args_sane args &&
      match n with
      | NAppHandle | NWindow | NWebviewWindow => pre_root pre
      | NState => pre_root pre && (has_type_arg args || (is_nil pre && is_none args))
      (* Request not fully qualified must carry its lifetime (Request<'_>): without it the spelling cannot be
         told from a user type of that name, and the theorems do not speak about it *)
      | NRequest => pre_ipc pre && (args_life_only args || match pre with [STauri; SIpc] => true | _ => false end)
      | NChannel => pre_ipc pre && (first_is_type args || (is_nil pre && is_none args))
      | NManager => negb (match pre with [STauri] => true | _ => false end)
      | NOption | NOther => true
      end
  end.
Definition cmd_dom (c : cmd) : bool :=
  snake_name (c_name c) && has_letter (c_name c) &&
  forallb (fun p => snake_name (p_name p) && ty_dom (p_ty p)) (c_params c).
(* a project of the quantifier: every function (command or helper) is well formed and top-level names are
   unique within a file (Rust rejects duplicates); names may repeat across files and overlap freely *)
Fixpoint nodup_str (l : list str) : bool :=
  match l with [] => true | x :: r => negb (existsb (str_eqb x) r) && nodup_str r end.
Definition file_dom (f : file) : bool :=
  nodup_str (map (fun g => c_name (f_cmd g)) f) && forallb (fun g => cmd_dom (f_cmd g)) f.
Definition project_dom (p : project) : bool := forallb file_dom p.
Definition cfg_dom (cf : cfg) : bool := match rule_of_str (default_case cf) with Some _ => true | None => false end.

(* ---- classes of recorded defects (narrow; premises of the main theorems, and the run-time matcher) ---- *)
Definition ty_bare_window (t : aty) : bool := match t with APath [] NWindow None => true | _ => false end.
Definition kf_bare_window (c : cmd) : bool := existsb (fun p => ty_bare_window (p_ty p)) (c_params c).
Definition named_by_tauri (p : param) : bool := match spec_kind (p_ty p) with KInjected => false | _ => true end.
(* the command attribute selects a case that names some key differently from the configured case *)
Definition kf_macro_case (cf : cfg) (c : cmd) : bool :=
  existsb (fun p => named_by_tauri p &&
                    negb (str_eqb (spec_key cf c (spec_pname p)) (spec_name (configured cf) (spec_pname p)))) (c_params c).
(* camelCase is what Tauri applies and a parameter that gets a key is named with underscores only:
   Tauri's key is the empty string, the generator (since the call-site guard) emits the name itself *)
Definition kf_underscore_name (cf : cfg) (c : cmd) : bool :=
  rule_eqb (configured cf) RCamel &&
  existsb (fun p => named_by_tauri p && negb (has_letter (p_name p))) (c_params c).
(* a parameter Tauri fills from the frontend that is not bound by a plain identifier *)
Definition kf_pattern (c : cmd) : bool := existsb (fun p => negb (bound p) && named_by_tauri p) (c_params c).
Definition kf_any (cf : cfg) (c : cmd) : bool :=
  kf_bare_window c || kf_macro_case cf c || kf_underscore_name cf c || kf_pattern c.

(* ---- boolean oracle on an observation (list of entries reaching invoke) ---- *)
Definition kb_eqb (a b : str * bool) : bool := str_eqb (fst a) (fst b) && Bool.eqb (snd a) (snd b).
Definition subset_kb (a b : list (str * bool)) : bool := forallb (fun x => existsb (kb_eqb x) b) a.
Definition same_kb (a b : list (str * bool)) : bool := subset_kb a b && subset_kb b a.
Definition kb_of (l : list entry) : list (str * bool) := map (fun e => (fst (fst e), snd (fst e))) l.
Definition mem_str (k : str) (l : list str) : bool := existsb (str_eqb k) l.
Definition same_keys (a b : list str) : bool := forallb (fun x => mem_str x b) a && forallb (fun x => mem_str x a) b.

(* keys: exactly Tauri's; optional: omittable iff Option (a channel is never omittable) *)
Definition keys_ok (cf : cfg) (c : cmd) (obs : list entry) : bool :=
  same_keys (map (fun e => fst (fst e)) obs) (map fst (spec_keys cf c)).
Definition optional_ok (cf : cfg) (c : cmd) (obs : list entry) : bool := same_kb (kb_of obs) (spec_keys cf c).
(* Zod mode: value keys reach invoke validated, channel keys unvalidated *)
Definition zod_src_ok (cf : cfg) (c : cmd) (obs : list entry) : bool :=
  forallb (fun e => match snd e with
                    | Validated => mem_str (fst (fst e)) (spec_value_keys cf c)
                    | Raw => mem_str (fst (fst e)) (spec_chan_keys cf c)
                    end) obs.
Definition modes_ok (plain zod : list entry) : bool := same_kb (kb_of plain) (kb_of zod).
