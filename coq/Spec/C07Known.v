(* C07: witness projects of the recorded classes and a sample project outside every class
   (the same graph specs are replayed against the real binary from known_findings/C07.json). *)
From Coq Require Import String Ascii.
From Coq Require Import List Arith Bool.
Require Import TT.Model.Str TT.Model.C07TypeParse TT.Model.C07Harvest TT.Model.C07Reach TT.Spec.C07Spec.
Import ListNotations.
Local Open Scope string_scope.

Definition ty0 (n : string) : cty := CPath [] (L n) false [].
Definition ty1 (h : string) (a : cty) : cty := CPath [] (L h) true [a].
Definition ty2 (h : string) (a b : cty) : cty := CPath [] (L h) true [a; b].
Definition serde2 : list str := [L "Serialize"; L "Deserialize"].
Definition sdef (n : string) (fs : list cty) : item :=
  IDef {| d_name := L n; d_derives := serde2; d_kind := DStruct (map (fun t => {| f_skip := false; f_ty := t |}) fs) |}.
Definition edef (n : string) : item := IDef {| d_name := L n; d_derives := [L "Serialize"]; d_kind := DEnum |}.
Definition pdef (n : string) (fs : list cty) : item :=      (* no serde derive *)
  IDef {| d_name := L n; d_derives := [L "Debug"; L "Clone"]; d_kind := DStruct (map (fun t => {| f_skip := false; f_ty := t |}) fs) |}.
Definition cmd (n : string) (ps : list (string * cty)) (ret : option cty) : item :=
  IFn {| fn_name := L n; fn_attrs := [[L "tauri"; L "command"]]; fn_params := map (fun x => (L (fst x), snd x)) ps;
         fn_ret := ret; fn_emits := [] |}.
Definition helper (n : string) (ps : list (string * cty)) (emits : list pay) : item :=
  IFn {| fn_name := L n; fn_attrs := []; fn_params := map (fun x => (L (fst x), snd x)) ps; fn_ret := None; fn_emits := emits |}.
Definition app_handle : cty := CPath [L "tauri"] (L "AppHandle") false [].

Definition w_result_map : project :=
  [(L "src/lib.rs", [sdef "User" [ty0 "i32"];
                     cmd "load" [] (Some (ty2 "Result" (ty2 "HashMap" (ty0 "String") (ty0 "User")) (ty0 "String")))])].
Definition w_tuple_generic : project :=
  [(L "src/lib.rs", [sdef "Order" [CTuple [ty2 "HashMap" (ty0 "String") (ty0 "Item"); ty0 "bool"]];
                     cmd "save" [("arg0", ty0 "Order")] None]);
   (L "src/m1.rs", [sdef "Item" [ty0 "i32"]])].
Definition w_result_alias : project :=
  [(L "src/lib.rs", [sdef "User" [ty0 "i32"]; cmd "load" [] (Some (ty1 "Result" (ty0 "User")))])].
Definition w_event_nested : project :=
  [(L "src/lib.rs", [sdef "Report" [ty1 "Vec" (ty0 "Leaf")]; sdef "Meta" [ty0 "i32"]; cmd "ping" [("arg0", ty0 "Meta")] None]);
   (L "src/m1.rs", [sdef "Leaf" [ty0 "i32"];
                    helper "notify" [("app", app_handle); ("payload0", CRef (ty0 "Report"))] [PVar (L "payload0")]])].
Definition w_field_result : project :=
  [(L "src/lib.rs", [sdef "Order" [ty2 "Result" (ty0 "String") (ty0 "Zone")]; sdef "Zone" [ty0 "i32"];
                     cmd "save" [("arg0", ty0 "Order")] None])].
Definition w_odd_name : project :=
  [(L "src/lib.rs", [sdef "user" [ty0 "i32"]; cmd "save" [("arg0", ty0 "user")] None])].

Definition tdef_of (n : string) (fs : list cty) : tdef :=
  {| d_name := L n; d_derives := serde2; d_kind := DStruct (map (fun t => {| f_skip := false; f_ty := t |}) fs) |}.
(* pub mod models { struct User { id, inner: Inner }  struct Inner { v } }  use models::User; *)
Definition w_inline_mod : project :=
  [(L "src/lib.rs", [IMod [tdef_of "User" [ty0 "i32"; ty0 "Inner"]; tdef_of "Inner" [ty0 "i32"]];
                     sdef "Top" [ty0 "User"];
                     cmd "get_user" [("arg0", ty0 "User"); ("arg1", ty0 "Top")] (Some (ty0 "User"))])].

(* emit("c", Status::Active { code: 1 }), emit("d", Mode::On), let q = events::Built::new(); emit("f", q):
   Status, Mode and Built are payload types the tool does not read off the expression *)
Definition w_payload_expr : project :=
  [(L "src/lib.rs", [IDef {| d_name := L "Status"; d_derives := serde2; d_kind := DEnum |};
                     IDef {| d_name := L "Mode"; d_derives := serde2; d_kind := DEnum |};
                     sdef "Built" [ty0 "i32"]; sdef "Progress" [ty0 "i32"]; sdef "Meta" [ty0 "i32"];
                     IFn {| fn_name := L "go"; fn_attrs := [[L "tauri"; L "command"]];
                            fn_params := [(L "app", app_handle); (L "arg0", ty0 "Meta")]; fn_ret := None;
                            fn_emits := [PVariant (L "Status") (L "Active") true; PVariant (L "Mode") (L "On") false;
                                         PNew [L "events"] (L "Built"); PStruct (L "Progress")] |}])].

(* a diamond over three files with an enum, a cycle, an error-arm-only type, an unreachable serde type,
   a non-serde type mentioned by a field, a channel and an event emitted by a helper function *)
Definition sample : project :=
  [(L "src/lib.rs",
      [sdef "User" [ty1 "Option" (ty0 "Profile"); ty1 "Vec" (CTuple [ty0 "String"; ty0 "Item"]); ty0 "Plain"];
       cmd "get_user" [("app", app_handle); ("arg0", ty2 "HashMap" (ty0 "String") (ty0 "User"));
                       ("on_event", CPath [L "tauri"; L "ipc"] (L "Channel") true [ty1 "Vec" (ty0 "Status")])]
           (Some (ty2 "Result" (ty1 "Vec" (ty0 "Node")) (ty0 "AppError")));
       pdef "Plain" [ty0 "i32"]]);
   (L "src/m1.rs",
      [sdef "Profile" [ty2 "BTreeMap" (ty0 "String") (ty0 "Leaf")]; sdef "Item" [CRef (ty0 "Leaf"); ty1 "HashSet" (ty0 "u8")];
       sdef "Leaf" [ty0 "i32"]; edef "Status"; sdef "Hidden" [ty0 "Leaf"]; sdef "AppError" [ty0 "String"]]);
   (L "src/sub/deep/m2.rs",
      [sdef "Node" [ty1 "Option" (ty1 "Vec" (ty0 "Node")); ty0 "Meta"]; sdef "Meta" [ty0 "bool"]; sdef "Zone" [ty0 "f64"];
       helper "notify" [("app", app_handle); ("payload0", CRef (ty0 "Zone")); ("other", ty0 "Hidden")] [PVar (L "payload0")]])].
