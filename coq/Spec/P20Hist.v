(* C20, resolver histories: run-time oracle applied to the answers the implementation gave at
   each resolve_build_order call of a history of add_node / add_dependency / resolve operations. *)
From Coq Require Import List Arith Bool.
Require Import TT.Model.Base TT.Model.Topo TT.Model.Kahn TT.Model.C20Resolver TT.Spec.P20.
Import ListNotations.

Section P20Hist.
Context {node : Type} {ED : EqDec node}.

(* [outs]: one entry per Resolve in [ops], Some l for Ok l, None for a circular-dependency error *)
Fixpoint hist_ok_b (s : rstate node) (ops : list (rop node)) (outs : list (option (list node))) : bool :=
  match ops with
  | [] => match outs with [] => true | _ => false end
  | Resolve :: ops' =>
      match outs with
      | r :: outs' => kahn_ok_b (rnodes s) (rdeps s) r && hist_ok_b s ops' outs'
      | [] => false
      end
  | o :: ops' => hist_ok_b (rapply s o) ops' outs
  end.
End P20Hist.

Section P20GHist.
Context {node : Type} {ED : EqDec node}.
(* [outs]: the list returned by each topological_sort_types call of the history, in order *)
Fixpoint ghist_ok_b (g : Topo.graph node) (ops : list (gop node)) (outs : list (list node)) : bool :=
  match ops with
  | [] => match outs with [] => true | _ => false end
  | GSort req :: ops' =>
      match outs with
      | out :: outs' => topo_ok_b g req out && ghist_ok_b g ops' outs'
      | [] => false
      end
  | o :: ops' => ghist_ok_b (gapply g o) ops' outs
  end.
End P20GHist.
