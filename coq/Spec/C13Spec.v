(* C13: observations on generated files used by the oracle: the list of module items of a file
   (printed canonically), the relation between two versions of a file, and the declaration labels
   in file order. The parser is the shared specification parser (Spec/TsModule.v). *)
From Coq Require Import List Arith Bool String Ascii Permutation.
Require Import TT.Model.Str TT.Spec.TsLex TT.Spec.TsModule TT.Spec.TsObs.
Import ListNotations.
Local Open Scope list_scope.

(* canonical text of an s-expression. Every payload byte of an atom is preceded by an underscore and the
   atom is closed by a bare > ; a list is bracketed. The print is a prefix code, hence injective
   (Proofs/C13Oracle.v sx_show_inj). The round-6 printer wrote atoms as < bytes > without escaping and was
   not injective: the list of the two atoms a, b and the single atom with the five bytes a > space < b had
   the same print. *)
Fixpoint esc (a : str) : str :=
  match a with [] => [">"%char] | c :: r => "_"%char :: c :: esc r end.
Fixpoint sx_show (s : sx) : str :=
  match s with
  | SA a => "<"%char :: esc a
  | SL l => "("%char :: flat_map (fun x => sx_show x) l ++ [")"%char]
  end.

Definition file_items (s : str) : option (list str) :=
  match parse_module s with Some m => Some (map (fun it => sx_show (sx_item it)) m) | None => None end.

Definition count (x : str) (l : list str) : nat := List.length (filter (str_eqb x) l).
Definition ms_eqb (a b : list str) : bool :=
  forallb (fun x => Nat.eqb (count x a) (count x b)) a && forallb (fun x => Nat.eqb (count x a) (count x b)) b.
Fixpoint list_eqb (a b : list str) : bool :=
  match a, b with
  | [], [] => true
  | x :: a', y :: b' => str_eqb x y && list_eqb a' b'
  | _, _ => false end.

(* relation between two versions of one generated file *)
Inductive verdict := SameItems | SameMultiset | Different | Unparsed.
Definition rel (a b : str) : verdict :=
  match file_items a, file_items b with
  | Some x, Some y => if list_eqb x y then SameItems else if ms_eqb x y then SameMultiset else Different
  | _, _ => Unparsed end.

(* what the four verdicts mean (Proofs/C13Oracle.v: rel a b = v <-> rel_spec a b v) *)
Definition rel_spec (a b : str) (v : verdict) : Prop :=
  match v with
  | SameItems => exists x, file_items a = Some x /\ file_items b = Some x
  | SameMultiset => exists x y, file_items a = Some x /\ file_items b = Some y /\ x <> y /\ Permutation x y
  | Different => exists x y, file_items a = Some x /\ file_items b = Some y /\ ~ Permutation x y
  | Unparsed => file_items a = None \/ file_items b = None
  end.


(* declaration labels in file order: (kind name call) *)
(* the first string literal after the first occurrence of the identifier fname (the name passed to
   invoke / listen) *)
Fixpoint first_str_after (fname : str) (seen : bool) (l : list tk) : str :=
  match l with
  | [] => []
  | KId f :: r => first_str_after fname (seen || str_eqb f fname) r
  | KStr _ s :: r => if seen then s else first_str_after fname seen r
  | _ :: r => first_str_after fname seen r
  end.
Definition call_name (fname : string) (body : list tk) : str := first_str_after (L fname) false body.
Definition label (it : item) : sx :=
  match it with
  | IImport _ _ _ from => SL [sa "import"; SA from]
  | IExportStar from => SL [sa "reexport"; SA from]
  | IInterface n _ _ ms _ => SL [sa "interface"; SA n; SL (map (fun m => SA (key_text (fst (fst m)))) ms)]
  | ITypeAlias n _ _ => SL [sa "type"; SA n]
  | IConst n e => SL [sa "const"; SA n;
                      SL (match object_schema_props e with Some ps => map (fun p => SA (key_text (fst p))) ps | None => [] end)]
  | IFunction _ n _ _ body =>
      if negb (Nat.eqb (count_id "invoke" body) 0) then SL [sa "wrapper"; SA n; SA (call_name "invoke" body)]
      else if negb (Nat.eqb (count_id "listen" body) 0) then SL [sa "listener"; SA n; SA (call_name "listen" body)]
      else SL [sa "function"; SA n]
  end.
Definition labels (s : str) : sx :=
  match parse_module s with Some m => SL [SL (map label m)] | None => SL [] end.
