(* Observations derived from a parsed module (DESIGN section 12): what a module exports,
   imports and mentions; keys of interfaces and object schemas; wrappers (with the call that
   reaches invoke); listeners; order of constants. Plus a generic s-expression value [sx] and
   encoders, so that the OCaml glue only has to print [sx] values. Definitions only. *)
From Coq Require Import String Ascii.
From Coq Require Import List Arith Bool.
Require Import TT.Model.Str TT.Spec.TsLex TT.Spec.TsModule.
Import ListNotations.
Local Open Scope list_scope.

(* ---------------- generic s-expressions ---------------- *)
Inductive sx := SA (s : str) | SL (l : list sx).
Definition sa (s : string) : sx := SA (L s).
Definition sx_bool (b : bool) : sx := sa (if b then "true" else "false").
Definition sx_opt {A} (f : A -> sx) (o : option A) : sx := match o with Some x => SL [f x] | None => SL [] end.
Definition sx_list {A} (f : A -> sx) (l : list A) : sx := SL (map f l).
Definition sx_str (s : str) : sx := SA s.
Definition sx_path (p : list str) : sx := SL (map SA p).

Definition sx_key (k : key) : sx :=
  match k with KeyId s => SL [sa "id"; SA s] | KeyStr s => SL [sa "str"; SA s] | KeyNum s => SL [sa "num"; SA s] end.
Definition key_text (k : key) : str := match k with KeyId s | KeyStr s | KeyNum s => s end.

Fixpoint sx_ty (t : ty) : sx :=
  match t with
  | TyRef p args => SL [sa "ref"; sx_path p; SL (map sx_ty args)]
  | TyArr t => SL [sa "arr"; sx_ty t]
  | TyTuple ts => SL [sa "tuple"; SL (map sx_ty ts)]
  | TyUnion ts => SL [sa "union"; SL (map sx_ty ts)]
  | TyLit s => SL [sa "lit"; SA s]
  | TyTypeof p => SL [sa "typeof"; sx_path p]
  | TyFun ps r => SL [sa "fun"; SL (map (fun p => SL [SA (fst (fst p)); sx_bool (snd (fst p)); sx_ty (snd p)]) ps); sx_ty r]
  | TyObj ms ix => SL [sa "obj"; SL (map (fun m => SL [sx_key (fst (fst m)); sx_bool (snd (fst m)); sx_ty (snd m)]) ms);
                        SL (map (fun i => SL [SA (fst (fst i)); sx_ty (snd (fst i)); sx_ty (snd i)]) ix)]
  end.

Fixpoint sx_ex (e : ex) : sx :=
  match e with
  | EId s => SL [sa "id"; SA s]
  | EStr q s => SL [sa "str"; SA [q]; SA s]
  | ENum s => SL [sa "num"; SA s]
  | ETpl s => SL [sa "tpl"; SA s]
  | EArr l => SL [sa "arr"; SL (map sx_ex l)]
  | EObj ps => SL [sa "obj"; SL (map (fun p => match fst p with
                                              | Some k => SL [sx_key k; sx_ex (snd p)]
                                              | None => SL [sa "spread"; sx_ex (snd p)] end) ps)]
  | EMember e n oc => SL [sa "member"; sx_ex e; SA n; sx_bool oc]
  | ECall f targs args => SL [sa "call"; sx_ex f; SL (map sx_ty targs); SL (map sx_ex args)]
  | EIndex e i => SL [sa "index"; sx_ex e; sx_ex i]
  | EArrow ps b => SL [sa "arrow"; SL (map SA ps); sx_ex b]
  | EUnary op e => SL [sa "unary"; SA op; sx_ex e]
  | ESpread e => SL [sa "spread"; sx_ex e]
  end.

Definition sx_tk (t : tk) : sx :=
  match t with
  | KId s => SL [sa "id"; SA s] | KStr q b => SL [sa "str"; SA [q]; SA b] | KNum s => SL [sa "num"; SA s]
  | KTpl b => SL [sa "tpl"; SA b] | KP s => SL [sa "p"; SA s] | KErr w => SL [sa "err"; SA w]
  end.

Definition sx_member (m : key * bool * ty) : sx := SL [sx_key (fst (fst m)); sx_bool (snd (fst m)); sx_ty (snd m)].
Definition sx_param (p : str * bool * ty) : sx := SL [SA (fst (fst p)); sx_bool (snd (fst p)); sx_ty (snd p)].

Definition sx_item (it : item) : sx :=
  match it with
  | IImport ty_only names star from =>
      SL [sa "import"; sx_bool ty_only; SL (map (fun n => SL [sx_bool (fst n); SA (snd n)]) names); sx_opt SA star; SA from]
  | IExportStar from => SL [sa "export-star"; SA from]
  | IInterface n tps ext ms ix =>
      SL [sa "interface"; SA n; SL (map SA tps); sx_opt sx_ty ext; SL (map sx_member ms);
          SL (map (fun i => SL [SA (fst (fst i)); sx_ty (snd (fst i)); sx_ty (snd i)]) ix)]
  | ITypeAlias n tps t => SL [sa "type"; SA n; SL (map SA tps); sx_ty t]
  | IConst n e => SL [sa "const"; SA n; sx_ex e]
  | IFunction a n ps r body => SL [sa "function"; sx_bool a; SA n; SL (map sx_param ps); sx_opt sx_ty r; SL (map sx_tk body)]
  end.
Definition sx_module (m : option (list item)) : sx := sx_opt (fun l => SL (map sx_item l)) m.

(* ---------------- names a module declares / imports ---------------- *)
Definition item_name (it : item) : option str :=
  match it with
  | IInterface n _ _ _ _ | ITypeAlias n _ _ | IConst n _ | IFunction _ n _ _ _ => Some n
  | _ => None end.
Definition declared (m : list item) : list str := flat_map (fun it => match item_name it with Some n => [n] | None => [] end) m.
(* every declaration form the grammar accepts is an exported one *)
Definition exports (m : list item) : list str := declared m.
Definition imported_names (m : list item) : list str :=
  flat_map (fun it => match it with IImport _ names star _ => map snd names ++ (match star with Some a => [a] | None => [] end) | _ => [] end) m.
Definition star_imports (m : list item) : list (str * str) :=       (* alias, module specifier *)
  flat_map (fun it => match it with IImport _ _ (Some a) from => [(a, from)] | _ => [] end) m.
Definition reexports (m : list item) : list str :=
  flat_map (fun it => match it with IExportStar from => [from] | _ => [] end) m.
Definition type_decls (m : list item) : list str :=
  flat_map (fun it => match it with IInterface n _ _ _ _ | ITypeAlias n _ _ => [n] | _ => [] end) m.
Definition const_order (m : list item) : list str :=
  flat_map (fun it => match it with IConst n _ => [n] | _ => [] end) m.

Fixpoint has_dup (l : list str) : bool :=
  match l with [] => false | x :: r => existsb (str_eqb x) r || has_dup r end.
Fixpoint dups (l : list str) : list str :=
  match l with [] => [] | x :: r => if existsb (str_eqb x) r then x :: dups r else dups r end.

(* ---------------- references inside types and expressions ---------------- *)
(* every (qualified) name a type mentions, in order of appearance; typeof paths are value paths *)
Fixpoint ty_refs (t : ty) : list (list str) :=
  match t with
  | TyRef p args => p :: flat_map ty_refs args
  | TyArr t => ty_refs t
  | TyTuple ts | TyUnion ts => flat_map ty_refs ts
  | TyLit _ => []
  | TyTypeof _ => []
  | TyFun ps r => flat_map (fun p => ty_refs (snd p)) ps ++ ty_refs r
  | TyObj ms ix => flat_map (fun m => ty_refs (snd m)) ms ++ flat_map (fun i => ty_refs (snd (fst i)) ++ ty_refs (snd i)) ix
  end.
Fixpoint ty_typeofs (t : ty) : list (list str) :=
  match t with
  | TyRef _ args => flat_map ty_typeofs args
  | TyArr t => ty_typeofs t
  | TyTuple ts | TyUnion ts => flat_map ty_typeofs ts
  | TyLit _ => []
  | TyTypeof p => [p]
  | TyFun ps r => flat_map (fun p => ty_typeofs (snd p)) ps ++ ty_typeofs r
  | TyObj ms ix => flat_map (fun m => ty_typeofs (snd m)) ms ++ flat_map (fun i => ty_typeofs (snd (fst i)) ++ ty_typeofs (snd i)) ix
  end.

(* free value identifiers of an expression (heads of member chains; arrow parameters are bound;
   object keys and member names are not references), in order of appearance *)
Fixpoint ex_ids (bound : list str) (e : ex) : list str :=
  match e with
  | EId s => if existsb (str_eqb s) bound then [] else [s]
  | EStr _ _ | ENum _ | ETpl _ => []
  | EArr l => flat_map (ex_ids bound) l
  | EObj ps => flat_map (fun p => ex_ids bound (snd p)) ps
  | EMember e _ _ => ex_ids bound e
  | ECall f _ args => ex_ids bound f ++ flat_map (ex_ids bound) args
  | EIndex e i => ex_ids bound e ++ ex_ids bound i
  | EArrow ps b => ex_ids (ps ++ bound) b
  | EUnary _ e => ex_ids bound e
  | ESpread e => ex_ids bound e
  end.
(* type arguments appearing inside an expression (z.infer<typeof X> does not occur in expressions,
   but invoke<T>(..) style calls do) *)
Fixpoint ex_tys (e : ex) : list ty :=
  match e with
  | EId _ | EStr _ _ | ENum _ | ETpl _ => []
  | EArr l => flat_map ex_tys l
  | EObj ps => flat_map (fun p => ex_tys (snd p)) ps
  | EMember e _ _ => ex_tys e
  | ECall f targs args => ex_tys f ++ targs ++ flat_map ex_tys args
  | EIndex e i => ex_tys e ++ ex_tys i
  | EArrow _ b => ex_tys b
  | EUnary _ e => ex_tys e
  | ESpread e => ex_tys e
  end.

(* all type-level references of an item (signature level: members, alias bodies, parameter and
   return types; function bodies are token sequences and are handled by [body_calls]) *)
Definition item_ty_refs (it : item) : list (list str) :=
  match it with
  | IInterface _ tps ext ms ix =>
      let all := (match ext with Some t => ty_refs t | None => [] end) ++ flat_map (fun m => ty_refs (snd m)) ms ++
                 flat_map (fun i => ty_refs (snd (fst i)) ++ ty_refs (snd i)) ix in
      filter (fun p => match p with [n] => negb (existsb (str_eqb n) tps) | _ => true end) all
  | ITypeAlias _ tps t => filter (fun p => match p with [n] => negb (existsb (str_eqb n) tps) | _ => true end) (ty_refs t)
  | IConst _ e => flat_map ty_refs (ex_tys e)
  | IFunction _ _ ps r _ => flat_map (fun p => ty_refs (snd p)) ps ++ (match r with Some t => ty_refs t | None => [] end)
  | _ => [] end.
Definition item_typeofs (it : item) : list (list str) :=
  match it with
  | IInterface _ _ ext ms ix => (match ext with Some t => ty_typeofs t | None => [] end) ++ flat_map (fun m => ty_typeofs (snd m)) ms
  | ITypeAlias _ _ t => ty_typeofs t
  | IConst _ e => flat_map ty_typeofs (ex_tys e)
  | IFunction _ _ ps r _ => flat_map (fun p => ty_typeofs (snd p)) ps ++ (match r with Some t => ty_typeofs t | None => [] end)
  | _ => [] end.
Definition item_value_refs (it : item) : list str :=
  match it with IConst _ e => ex_ids [] e | _ => [] end.

(* ---------------- interfaces and schemas ---------------- *)
Fixpoint find_item (p : item -> bool) (m : list item) : option item :=
  match m with [] => None | it :: r => if p it then Some it else find_item p r end.
Definition interface_members (m : list item) (name : str) : option (list (key * bool * ty)) :=
  match find_item (fun it => match it with IInterface n _ _ _ _ => str_eqb n name | _ => false end) m with
  | Some (IInterface _ _ _ ms _) => Some ms | _ => None end.
Definition alias_body (m : list item) (name : str) : option ty :=
  match find_item (fun it => match it with ITypeAlias n _ _ => str_eqb n name | _ => false end) m with
  | Some (ITypeAlias _ _ t) => Some t | _ => None end.
Definition const_body (m : list item) (name : str) : option ex :=
  match find_item (fun it => match it with IConst n _ => str_eqb n name | _ => false end) m with
  | Some (IConst _ e) => Some e | _ => None end.

(* a Zod method chain  base.m1(a..).m2(b..)  as  (base, [(m1, args); (m2, args)])  *)
Fixpoint chain_go (fuel : nat) (e : ex) (acc : list (str * list ex)) : ex * list (str * list ex) :=
  match fuel with 0 => (e, acc) | S f =>
    match e with
    | ECall (EMember r name _) _ args =>
        (* z.object(..) / z.string() are bases, not links: stop when the receiver is the identifier z *)
        match r with
        | EId zz => if str_eqb zz (L "z") then (e, acc) else chain_go f r ((name, args) :: acc)
        | _ => chain_go f r ((name, args) :: acc) end
    | _ => (e, acc) end end.
Definition chain (e : ex) : ex * list (str * list ex) := chain_go 64 e [].
(* keys of  z.object({ k: schema, ... })  possibly followed by a chain *)
Definition object_schema_props (e : ex) : option (list (key * ex)) :=
  match fst (chain e) with
  | ECall (EMember (EId zz) o _) _ [EObj ps] =>
      if str_eqb zz (L "z") && str_eqb o (L "object")
      then Some (flat_map (fun p => match fst p with Some k => [(k, snd p)] | None => [] end) ps) else None
  | _ => None end.

(* ---------------- wrappers and listeners ---------------- *)
(* the first call  <fname> [<T,..>] ( 'str' [, expr] )  in a token sequence *)
Fixpoint find_call (fname : string) (n : nat) (l : list tk) : option (list ty * str * option ex) :=
  match n with 0 => None | S n' =>
    match l with
    | KId f :: r =>
        if str_eqb f (L fname) then
          let '(targs, r1) := match r with
                              | c :: r' => if tk_is "<" c then
                                             match ptylist ">" r' with Some (ts, r'') => (ts, r'') | None => ([], r) end
                                           else ([], r)
                              | [] => ([], r) end in
          match r1 with
          | c :: KStr _ name :: r2 =>
              if tk_is "(" c then
                match r2 with
                | d :: r3 => if tk_is ")" d then Some (targs, name, None)
                             else if tk_is "," d then
                               match pexpr r3 with Some (e, _) => Some (targs, name, Some e) | None => find_call fname n' r end
                             else find_call fname n' r
                | [] => None end
              else find_call fname n' r
          | _ => find_call fname n' r end
        else find_call fname n' r
    | _ :: r => find_call fname n' r
    | [] => None end end.
Fixpoint count_id (fname : string) (l : list tk) : nat :=
  match l with KId f :: r => (if str_eqb f (L fname) then 1 else 0) + count_id fname r | _ :: r => count_id fname r | [] => 0 end.

Record wrapper := { w_name : str; w_params : list (str * bool * ty); w_ret : option ty;
                    w_invokes : nat;                       (* occurrences of the identifier invoke in the body *)
                    w_call : option (list ty * str * option ex) }.
Definition wrappers (m : list item) : list wrapper :=
  flat_map (fun it => match it with
    | IFunction _ n ps r body =>
        if Nat.eqb (count_id "invoke" body) 0 then [] else
        [{| w_name := n; w_params := ps; w_ret := r; w_invokes := count_id "invoke" body;
            w_call := find_call "invoke" (S (List.length body)) body |}]
    | _ => [] end) m.
Record listener := { l_name : str; l_params : list (str * bool * ty); l_listens : nat;
                     l_call : option (list ty * str * option ex) }.
Definition listeners (m : list item) : list listener :=
  flat_map (fun it => match it with
    | IFunction _ n ps _ body =>
        if Nat.eqb (count_id "listen" body) 0 then [] else
        [{| l_name := n; l_params := ps; l_listens := count_id "listen" body;
            l_call := find_call "listen" (S (List.length body)) body |}]
    | _ => [] end) m.

Definition sx_call (c : option (list ty * str * option ex)) : sx :=
  sx_opt (fun c => SL [SL (map sx_ty (fst (fst c))); SA (snd (fst c)); sx_opt sx_ex (snd c)]) c.
Definition sx_wrapper (w : wrapper) : sx :=
  SL [SA (w_name w); SL (map sx_param (w_params w)); sx_opt sx_ty (w_ret w); SA (L (if Nat.eqb (w_invokes w) 1 then "one" else "many")); sx_call (w_call w)].
Definition sx_listener (l : listener) : sx :=
  SL [SA (l_name l); SL (map sx_param (l_params l)); SA (L (if Nat.eqb (l_listens l) 1 then "one" else "many")); sx_call (l_call l)].

(* ---------------- identifiers ---------------- *)
Definition is_ts_identifier (s : str) : bool :=
  match s with
  | c :: r => is_id_start c && forallb is_id_char r
  | [] => false end.
Local Open Scope string_scope.
Definition reserved_words : list string :=
  ["break"; "case"; "catch"; "class"; "const"; "continue"; "debugger"; "default"; "delete"; "do"; "else"; "enum";
   "export"; "extends"; "false"; "finally"; "for"; "function"; "if"; "import"; "in"; "instanceof"; "new"; "null";
   "return"; "super"; "switch"; "this"; "throw"; "true"; "try"; "typeof"; "var"; "void"; "while"; "with";
   "let"; "static"; "yield"; "await"; "implements"; "interface"; "package"; "private"; "protected"; "public"].
Definition is_reserved (s : str) : bool := existsb (fun w => str_eqb s (L w)) reserved_words.
Definition is_legal_binding_name (s : str) : bool := is_ts_identifier s && negb (is_reserved s).
