(* C11 specification side: what the declared attributes demand, how an emitted Zod method chain is
   read back (including JavaScript string-literal decoding and decimal numbers), the boolean oracle,
   the domain predicate and the known-finding classes (C11-5 and C11-7 were repaired: no class). Definitions only. *)
From Coq Require Import String Ascii List Arith Lia Bool NArith ZArith.
Require Import TT.Model.Str TT.Model.C11Validator.
Import ListNotations.
Local Open Scope char_scope.
Local Open Scope list_scope.

(* ------------------------------------------------------------------ decimal numbers, exactly *)
(* value = (-1)^neg * digits * 10^exp, digits without leading or trailing zeros; zero = (false, [], 0) *)
Record dec := { d_neg : bool; d_digits : str; d_exp : Z }.
Fixpoint span (p : ascii -> bool) (s : str) : str * str :=
  match s with c :: r => if p c then let (a, b) := span p r in (c :: a, b) else ([], s) | [] => ([], []) end.
Fixpoint strip0 (s : str) : str := match s with "0" :: r => strip0 r | _ => s end.
Definition count_trail0 (s : str) : nat := List.length (fst (span (Ascii.eqb "0") (rev s))).
Definition canon (neg : bool) (ds : str) (e : Z) : dec :=
  let d1 := strip0 ds in
  let k := count_trail0 d1 in
  let d2 := firstn (List.length d1 - k) d1 in
  match d2 with
  | [] => {| d_neg := false; d_digits := []; d_exp := 0 |}
  | _ => {| d_neg := neg; d_digits := d2; d_exp := (e + Z.of_nat k)%Z |}
  end.
(* [+-]? digits [. digits] [(e|E) [+-]? digits]  with at least one mantissa digit
   (Rust float/integer literal without suffix and underscores; JavaScript decimal literal; Rust Display of f64/u64) *)
Definition dec_of_text (s : str) : option dec :=
  let '(neg, s1) := match s with "-" :: r => (true, r) | "+" :: r => (false, r) | _ => (false, s) end in
  let '(ip, s2) := span is_digit s1 in
  let '(fp, s3) := match s2 with "." :: r => span is_digit r | _ => ([], s2) end in
  if (List.length ip + List.length fp =? 0)%nat then None else
  let base := (- Z.of_nat (List.length fp))%Z in
  match s3 with
  | [] => Some (canon neg (ip ++ fp) base)
  | e :: r =>
      if Ascii.eqb e "e" || Ascii.eqb e "E" then
        let '(eneg, r1) := match r with "-" :: x => (true, x) | "+" :: x => (false, x) | _ => (false, r) end in
        let '(ed, r2) := span is_digit r1 in
        match ed, r2 with
        | _ :: _, [] => let ev := Z.of_N (n_of_digits ed) in
                        Some (canon neg (ip ++ fp) ((if eneg then (- ev) else ev) + base)%Z)
        | _, _ => None end
      else None
  end.
Definition dec_neg (d : dec) : dec :=
  match d_digits d with [] => d | _ => {| d_neg := negb (d_neg d); d_digits := d_digits d; d_exp := d_exp d |} end.
Definition dec_of_num (n : num) : option dec :=
  match n with Num neg lit => option_map (fun d => if neg then dec_neg d else d) (dec_of_text lit) end.
Definition dec_eqb (a b : dec) : bool :=
  Bool.eqb (d_neg a) (d_neg b) && str_eqb (d_digits a) (d_digits b) && (d_exp a =? d_exp b)%Z.
Definition ostr_eqb (a b : option str) : bool :=
  match a, b with Some x, Some y => str_eqb x y | None, None => true | _, _ => false end.

(* ------------------------------------------------------------------ JavaScript string literals *)
Definition js_esc (e : ascii) : option ascii :=
  if Ascii.eqb e "n" then Some nl else if Ascii.eqb e "r" then Some cr else if Ascii.eqb e "t" then Some tab
  else if Ascii.eqb e bs then Some bs else if Ascii.eqb e dq then Some dq else if Ascii.eqb e sq then Some sq
  else if Ascii.eqb e "b" then Some (ascii_of_nat 8) else if Ascii.eqb e "f" then Some (ascii_of_nat 12)
  else if Ascii.eqb e "v" then Some (ascii_of_nat 11) else if Ascii.eqb e "0" then Some (ascii_of_nat 0)
  else None.
(* s is the text after the opening quote q; result: (value of the literal, text after the closing quote).
   A raw line terminator or an escape outside the table makes the literal unreadable. *)
Fixpoint js_read (q : ascii) (s : str) : option (str * str) :=
  match s with
  | [] => None
  | c :: r =>
      if Ascii.eqb c q then Some ([], r)
      else if Ascii.eqb c nl || Ascii.eqb c cr then None
      else if Ascii.eqb c bs then
        match r with
        | e :: r' =>
            match js_esc e, js_read q r' with
            | Some x, Some (v, rest) => Some (x :: v, rest)
            | _, _ => None end
        | [] => None end
      else match js_read q r with Some (v, rest) => Some (c :: v, rest) | None => None end
  end.
Definition read_str (s : str) : option (str * str) :=
  match s with q :: r => if Ascii.eqb q dq || Ascii.eqb q sq then js_read q r else None | [] => None end.

(* ------------------------------------------------------------------ reading a Zod method chain *)
Inductive meth :=
| MEmail (m : option str) | MUrl (m : option str)
| MMin (n : str) (m : option str) | MMax (n : str) (m : option str)
| MOptional.
Inductive schema := Sch (base : str) (inner : list schema) (meths : list meth).

Definition tok (p : string) (s : str) : option str :=
  let s' := wtrim_l s in if starts (L p) s' then Some (skipn (String.length p) s') else None.
Definition is_ident_char (c : ascii) : bool :=
  let n := nat_of_ascii c in
  (((48 <=? n) && (n <=? 57)) || ((65 <=? n) && (n <=? 90)) || ((97 <=? n) && (n <=? 122)) || (n =? 95) || (n =? 36) || (128 <=? n))%nat.
Definition is_num_char (c : ascii) : bool :=
  is_digit c || Ascii.eqb c "." || Ascii.eqb c "e" || Ascii.eqb c "E" || Ascii.eqb c "+" || Ascii.eqb c "-".
(* { message: "..." } *)
Definition read_msg_obj (s : str) : option (str * str) :=
  match tok "{" s with Some s1 =>
  match tok "message" s1 with Some s2 =>
  match tok ":" s2 with Some s3 =>
  match read_str (wtrim_l s3) with Some (v, s4) =>
  match tok "}" s4 with Some s5 => Some (v, s5) | None => None end
  | None => None end | None => None end | None => None end | None => None end.
Definition read_num (s : str) : option (str * str) :=
  let '(n, r) := span is_num_char (wtrim_l s) in match n with [] => None | _ => Some (n, r) end.
(* after the opening parenthesis of .min / .max *)
Definition read_bound_args (s : str) : option (str * option str * str) :=
  match read_num s with
  | Some (n, s1) =>
      match tok ")" s1 with
      | Some r => Some (n, None, r)
      | None =>
          match tok "," s1 with Some s2 =>
          match read_msg_obj s2 with Some (m, s3) =>
          match tok ")" s3 with Some r => Some (n, Some m, r) | None => None end
          | None => None end | None => None end
      end
  | None => None end.
(* after the opening parenthesis of .email / .url : nothing, a message object, or a bare string *)
Definition read_flag_args (s : str) : option (option str * str) :=
  match tok ")" s with
  | Some r => Some (None, r)
  | None =>
      match (match read_msg_obj s with Some x => Some x | None => read_str (wtrim_l s) end) with
      | Some (m, s1) => match tok ")" s1 with Some r => Some (Some m, r) | None => None end
      | None => None end
  end.
Definition read_meth (name : str) (s : str) : option (meth * str) :=
  if str_eqb name (L "min") then
    match read_bound_args s with Some (n, m, r) => Some (MMin n m, r) | None => None end
  else if str_eqb name (L "max") then
    match read_bound_args s with Some (n, m, r) => Some (MMax n m, r) | None => None end
  else if str_eqb name (L "email") then
    match read_flag_args s with Some (m, r) => Some (MEmail m, r) | None => None end
  else if str_eqb name (L "url") then
    match read_flag_args s with Some (m, r) => Some (MUrl m, r) | None => None end
  else if str_eqb name (L "optional") then
    match tok ")" s with Some r => Some (MOptional, r) | None => None end
  else None.
Fixpoint read_meths (fuel : nat) (s : str) : option (list meth * str) :=
  match fuel with 0 => None | S f =>
    match tok "." s with
    | None => Some ([], s)
    | Some s1 =>
        let '(name, s2) := span is_ident_char s1 in
        match tok "(" s2 with Some s3 =>
        match read_meth name s3 with Some (m, s4) =>
        match read_meths f s4 with Some (ms, s5) => Some (m :: ms, s5) | None => None end
        | None => None end | None => None end
    end
  end.
(* .coerce.number  - the member path of the base call, up to its opening parenthesis *)
Fixpoint read_path (fuel : nat) (s : str) : option (str * str) :=
  match fuel with 0 => None | S f =>
    match tok "(" s with
    | Some r => Some ([], r)
    | None =>
        match tok "." s with Some s1 =>
          let '(name, s2) := span is_ident_char s1 in
          match name with [] => None | _ =>
          match read_path f s2 with Some (p, r) => Some ("." :: name ++ p, r) | None => None end end
        | None => None end
    end
  end.
Fixpoint read_schema (fuel : nat) (s : str) : option (schema * str) :=
  match fuel with 0 => None | S f =>
    let '(id, s1) := span is_ident_char (wtrim_l s) in
    match id with
    | [] => None
    | _ =>
      if str_eqb id (L "z") then
        match read_path f s1 with Some (path, s2) =>
          let args := (fix args (k : nat) (s : str) : option (list schema * str) :=
                         match k with 0 => None | S k' =>
                           match read_schema f s with Some (x, s1) =>
                             match tok "," s1 with
                             | Some s2 => match args k' s2 with Some (xs, s3) => Some (x :: xs, s3) | None => None end
                             | None => match tok ")" s1 with Some s2 => Some ([x], s2) | None => None end
                             end
                           | None => None end
                         end) in
          match (match tok ")" s2 with Some r => Some ([], r) | None => args f s2 end) with
          | Some (inner, s3) =>
              match read_meths f s3 with Some (ms, s4) => Some (Sch (id ++ path) inner ms, s4) | None => None end
          | None => None end
        | None => None end
      else
        match read_meths f s1 with Some (ms, s2) => Some (Sch id [] ms, s2) | None => None end
    end
  end.
Definition read_chain (chain : str) : option schema :=
  match read_schema (S (List.length chain)) chain with
  | Some (sch, rest) => match wtrim_l rest with [] => Some sch | _ => None end
  | None => None end.

(* ------------------------------------------------------------------ what the declaration demands *)
Inductive cons :=
| CEmail (m : option str) | CUrl (m : option str)
| CMin (d : dec) (m : option str) | CMax (d : dec) (m : option str).
Definition cons_eqb (a b : cons) : bool :=
  match a, b with
  | CEmail x, CEmail y | CUrl x, CUrl y => ostr_eqb x y
  | CMin d x, CMin e y | CMax d x, CMax e y => dec_eqb d e && ostr_eqb x y
  | _, _ => false end.
Definition cons_kind (c : cons) : nat := match c with CEmail _ => 0 | CUrl _ => 1 | CMin _ _ => 2 | CMax _ _ => 3 end.
Fixpoint list_eqb {A} (eq : A -> A -> bool) (a b : list A) : bool :=
  match a, b with [] , [] => true | x :: a', y :: b' => eq x y && list_eqb eq a' b' | _, _ => false end.
(* equal as collections, per kind (the order of checks inside a chain is not part of the property) *)
Definition same_cons (a b : list cons) : bool :=
  forallb (fun k => list_eqb cons_eqb (filter (fun c => Nat.eqb (cons_kind c) k) a) (filter (fun c => Nat.eqb (cons_kind c) k) b)) [0; 1; 2; 3].

Fixpoint arg_msg (args : list arg) : option str :=
  match args with AMsg _ v :: _ => Some v | _ :: r => arg_msg r | [] => None end.
Fixpoint arg_min (args : list arg) : option num :=
  match args with AMin n :: _ => Some n | _ :: r => arg_min r | [] => None end.
Fixpoint arg_max (args : list arg) : option num :=
  match args with AMax n :: _ => Some n | _ :: r => arg_max r | [] => None end.
Definition bound_cons (mk : dec -> option str -> cons) (n : option num) (m : option str) : option (list cons) :=
  match n with
  | None => Some []
  | Some n => match dec_of_num n with Some d => Some [mk d m] | None => None end
  end.
Fixpoint arg_equal (args : list arg) : option num :=
  match args with AEqual n :: _ => Some n | _ :: r => arg_equal r | [] => None end.
(* equal = n demands the exact length n: a lower and an upper bound n (code = .. demands nothing) *)
Definition args_cons (args : list arg) : option (list cons) :=
  match bound_cons CMin (arg_min args) (arg_msg args), bound_cons CMax (arg_max args) (arg_msg args),
        bound_cons CMin (arg_equal args) (arg_msg args), bound_cons CMax (arg_equal args) (arg_msg args) with
  | Some a, Some b, Some c, Some d => Some (a ++ b ++ c ++ d) | _, _, _, _ => None end.
Definition flag_msg (margs : option (list arg)) : option str := match margs with Some a => arg_msg a | None => None end.
Definition item_cons (i : item) : option (list cons) :=
  match i with
  | ILength args | IRange args => args_cons args
  | IEmail m => Some [CEmail (flag_msg m)]
  | IUrl m => Some [CUrl (flag_msg m)]
  | IOther _ _ => Some []
  end.
Definition attr_items (a : attr) : list item := match a with AValidate items => items | _ => [] end.
Definition field_items (f : field) : list item := flat_map attr_items (f_attrs f).
Fixpoint concat_opt {A} (l : list (option (list A))) : option (list A) :=
  match l with [] => Some [] | Some x :: r => option_map (app x) (concat_opt r) | None :: _ => None end.
(* the constraints the field's schema has to enforce, each with the exact bound and the message value *)
Definition expected (f : field) : option (list cons) := concat_opt (map item_cons (field_items f)).

Definition meth_cons (m : meth) : option (option cons) :=
  match m with
  | MEmail x => Some (Some (CEmail x)) | MUrl x => Some (Some (CUrl x))
  | MMin n x => option_map (fun d => Some (CMin d x)) (dec_of_text n)
  | MMax n x => option_map (fun d => Some (CMax d x)) (dec_of_text n)
  | MOptional => Some None end.
Fixpoint meths_cons (ms : list meth) : option (list cons) :=
  match ms with
  | [] => Some []
  | m :: r => match meth_cons m, meths_cons r with
              | Some (Some c), Some cs => Some (c :: cs)
              | Some None, Some cs => Some cs
              | _, _ => None end
  end.
Definition is_optional (m : meth) : bool := match m with MOptional => true | _ => false end.
Fixpoint no_cons_schema (s : schema) : bool :=
  match s with Sch _ inner ms =>
    forallb is_optional ms && (fix go (l : list schema) : bool := match l with [] => true | x :: r => no_cons_schema x && go r end) inner
  end.

Inductive kind := KString | KNum | KVec | KOther.
Fixpoint kind_of (t : ty) : kind :=
  match t with TyOpt t => kind_of t | TyString => KString | TyNum => KNum | TyVec _ => KVec | _ => KOther end.
Definition base_ok (k : kind) (base : str) (inner : list schema) : bool :=
  match k with
  | KString => str_eqb base (L "z.string") && match inner with [] => true | _ => false end
  | KNum => str_eqb base (L "z.coerce.number") && match inner with [] => true | _ => false end
  | KVec => str_eqb base (L "z.array") && match inner with [_] => true | _ => false end
  | KOther => true end.

(* the oracle: the chain reads back as exactly the declared constraints, attached to the field's own
   (string / number / array) schema, and nothing below it carries a constraint *)
Definition c11_field_ok (f : field) (chain : str) : bool :=
  match expected f, read_chain chain with
  | Some ex, Some (Sch base inner ms) =>
      base_ok (kind_of (f_ty f)) base inner && forallb no_cons_schema inner &&
      match meths_cons ms with Some got => same_cons ex got | None => false end
  | _, _ => false end.

(* ------------------------------------------------------------------ domain *)
Definition is_length (i : item) := match i with ILength _ => true | _ => false end.
Definition is_range (i : item) := match i with IRange _ => true | _ => false end.
Definition is_email (i : item) := match i with IEmail _ => true | _ => false end.
Definition is_url (i : item) := match i with IUrl _ => true | _ => false end.
Definition count {A} (p : A -> bool) (l : list A) : nat := List.length (filter p l).
Definition is_amin a := match a with AMin _ => true | _ => false end.
Definition is_amax a := match a with AMax _ => true | _ => false end.
Definition is_amsg a := match a with AMsg _ _ => true | _ => false end.
Definition is_aequal a := match a with AEqual _ => true | _ => false end.
Definition is_acode a := match a with ACode _ => true | _ => false end.
(* at most one of each argument; equal excludes min and max (validator crate rule) *)
Definition args_shape (args : list arg) : bool :=
  (count is_amin args <=? 1)%nat && (count is_amax args <=? 1)%nat && (count is_amsg args <=? 1)%nat &&
  (count is_aequal args <=? 1)%nat && (count is_acode args <=? 1)%nat &&
  (Nat.eqb (count is_aequal args) 0 || (Nat.eqb (count is_amin args) 0 && Nat.eqb (count is_amax args) 0)).
Definition u64_lit (n : num) : bool :=
  match n with Num neg lit =>
    negb neg && negb (Nat.eqb (List.length lit) 0) && forallb is_digit lit && (n_of_digits lit <=? 18446744073709551615)%N end.
Definition f64_lit (n : num) : bool := match dec_of_num n with Some _ => true | None => false end.
Definition arg_ok (numok : num -> bool) (a : arg) : bool :=
  match a with AMin n | AMax n | AEqual n => numok n | AMsg _ _ | ACode _ => true end.
Definition keyword (s : str) : bool :=
  str_eqb s (L "length") || str_eqb s (L "range") || str_eqb s (L "email") || str_eqb s (L "url").
Definition item_ok (k : kind) (i : item) : bool :=
  match i with
  | ILength args => (match k with KString | KVec => true | _ => false end) && args_shape args && forallb (arg_ok u64_lit) args
  | IRange args => (match k with KNum => true | _ => false end) && args_shape args && forallb (arg_ok f64_lit) args &&
                   negb (existsb is_aequal args)
  | IEmail m | IUrl m => (match k with KString => true | _ => false end) &&
                         match m with Some args => forallb is_amsg args && (count is_amsg args <=? 1)%nat | None => true end
  | IOther name _ => negb (keyword name) && negb (Nat.eqb (List.length name) 0) && forallb is_ident_char name
  end.
Definition in_domain (f : field) : bool :=
  let its := field_items f in
  (count is_length its <=? 1)%nat && (count is_range its <=? 1)%nat && (count is_email its <=? 1)%nat && (count is_url its <=? 1)%nat &&
  forallb (item_ok (kind_of (f_ty f))) its.

(* ------------------------------------------------------------------ known-finding classes *)
Definition item_args (i : item) : list arg :=
  match i with ILength a | IRange a => a | _ => [] end.
Definition flag_args (i : item) : list arg :=
  match i with IEmail (Some a) | IUrl (Some a) => a | _ => [] end.
Definition msg_lits (args : list arg) : list str := flat_map (fun a => match a with AMsg l _ => [l] | _ => [] end) args.
Definition code_lits (args : list arg) : list str := flat_map (fun a => match a with ACode l => [l] | _ => [] end) args.
Definition lr_msg_lits (f : field) : list str := flat_map (fun i => msg_lits (item_args i)) (field_items f).
Definition other_text (i : item) : list str :=
  match i with
  | IOther name None => [name]
  | IOther name (Some kv) => name :: flat_map (fun p => [fst p; snd p]) kv
  | _ => [] end.
(* text of the attribute that is not a validator keyword in validator position *)
Definition free_text (f : field) : list str :=
  flat_map (fun i => msg_lits (item_args i) ++ code_lits (item_args i) ++ msg_lits (flag_args i) ++ other_text i) (field_items f).

(* C11-1: a negative range bound prints as [- 5] and is dropped by parse::<f64> *)
Definition is_neg_bound (a : arg) : bool := match a with AMin (Num true _) | AMax (Num true _) => true | _ => false end.
Definition kf_neg_bound (f : field) : bool :=
  existsb (fun i => match i with IRange args => existsb is_neg_bound args | _ => false end) (field_items f).
(* C11-2: a closing parenthesis inside a string literal ends the content slice (first [)] after the keyword) *)
Definition kf_paren_in_literal (f : field) : bool := existsb (existsb (Ascii.eqb ")")) (free_text f).
(* C11-3: email / url are detected by substring search over the whole token string *)
Definition kf_email_url_substring (f : field) : bool :=
  let its := field_items f in
  (negb (existsb is_email its) && existsb (contains "email") (free_text f)) ||
  (negb (existsb is_url its) && existsb (contains "url") (free_text f)).
(* C11-4: length / range / min / max / message are located by substring search *)
Definition kf_keyword_in_text (f : field) : bool :=
  existsb (fun t => contains "length" t || contains "range" t || contains "min" t || contains "max" t || contains "message" t)
          (free_text f).
(* C11-6: the literal is unescaped by five sequential replace calls on its source text *)
Fixpoint bad_esc (s : str) : bool :=
  match s with
  | [] => false
  | c :: r =>
      if Ascii.eqb c bs then
        match r with
        | e :: r' =>
            if Ascii.eqb e dq || Ascii.eqb e sq || Ascii.eqb e "n" || Ascii.eqb e "t" then bad_esc r'
            else if Ascii.eqb e bs then
              (match r' with x :: _ => Ascii.eqb x "n" || Ascii.eqb x "t" | [] => false end) || bad_esc r'
            else true
        | [] => true end
      else bad_esc r
  end.
Definition bad_escape_lit (l : str) : bool :=
  match l with q :: body => negb (Ascii.eqb q dq) || bad_esc body | [] => true end.
Definition kf_escape_chain (f : field) : bool := existsb bad_escape_lit (lr_msg_lits f).
(* C11-8: the message of email(..) / url(..) is not read at all *)
Definition kf_flag_message (f : field) : bool :=
  existsb (fun i => existsb is_amsg (flag_args i)) (field_items f).
(* C11-9: a range bound goes through f64; the printed text denotes another number *)
Definition inexact_bound (dispf : str -> option str) (a : arg) : bool :=
  match a with
  | AMin (Num false lit) | AMax (Num false lit) =>
      match dispf lit, dec_of_text lit with
      | Some t, Some d => match dec_of_text t with Some d' => negb (dec_eqb d d') | None => true end
      | _, _ => true end
  | _ => false end.
Definition kf_f64_inexact (dispf : str -> option str) (f : field) : bool :=
  existsb (fun i => match i with IRange args => existsb (inexact_bound dispf) args | _ => false end) (field_items f).

(* C11-10: length(equal = n) is not read at all: the exact-length constraint is dropped *)
Definition kf_length_equal (f : field) : bool :=
  existsb (fun i => match i with ILength args => existsb is_aequal args | _ => false end) (field_items f).

Definition kf_flags (dispf : str -> option str) (f : field) : list bool :=
  [kf_neg_bound f; kf_paren_in_literal f; kf_email_url_substring f; kf_keyword_in_text f;
   kf_escape_chain f; kf_flag_message f; kf_f64_inexact dispf f; kf_length_equal f].
Definition kf_any (dispf : str -> option str) (f : field) : bool := existsb (fun b => b) (kf_flags dispf f).

(* the schema a field without validators gets (ZodVisitor, no validator code involved) *)
Fixpoint bare_schema (t : tstruct) : str :=
  match t with
  | TsOpt i => bare_schema i ++ L ".optional()"
  | TsPrim p => if str_eqb p (L "string") then L "z.string()"
                else if str_eqb p (L "number") then L "z.coerce.number()"
                else if str_eqb p (L "boolean") then L "z.coerce.boolean()"
                else if str_eqb p (L "void") then L "z.void()"
                else L "z.unknown() /* Unknown primitive: " ++ p ++ L " */"
  | TsArr i => L "z.array(" ++ bare_schema i ++ L ")"
  | TsCustom n => n ++ L "Schema"
  end.

(* ------------------------------------------------------------------ value of a Rust string literal (the subset
   outside class C11-6: ordinary literal; escapes: backslash followed by double quote, single quote, n, t, backslash) - used to state that the declared
   literal text and the declared message value belong together *)
Fixpoint rust_body_value (s : str) : option str :=
  match s with
  | [] => None                                           (* no closing quote *)
  | c :: r =>
      if Ascii.eqb c dq then (match r with [] => Some [] | _ => None end)
      else if Ascii.eqb c bs then
        match r with
        | e :: r' =>
            let x := if Ascii.eqb e dq then Some dq else if Ascii.eqb e sq then Some sq else if Ascii.eqb e "n" then Some nl
                     else if Ascii.eqb e "t" then Some tab else if Ascii.eqb e bs then Some bs else None in
            match x, rust_body_value r' with Some x, Some v => Some (x :: v) | _, _ => None end
        | [] => None end
      else option_map (fun v => c :: v) (rust_body_value r)
  end.
Definition rust_lit_value (lit : str) : option str :=
  match lit with q :: body => if Ascii.eqb q dq then rust_body_value body else None | [] => None end.
Definition arg_consistent (a : arg) : bool :=
  match a with AMsg lit v => match rust_lit_value lit with Some v' => str_eqb v v' | None => false end | _ => true end.
Definition lits_consistent (f : field) : bool :=
  forallb (fun i => forallb arg_consistent (item_args i) && forallb arg_consistent (flag_args i)) (field_items f).
