(* C10 specification layer: one shape language for TypeScript types and Zod schema
   expressions, read from modules parsed by TT.Spec.TsModule; the agreement relation the
   property states; the structural-acceptance and JSON-serialisability checks; module level
   checkers (names, keys, per-key shapes). Definitions only. *)
From Coq Require Import String Ascii.
From Coq Require Import List Arith Bool.
Require Import TT.Model.Str TT.Spec.TsLex TT.Spec.TsModule TT.Spec.TsObs.
Import ListNotations.
Local Open Scope list_scope.

(* ------------------------------------------------------------------ shapes *)
Inductive shape :=
| ShStr | ShNum | ShBool | ShVoid | ShNull | ShUnknown
| ShArr (s : shape)
| ShRec (k v : shape)
| ShTuple (l : list shape)
| ShLits (l : list str)                         (* union of string literals *)
| ShRef (n : str)                               (* project type X; the schema XSchema denotes the same reference *)
| ShObj (fs : list (str * shape))               (* object with keys, in order of appearance *)
| ShOpt (nullable omittable : bool) (s : shape) (* T | null  /  key?: T, .optional() *)
| ShUnion (l : list shape)
| ShCoerce (s : shape)                          (* z.coerce.X(): accepts more, yields X *)
| ShNonJson (what : str) (args : list shape)    (* z.set z.map z.date z.bigint ...: not a JSON value *)
| ShApp (n : str) (args : list shape)           (* other generic application, e.g. Channel<T> *)
| ShBad (what : str).                           (* not understood *)

Definition is_null (s : shape) : bool := match s with ShNull => true | _ => false end.
Definition is_lits (s : shape) : bool := match s with ShLits _ => true | _ => false end.
Definition lits_of (s : shape) : list str := match s with ShLits l => l | _ => [] end.

(* flags are kept in one outermost wrapper *)
Definition mk_opt (n o : bool) (s : shape) : shape :=
  match s with
  | ShOpt n' o' s' => ShOpt (n || n') (o || o') s'
  | _ => if n || o then ShOpt n o s else s
  end.

(* a union: null alternatives become the nullable flag; a union of literals is one literal set;
   nested unions are not flattened (the tool never prints them) *)
Definition union_core (rest : list shape) : shape :=
  match rest with
  | [x] => x
  | _ => if forallb is_lits rest && negb (Nat.eqb (List.length rest) 0)
         then ShLits (flat_map lits_of rest) else ShUnion rest
  end.
Definition norm_union (l : list shape) : shape :=
  let core := union_core (filter (fun s => negb (is_null s)) l) in
  if existsb is_null l then mk_opt true false core else core.

Definition s_is (s : str) (x : string) : bool := str_eqb s (L x).

(* ------------------------------------------------------------------ TypeScript types *)
Definition prim_shape (n : str) : option shape :=
  if s_is n "string" then Some ShStr else if s_is n "number" then Some ShNum
  else if s_is n "boolean" then Some ShBool else if s_is n "void" then Some ShVoid
  else if s_is n "undefined" then Some ShVoid
  else if s_is n "null" then Some ShNull else if s_is n "unknown" then Some ShUnknown
  else if s_is n "any" then Some ShUnknown else None.

Fixpoint tshape (t : ty) : shape :=
  match t with
  | TyRef [n] [] => match prim_shape n with Some s => s | None => ShRef n end
  | TyRef [n] [a] => if s_is n "Array" then ShArr (tshape a) else ShApp n [tshape a]
  | TyRef [n] [k; v] => if s_is n "Record" then ShRec (tshape k) (tshape v) else ShApp n [tshape k; tshape v]
  | TyRef [q; n] [] => if s_is q "types" then ShRef n else ShBad n
  | TyRef [n] args => ShApp n (map tshape args)
  | TyRef _ _ => ShBad (L "ref")
  | TyArr u => ShArr (tshape u)
  | TyTuple ts => ShTuple (map tshape ts)
  | TyUnion ts => norm_union (map tshape ts)
  | TyLit s => ShLits [s]
  | TyTypeof _ => ShBad (L "typeof")
  | TyFun _ _ => ShBad (L "function")
  | TyObj ms _ => ShObj (map (fun m => (key_text (fst (fst m)), mk_opt false (snd (fst m)) (tshape (snd m)))) ms)
  end.

(* shape of a member  key[?]: type  *)
Definition tmember (m : key * bool * ty) : str * shape :=
  (key_text (fst (fst m)), mk_opt false (snd (fst m)) (tshape (snd m))).

(* ------------------------------------------------------------------ Zod expressions *)
Definition is_z (e : ex) : bool := match e with EId n => s_is n "z" | _ => false end.
Definition is_z_coerce (e : ex) : bool :=
  match e with EMember r n _ => is_z r && s_is n "coerce" | _ => false end.

Definition strip_suffix (suf s : str) : option str :=
  let n := List.length s - List.length suf in
  if (List.length suf <? List.length s) && str_eqb (skipn n s) suf then Some (firstn n s) else None.
Definition ref_of_schema_name (n : str) : shape :=
  match strip_suffix (L "Schema") n with Some x => ShRef x | None => ShBad n end.

Local Open Scope string_scope.
Definition refinement_links : list string :=
  ["min"; "max"; "length"; "email"; "url"; "regex"; "nonempty"; "int"; "positive"; "negative";
   "nonnegative"; "nonpositive"; "gt"; "gte"; "lt"; "lte"; "uuid"; "refine"; "describe"; "brand"; "readonly"].
Definition nonjson_bases : list string :=
  ["set"; "map"; "date"; "bigint"; "symbol"; "function"; "promise"; "nan"; "instanceof"; "file"].
Local Close Scope string_scope.
Definition is_one_of (n : str) (l : list string) : bool := existsb (fun x => s_is n x) l.

Definition lit_strs (l : list ex) : option (list str) :=
  mapM (fun e => match e with EStr _ s => Some s | _ => None end) l.

Fixpoint zshape (e : ex) : shape :=
  match e with
  | EId n => ref_of_schema_name n
  | ECall (EMember r name _) targs args =>
      if is_z r then
        (* a base:  z.name(args) *)
        if s_is name "string" then ShStr else if s_is name "number" then ShNum
        else if s_is name "int" then ShNum
        else if s_is name "boolean" then ShBool else if s_is name "void" then ShVoid
        else if s_is name "undefined" then ShVoid
        else if s_is name "null" then ShNull
        else if s_is name "unknown" then ShUnknown else if s_is name "any" then ShUnknown
        else if s_is name "array" then match args with [a] => ShArr (zshape a) | _ => ShBad name end
        else if s_is name "record" then
          match args with [k; v] => ShRec (zshape k) (zshape v) | [v] => ShRec ShStr (zshape v) | _ => ShBad name end
        else if s_is name "tuple" then match args with [EArr l] => ShTuple (map zshape l) | _ => ShBad name end
        else if s_is name "union" then match args with [EArr l] => norm_union (map zshape l) | _ => ShBad name end
        else if s_is name "enum" then
          match args with [EArr l] => match lit_strs l with Some ss => ShLits ss | None => ShBad name end | _ => ShBad name end
        else if s_is name "literal" then match args with [EStr _ s] => ShLits [s] | _ => ShBad name end
        else if s_is name "object" then
          match args with
          | [EObj ps] => ShObj (flat_map (fun p => match fst p with
                                                    | Some k => [(key_text k, zshape (snd p))]
                                                    | None => [(L "...", ShBad (L "spread"))] end) ps)
          | _ => ShBad name end
        (* z.custom<T>((val) => true): accepts every value, typed T (a mapped type) *)
        else if s_is name "custom" then match targs with [t] => ShCoerce (tshape t) | _ => ShBad name end
        else if is_one_of name nonjson_bases then ShNonJson name (map zshape args)
        else ShBad name
      else if is_z_coerce r then
        if s_is name "string" then ShCoerce ShStr else if s_is name "number" then ShCoerce ShNum
        else if s_is name "boolean" then ShCoerce ShBool
        else if is_one_of name nonjson_bases then ShNonJson name []
        else ShBad name
      else
        (* a link:  receiver.name(args) *)
        let s := zshape r in
        if s_is name "optional" then mk_opt false true s
        else if s_is name "nullable" then mk_opt true false s
        else if s_is name "nullish" then mk_opt true true s
        else if s_is name "array" then ShArr s
        else if s_is name "or" then match args with [a] => norm_union [s; zshape a] | _ => ShBad name end
        else if is_one_of name refinement_links then s
        else ShBad name
  | _ => ShBad (L "expression")
  end.

(* ------------------------------------------------------------------ agreement *)
(* every element of a is in b and conversely *)
Definition same_set (a b : list str) : bool :=
  forallb (fun x => existsb (str_eqb x) b) a && forallb (fun x => existsb (str_eqb x) a) b.

(* flags of the Zod side against flags of the TypeScript side: equal, or the identification the
   property allows: Option printed as  T | null  (on an optional key or not) against .optional() *)
Definition flags_agree (nz oz nt ot : bool) : bool :=
  (Bool.eqb nz nt && Bool.eqb oz ot) || (oz && negb nz && nt).

Fixpoint shape_agree (z t : shape) : bool :=
  match z, t with
  | ShCoerce a, _ => shape_agree a t
  | ShStr, ShStr | ShNum, ShNum | ShBool, ShBool | ShVoid, ShVoid | ShNull, ShNull | ShUnknown, ShUnknown => true
  | ShArr a, ShArr b => shape_agree a b
  | ShRec k v, ShRec k' v' => shape_agree k k' && shape_agree v v'
  | ShTuple l, ShTuple l' =>
      (fix go (l l' : list shape) : bool :=
         match l, l' with
         | [], [] => true
         | a :: r, b :: r' => shape_agree a b && go r r'
         | _, _ => false end) l l'
  | ShLits l, ShLits l' => same_set l l'
  | ShRef n, ShRef n' => str_eqb n n'
  | ShObj fs, ShObj fs' =>
      (fix go (l l' : list (str * shape)) : bool :=
         match l, l' with
         | [], [] => true
         | a :: r, b :: r' => str_eqb (fst a) (fst b) && shape_agree (snd a) (snd b) && go r r'
         | _, _ => false end) fs fs'
  | ShOpt nz oz a, ShOpt nt ot b => flags_agree nz oz nt ot && shape_agree a b
  | ShUnion l, ShUnion l' =>
      (fix go (l l' : list shape) : bool :=
         match l, l' with
         | [], [] => true
         | a :: r, b :: r' => shape_agree a b && go r r'
         | _, _ => false end) l l'
  | ShApp n l, ShApp n' l' =>
      str_eqb n n' &&
      (fix go (l l' : list shape) : bool :=
         match l, l' with
         | [], [] => true
         | a :: r, b :: r' => shape_agree a b && go r r'
         | _, _ => false end) l l'
  | _, _ => false
  end.

(* ------------------------------------------------------------------ JSON-serialisability and acceptance *)
(* names of the nodes of a schema shape that do not denote JSON values *)
Fixpoint nonjson (z : shape) : list str :=
  match z with
  | ShNonJson w args => w :: flat_map nonjson args
  | ShArr a | ShCoerce a | ShOpt _ _ a => nonjson a
  | ShRec k v => nonjson k ++ nonjson v
  | ShTuple l | ShUnion l => flat_map nonjson l
  | ShObj fs => flat_map (fun f => nonjson (snd f)) fs
  | _ => []
  end.

(* reasons why a JSON value of TypeScript shape t can be rejected by schema shape z although the
   two agree: an explicit null (declared  T | null, accepted by serde for Option) against a schema
   without .nullable()/.nullish(); an omitted key against a schema without .optional().
   Assumption about Zod (4.2 and later): a record whose key schema is z.number() accepts the
   numeric string keys JSON objects have; z.coerce.* accept what the plain schema accepts. *)
Inductive reject := RejNull | RejOmitted | RejKind.
Definition reject_eqb (a b : reject) : bool :=
  match a, b with RejNull, RejNull | RejOmitted, RejOmitted | RejKind, RejKind => true | _, _ => false end.

Definition uncoerce (z : shape) : shape := match z with ShCoerce a => a | _ => z end.
Definition is_nonjson (z : shape) : bool := match z with ShNonJson _ _ => true | _ => false end.
Fixpoint rejects (z0 t : shape) {struct t} : list reject :=
  let z := uncoerce z0 in
  if is_nonjson z then [RejKind]       (* a Set / Map / Date instance is demanded; JSON arrays are refused *)
  else
  match t with
  | ShOpt nt ot b =>
      match z with
      | ShOpt nz oz a =>
          (if nt && negb nz then [RejNull] else []) ++ (if ot && negb oz then [RejOmitted] else []) ++ rejects a b
      | _ => (if nt then [RejNull] else []) ++ (if ot then [RejOmitted] else []) ++ rejects z b
      end
  | ShArr b => match z with ShArr a => rejects a b | _ => [] end
  | ShRec _ v' => match z with ShRec _ v => rejects v v' | _ => [] end
  | ShTuple l' =>
      match z with
      | ShTuple l =>
          (fix go (l l' : list shape) {struct l'} : list reject :=
             match l', l with b :: r', a :: r => rejects a b ++ go r r' | _, _ => [] end) l l'
      | _ => [] end
  | ShObj fs' =>
      match z with
      | ShObj fs =>
          (fix go (l l' : list (str * shape)) {struct l'} : list reject :=
             match l', l with b :: r', a :: r => rejects (snd a) (snd b) ++ go r r' | _, _ => [] end) fs fs'
      | _ => [] end
  | _ => []
  end.

(* ------------------------------------------------------------------ findings of one comparison *)
Inductive tag :=
| TgShape            (* shapes do not agree *)
| TgSet              (* ... and the schema side is z.set where the declaration says array *)
| TgResult           (* ... and the schema side is the Result union  z.union([T, z.object({error})]) *)
| TgPrecedence       (* ... and the declaration side is a union whose last alternative is an array of null: T | null[] *)
| TgNonJson          (* a node that is not a JSON value *)
| TgNull             (* explicit null of the declared type rejected *)
| TgOmitted          (* omitted optional key rejected *)
| TgNames            (* type / parameter-object names differ between the modes *)
| TgEnumAlias        (* ... and the missing names are exactly enums that have a schema but no type alias *)
| TgKeys             (* keys differ *)
| TgParse.           (* a module did not parse, or an item has an unexpected form *)
Definition tag_name (t : tag) : string :=
  match t with
  | TgShape => "shape" | TgSet => "set-not-array" | TgResult => "result-union" | TgPrecedence => "union-under-array"
  | TgNonJson => "non-json" | TgNull => "null-rejected" | TgOmitted => "omission-rejected"
  | TgNames => "names" | TgEnumAlias => "enum-without-type-alias" | TgKeys => "keys" | TgParse => "unreadable"
  end.
Definition tag_eqb (a b : tag) : bool := String.eqb (tag_name a) (tag_name b).
Fixpoint add_tag (t : tag) (l : list tag) : list tag := if existsb (tag_eqb t) l then l else l ++ [t].
Definition add_tags (ts l : list tag) : list tag := fold_left (fun acc t => add_tag t acc) ts l.

(* does the schema shape contain z.set / the Result union; does the declaration contain T | null[] *)
Fixpoint has_set (z : shape) : bool :=
  match z with
  | ShNonJson w args => s_is w "set" || existsb has_set args
  | ShArr a | ShCoerce a | ShOpt _ _ a => has_set a
  | ShRec k v => has_set k || has_set v
  | ShTuple l | ShUnion l => existsb has_set l
  | ShObj fs => existsb (fun f => has_set (snd f)) fs
  | _ => false end.
Definition is_error_obj (s : shape) : bool :=
  match s with ShObj [(k, ShStr)] => s_is k "error" | _ => false end.
Fixpoint has_result_union (z : shape) : bool :=
  match z with
  | ShUnion l => existsb is_error_obj l || existsb has_result_union l
  | ShNonJson _ args => existsb has_result_union args
  | ShArr a | ShCoerce a | ShOpt _ _ a => has_result_union a
  | ShRec k v => has_result_union k || has_result_union v
  | ShTuple l => existsb has_result_union l
  | ShObj fs => existsb (fun f => has_result_union (snd f)) fs
  | _ => false end.
Fixpoint has_null_array (t : shape) : bool :=
  match t with
  | ShArr ShNull => true
  | ShArr a | ShCoerce a | ShOpt _ _ a => has_null_array a
  | ShRec k v => has_null_array k || has_null_array v
  | ShTuple l | ShUnion l => existsb has_null_array l
  | ShNonJson _ args => existsb has_null_array args
  | ShObj fs => existsb (fun f => has_null_array (snd f)) fs
  | _ => false end.

(* comparison of one key: schema shape z against declaration shape t; [param] = the schema is
   (part of) a parameter schema, where the JSON clauses of the property apply *)
Definition compare_shapes (param : bool) (z t : shape) : list tag :=
  let a := if shape_agree z t then []
           else (if has_set z then [TgSet] else []) ++ (if has_result_union z then [TgResult] else []) ++
                (if has_null_array t then [TgPrecedence] else []) ++
                (if has_set z || has_result_union z || has_null_array t then [] else [TgShape]) in
  let j := if param then
             (match nonjson z with [] => [] | _ => [TgNonJson] end) ++
             (if shape_agree z t then
                (if existsb (reject_eqb RejNull) (rejects z t) then [TgNull] else []) ++
                (if existsb (reject_eqb RejOmitted) (rejects z t) then [TgOmitted] else [])
              else [])
           else [] in
  add_tags (a ++ j) [].

(* ------------------------------------------------------------------ module level *)
(* the declaration of a name in a plain-mode module, as a shape: interface -> object, alias -> its type *)
Definition plain_decl (m : list item) (n : str) : option shape :=
  match interface_members m n with
  | Some ms => Some (ShObj (map tmember ms))
  | None => option_map tshape (alias_body m n)
  end.
(* the schema for a name in a Zod-mode module *)
Definition zod_decl (m : list item) (n : str) : option shape :=
  option_map zshape (const_body m (n ++ L "Schema")).

Definition mem (x : str) (l : list str) : bool := existsb (str_eqb x) l.
Definition subset (a b : list str) : bool := forallb (fun x => mem x b) a.
Definition same_names (a b : list str) : bool := subset a b && subset b a.
Definition minus (a b : list str) : list str := filter (fun x => negb (mem x b)) a.

(* X such that  const XSchema  exists *)
Definition schema_names (m : list item) : list str :=
  flat_map (fun c => match strip_suffix (L "Schema") c with Some x => [x] | None => [] end) (const_order m).

Definition is_params_name (n : str) : bool :=
  match strip_suffix (L "Params") n with Some _ => true | None => false end.

(* schemas reachable from the parameter schemas through references (the JSON clauses speak
   about parameter schemas; a struct schema referenced from one is part of it) *)
Definition schema_refs (m : list item) (n : str) : list str :=
  match const_body m (n ++ L "Schema") with
  | Some e => flat_map (fun c => match strip_suffix (L "Schema") c with Some x => [x] | None => [] end) (ex_ids [] e)
  | None => [] end.
Fixpoint reach_go (fuel : nat) (m : list item) (todo seen : list str) : list str :=
  match fuel with 0 => seen | S f =>
    match todo with
    | [] => seen
    | n :: r => if mem n seen then reach_go f m r seen
                else reach_go f m (schema_refs m n ++ r) (n :: seen)
    end end.
Definition param_reachable (m : list item) : list str :=
  let roots := filter is_params_name (schema_names m) in
  reach_go (S (List.length m * S (List.length m))) m roots [].

Definition keys_of (s : shape) : list str := match s with ShObj fs => map fst fs | _ => [] end.
Fixpoint field_of (k : str) (fs : list (str * shape)) : option shape :=
  match fs with [] => None | f :: r => if str_eqb (fst f) k then Some (snd f) else field_of k r end.

(* extra keys an interface adds on top of the schema it extends / stands for: the channel members,
   which never pass through a schema; compared as TypeScript types between the modes *)
Definition iface_shape (m : list item) (n : str) : option shape :=
  option_map (fun ms => ShObj (map tmember ms)) (interface_members m n).

(* declarations by occurrence: several commands may derive the same type name (get_user2 / get_user_2,
   the same function name in two files); both generators then print one declaration per command, in
   the same command order, and the k-th declaration of a name in one mode is judged against the k-th
   in the other (the duplicate declaration itself is C01/C02's business) *)
Fixpoint find_nth (p : item -> bool) (k : nat) (m : list item) : option item :=
  match m with
  | [] => None
  | it :: r => if p it then match k with 0 => Some it | S k' => find_nth p k' r end else find_nth p k r
  end.
Definition is_type_named (n : str) (it : item) : bool :=
  match it with IInterface x _ _ _ _ | ITypeAlias x _ _ => str_eqb x n | _ => false end.
Definition is_const_named (n : str) (it : item) : bool :=
  match it with IConst x _ => str_eqb x n | _ => false end.
Definition plain_decl_k (m : list item) (n : str) (k : nat) : option shape :=
  match find_nth (is_type_named n) k m with
  | Some (IInterface _ _ _ ms _) => Some (ShObj (map tmember ms))
  | Some (ITypeAlias _ _ t) => Some (tshape t)
  | _ => None end.
Definition zod_decl_k (m : list item) (n : str) (k : nat) : option shape :=
  match find_nth (is_const_named (n ++ L "Schema")) k m with Some (IConst _ e) => Some (zshape e) | _ => None end.
Definition iface_shape_k (m : list item) (n : str) (k : nat) : option shape :=
  match find_nth (is_type_named n) k m with Some (IInterface _ _ _ ms _) => Some (ShObj (map tmember ms)) | _ => None end.
Definition count (n : str) (l : list str) : nat := List.length (filter (str_eqb n) l).
Fixpoint occurrences (seen l : list str) : list (str * nat) :=
  match l with [] => [] | n :: r => (n, count n seen) :: occurrences (n :: seen) r end.
Definition same_counts (a b : list str) : bool :=
  forallb (fun n => Nat.eqb (count n a) (count n b)) (a ++ b).

(* one item: per-key comparison of the Zod-mode description against the plain declaration;
   [extra]: the Zod-mode interface of the same occurrence (channel members), if any *)
Definition compare_item (extra_sh : option shape) (param : bool) (z t : shape) : list tag :=
  match z, t with
  | ShObj zf, ShObj tf =>
      (* keys of the parameter object that are channel members live in the Zod-mode interface *)
      let extra := match extra_sh with Some (ShObj ef) => ef | _ => [] end in
      let zkeys := map fst zf ++ map fst extra in
      (if same_names zkeys (map fst tf) && Nat.eqb (List.length zkeys) (List.length tf) then [] else [TgKeys]) ++
      flat_map (fun f => match field_of (fst f) zf with
                         | Some zs => compare_shapes param zs (snd f)
                         | None => match field_of (fst f) extra with
                                   | Some es => if shape_agree es (snd f) then [] else [TgShape]
                                   | None => [] end
                         end) tf
  | _, _ => compare_shapes param z t
  end.

(* v_keys: findings per key, named Item.key, so that a finding is excused by the Rust type written
   at that very key and not by another member of the project *)
Record verdict := { v_tags : list tag; v_detail : list (str * list tag); v_keys : list (str * list tag) }.
Definition key_findings (n : str) (param : bool) (z t : shape) : list (str * list tag) :=
  match z, t with
  | ShObj zf, ShObj tf =>
      flat_map (fun f => match field_of (fst f) zf with
                         | Some zs => match compare_shapes param zs (snd f) with [] => [] | l => [(n ++ L "." ++ fst f, l)] end
                         | None => [] end) tf
  | _, _ => [] end.

(* plain-mode module pm against Zod-mode module zm *)
Definition compare_modules (pm zm : list item) : verdict :=
  let ptypes := type_decls pm in
  let ztypes := type_decls zm in
  let znames := schema_names zm in
  (* names: the same type names in both modes *)
  let missing := minus ptypes ztypes in
  let surplus := minus ztypes ptypes in
  let missing_are_enum_schemas :=
      forallb (fun n => mem n znames && match zod_decl zm n with Some (ShLits _) => true | _ => false end) missing in
  let name_tags :=
      match missing, surplus with
      | [], [] => []
      | _ :: _, [] => if missing_are_enum_schemas then [TgEnumAlias] else [TgNames]
      | _, _ => [TgNames] end in
  (* every schema belongs to a declared plain type and conversely every plain type that is not a
     channel-only parameter object has a schema *)
  let schema_tags := if subset znames ptypes then [] else [TgNames] in
  let reach := param_reachable zm in
  let count_tags := if same_counts ptypes ztypes then [] else [TgNames] in
  let per_item :=
      map (fun nk =>
             let n := fst nk in let k := snd nk in
             match plain_decl_k pm n k with
             | None => (n, [TgParse])
             | Some t =>
                 match zod_decl_k zm n k with
                 | Some z => (n, add_tags (compare_item (iface_shape_k zm n k) (mem n reach) z t) [])
                 | None =>
                     (* no schema: only legal for a parameter object made of channels alone, which
                        is then an interface in Zod mode too *)
                     match iface_shape_k zm n k with
                     | Some zi => (n, if negb (is_params_name n) then [TgNames]
                                          else if shape_agree zi t then []
                                          else if same_names (keys_of zi) (keys_of t) then [TgShape] else [TgKeys])
                     | None => (n, [TgNames]) end
                 end
             end) (occurrences [] ptypes) in
  {| v_tags := add_tags (name_tags ++ count_tags ++ schema_tags ++ flat_map snd per_item) [];
     v_detail := filter (fun p => match snd p with [] => false | _ => true end) per_item;
     v_keys := flat_map (fun nk => match plain_decl_k pm (fst nk) (snd nk), zod_decl_k zm (fst nk) (snd nk) with
                                   | Some t, Some z => key_findings (fst nk) (mem (fst nk) reach) z t
                                   | _, _ => [] end) (occurrences [] ptypes) |}.
