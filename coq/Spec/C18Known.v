(* C18: recorded defect classes (premises of the theorems and run-time matcher). Definitions only. *)
From Coq Require Import String Ascii.
From Coq Require Import List Arith Bool.
Require Import TT.Model.Str TT.Model.TypeParse TT.Model.Render TT.Model.C05Emit TT.Spec.C05Known TT.Spec.C18Spec.
Require Import TT.Proofs.TypeParseProofs.
Import ListNotations.

Inductive k18 :=
| K18ResultComma   (* a mapped name inside a Result whose Ok type prints a comma is cut out of its context *)
| K18TupleComma    (* a mapped name inside a tuple element that prints a comma keeps a bracket and is not looked up *)
| K18Prefix.       (* add_types_prefix puts types. in front of the target: types.string[][] *)

(* add_types_prefix puts the namespace in front of a text that begins with the mapped name's target:
   under [] (or [] | null ..) an element text that is not just the name itself *)
Fixpoint leftmost_mapped (m : mapping) (t : tstruct) : bool :=
  match t with
  | TCustom n => match lookup m n with Some _ => true | None => false end
  | TArr u | TSet u | TOpt u | TRes u => leftmost_mapped m u
  | _ => false
  end.
Fixpoint is_leaf (t : tstruct) : bool :=
  match t with TPrim _ | TCustom _ => true | TRes u => is_leaf u | _ => false end.
Fixpoint k18_prefix (m : mapping) (t : tstruct) : bool :=
  match t with
  | TOpt u | TRes u => k18_prefix m u
  | TArr u | TSet u => leftmost_mapped m u && negb (is_leaf u)
  | _ => false
  end.

(* the parser defects matter for C18 only when a mapped name sits inside the damaged region:
   a tuple element, resp. the Ok argument of a Result, that prints a comma and mentions a key
   (the Err argument of a Result is discarded by the parser and is not searched) *)
Fixpoint k18_tuple (m : mapping) (t : rty) : bool :=
  match t with
  | RPath n args =>
      if is_name n "Result" then match args with a :: _ => k18_tuple m a | [] => false end
      else existsb (k18_tuple m) args
  | RRef u => k18_tuple m u
  | RTuple l => existsb (fun e => multi e && mentions m e) l || existsb (k18_tuple m) l
  end.
Fixpoint k18_result (m : mapping) (t : rty) : bool :=
  match t with
  | RPath n args =>
      if is_name n "Result" then match args with a :: _ => multi a && mentions m a || k18_result m a | [] => false end
      else existsb (k18_result m) args
  | RRef u => k18_result m u
  | RTuple l => existsb (k18_result m) l
  end.

Definition in_class18 (k : k18) (s : site) (md : mode) (m : mapping) (t : rty) : bool :=
  mentions m t &&
  match k with
  | K18ResultComma => k18_result m t
  | K18TupleComma => k18_tuple m t
  | K18Prefix => site_qualified s && k18_prefix m (sem t)
  end.
Definition all18 := [K18ResultComma; K18TupleComma; K18Prefix].
Definition classes18 (s : site) (md : mode) (m : mapping) (t : rty) : list k18 :=
  filter (fun k => in_class18 k s md m t) all18.
Definition kf_C18 (s : site) (md : mode) (m : mapping) (t : rty) : bool :=
  existsb (fun k => in_class18 k s md m t) all18.
