(* C18: recorded defect classes - none left after the repairs. Definitions only. *)
From Coq Require Import String Ascii.
From Coq Require Import List Arith Bool.
Require Import TT.Model.Str TT.Model.TypeParse TT.Model.Render TT.Model.C05Emit TT.Spec.C05Known TT.Spec.C18Spec.
Require Import TT.Proofs.TypeParseProofs.
Import ListNotations.

(* All three recorded classes (prefix on the target, mapped name inside a comma-damaged tuple element
   or Result) were repaired by C05-4-prefix-composite and C05-2-3-top-level-commas: no class is left,
   the theorems of Properties/C18.v carry no class premise any more. *)
Definition kf_C18 (s : site) (md : mode) (m : mapping) (t : rty) : bool := false.
