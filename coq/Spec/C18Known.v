(* C18: recorded defect classes (premises of the theorems and run-time matcher). Definitions only. *)
From Coq Require Import String Ascii.
From Coq Require Import List Arith Bool.
Require Import TT.Model.Str TT.Model.TypeParse TT.Model.Render TT.Model.C05Emit TT.Spec.C05Known TT.Spec.C18Spec.
Require Import TT.Proofs.TypeParseProofs.
Import ListNotations.

Inductive k18 :=
| K18ResultComma   (* a mapped name inside a Result whose Ok type prints a comma is cut out of its context *)
| K18TupleComma    (* a mapped name inside a tuple element that prints a comma keeps a bracket and is not looked up *)
| K18Prefix.       (* add_types_prefix puts types. in front of the target: types.string[][] *)

Definition in_class18 (k : k18) (s : site) (md : mode) (m : mapping) (t : rty) : bool :=
  mentions m t &&
  match k with
  | K18ResultComma => kf_result_ok_has_comma t
  | K18TupleComma => kf_tuple_elem_has_comma t
  | K18Prefix => site_qualified s && Nat.eqb (pfx_class (sem t)) 0 && Nat.eqb (pfx_class (msubst m (sem t))) 2
  end.
Definition all18 := [K18ResultComma; K18TupleComma; K18Prefix].
Definition classes18 (s : site) (md : mode) (m : mapping) (t : rty) : list k18 :=
  filter (fun k => in_class18 k s md m t) all18.
Definition kf_C18 (s : site) (md : mode) (m : mapping) (t : rty) : bool :=
  existsb (fun k => in_class18 k s md m t) all18.
