(* C18: recorded defect classes - none left after the repairs. Definitions only. *)
From Coq Require Import String Ascii.
From Coq Require Import List Arith Bool.
Require Import TT.Model.Str TT.Model.TypeParse TT.Model.Render TT.Model.C05Emit TT.Spec.C05Spec TT.Spec.C05Known TT.Spec.C18Spec.
Require Import TT.Proofs.TypeParseProofs.
Import ListNotations.

(* All three recorded classes (prefix on the target, mapped name inside a comma-damaged tuple element
   or Result) were repaired by C05-4-prefix-composite and C05-2-3-top-level-commas: no class is left,
   the theorems of Properties/C18.v carry no class premise any more. *)
Definition kf_C18 (s : site) (md : mode) (m : mapping) (t : rty) : bool := false.

(* ---- the oracle of C18: relational clause AND absolute clause ----
   relational (Spec/C18Spec.c18_ok): the text with the table is the text without it with N replaced
   by M (byte equality when the type mentions no key) - "and nothing else";
   absolute: the text with the table denotes the README shape in which every mapped name, at every
   constructor position INCLUDING MAP KEYS, is its target (Spec/C05Spec.expected s m t: rshape m, read
   back through the TypeScript parser / the Zod reading) - "everywhere". The relational clause alone
   cannot see a defect that the unmapped run shares (a custom map key printed as string in both
   runs). The absolute clause is applied inside the documented language (dom_m) and outside the
   remaining defect classes of C05 (union under [], unqualified names inside Record/tuple at
   return/event sites, Zod optional/set/result), which are C05's findings, not C18's. *)
Definition c18_abs_ok (s : site) (md : mode) (m : mapping) (t : rty) (with_text : str) : bool :=
  negb (dom_m m t) || kf_C05 s md m t || c05_ok s md m t with_text.
Definition c18_full_ok (s : site) (md : mode) (m : mapping) (t : rty) (with_text without_text : str) : bool :=
  c18_ok (site_is_type s md) m t with_text without_text && c18_abs_ok s md m t with_text.
