(* C05 / C18 specification layer: the README table as a function from Rust types to TypeScript
   types, qualification by the types namespace, the reading of a Zod schema expression as the type
   it infers, the domain predicate, the recorded defect classes, and the boolean oracle that the
   run-time check applies to the text the implementation printed. Definitions only. *)
From Coq Require Import String Ascii.
From Coq Require Import List Arith Bool.
Require Import TT.Model.Str TT.Model.TypeParse TT.Spec.TsType TT.Model.Render TT.Model.C05Emit.
Require Import TT.Spec.TsLex TT.Spec.TsModule.
Import ListNotations.
Local Open Scope list_scope.
Local Open Scope string_scope.

(* ---------------- ground truth: the JSON shape serde produces, as a TypeScript type ---------------- *)
Definition ts_void := TsName (L "void") [].
Definition ts_undefined := TsName (L "undefined") [].

(* m: type_mappings; only named (non-table) types are looked up, by the text type_to_string prints *)
Definition named (m : mapping) (n : str) : tsty :=
  match lookup m n with Some target => TsName target [] | None => TsName n [] end.

Fixpoint rshape (m : mapping) (t : rty) : tsty :=
  match t with
  | RRef u => rshape m u
  | RTuple [] => ts_void
  | RTuple l => TsTuple (map (rshape m) l)
  | RPath n [] => match prim_of n with Some p => TsName p [] | None => named m n end
  | RPath n [a] =>
      if is_name n "Option" then union_snoc (rshape m a) null_t
      else if is_name n "Vec" || is_name n "HashSet" || is_name n "BTreeSet" then TsArray (rshape m a)
      else if is_name n "Result" then rshape m a
      else named m (tts t)
  | RPath n [a; b] =>
      if is_name n "HashMap" || is_name n "BTreeMap" then TsApp (L "Record") [] (rshape m a) [rshape m b]
      else if is_name n "Result" then rshape m a
      else named m (tts t)
  | RPath n _ => named m (tts t)
  end.

(* names that live in the global TypeScript scope; everything else the tool declares in types.ts *)
Definition builtin (n : str) : bool :=
  one_of n ["string"; "number"; "boolean"; "void"; "null"; "undefined"; "any"; "unknown"; "never"; "object"].

(* commands.ts and events.ts import types.ts as a namespace *)
Fixpoint qualify (t : tsty) : tsty :=
  match t with
  | TsName hd [] => if builtin hd then t else TsName (L "types") [hd]
  | TsName _ _ => t
  | TsApp hd tl a args => TsApp hd tl (qualify a) (map qualify args)
  | TsArray u => TsArray (qualify u)
  | TsTuple l => TsTuple (map qualify l)
  | TsUnion a b more => TsUnion (qualify a) (qualify b) (map qualify more)
  end.

Definition expected (s : site) (m : mapping) (t : rty) : tsty :=
  if site_qualified s then qualify (rshape m t) else rshape m t.

(* ---------------- equality on tsty ---------------- *)
Fixpoint list_eqb {A} (f : A -> A -> bool) (a b : list A) : bool :=
  match a, b with
  | [], [] => true
  | x :: a', y :: b' => f x y && list_eqb f a' b'
  | _, _ => false
  end.
Fixpoint tsty_eqb (a b : tsty) : bool :=
  match a, b with
  | TsName h1 t1, TsName h2 t2 => str_eqb h1 h2 && list_eqb str_eqb t1 t2
  | TsApp h1 t1 a1 r1, TsApp h2 t2 a2 r2 =>
      str_eqb h1 h2 && list_eqb str_eqb t1 t2 && tsty_eqb a1 a2 &&
      (fix go (l1 l2 : list tsty) : bool :=
         match l1, l2 with [], [] => true | x :: l1', y :: l2' => tsty_eqb x y && go l1' l2' | _, _ => false end) r1 r2
  | TsArray u1, TsArray u2 => tsty_eqb u1 u2
  | TsTuple l1, TsTuple l2 =>
      (fix go (l1 l2 : list tsty) : bool :=
         match l1, l2 with [], [] => true | x :: l1', y :: l2' => tsty_eqb x y && go l1' l2' | _, _ => false end) l1 l2
  | TsUnion a1 b1 m1, TsUnion a2 b2 m2 =>
      tsty_eqb a1 a2 && tsty_eqb b1 b2 &&
      (fix go (l1 l2 : list tsty) : bool :=
         match l1, l2 with [], [] => true | x :: l1', y :: l2' => tsty_eqb x y && go l1' l2' | _, _ => false end) m1 m2
  | _, _ => false
  end.

(* ---------------- reading of a Zod schema expression: the type z.infer gives it ---------------- *)
Definition zcall (e : ex) : option (list str * list ty * list ex) :=      (* z.a.b<targs>(args) *)
  match e with
  | ECall f targs args =>
      (fix path (f : ex) (acc : list str) : option (list str * list ty * list ex) :=
         match f with
         | EId z => if str_eqb z (L "z") then Some (acc, targs, args) else None
         | EMember g name false => path g (name :: acc)
         | _ => None
         end) f []
  | _ => None
  end.
Definition ends_schema (s : str) : option str := strip_suffix (L "Schema") s.
Definition ts_object := TsName (L "{object}") [].
Definition is_path (p : list str) (l : list string) : bool := list_eqb str_eqb p (map L l).

Fixpoint zshape (fuel : nat) (e : ex) : option tsty :=
  match fuel with 0 => None | S f =>
  match e with
  | EId s => match ends_schema s with Some n => if Nat.eqb (List.length n) 0 then None else Some (TsName n []) | None => None end
  | ECall (EMember r name false) [] [] =>
      if str_eqb name (L "optional") then option_map (fun t => union_snoc t ts_undefined) (zshape f r)
      else if str_eqb name (L "nullable") then option_map (fun t => union_snoc t null_t) (zshape f r)
      else match zcall e with
           | Some (p, [], []) =>
               if is_path p ["string"] then Some (TsName (L "string") [])
               else if is_path p ["number"] || is_path p ["coerce"; "number"] then Some (TsName (L "number") [])
               else if is_path p ["boolean"] || is_path p ["coerce"; "boolean"] then Some (TsName (L "boolean") [])
               else if is_path p ["void"] then Some ts_void
               else None
           | _ => None
           end
  | _ =>
      match zcall e with
      | Some (p, [], [a]) =>
          if is_path p ["array"] then option_map TsArray (zshape f a)
          else if is_path p ["set"] then option_map (fun t => TsApp (L "Set") [] t []) (zshape f a)
          else if is_path p ["object"] then Some ts_object
          else if is_path p ["tuple"] then
            match a with EArr l => option_map TsTuple (mapM (zshape f) l) | _ => None end
          else if is_path p ["union"] then
            match a with
            | EArr [x; y] => match zshape f x, zshape f y with Some tx, Some ty => Some (union_snoc tx ty) | _, _ => None end
            | _ => None
            end
          else None
      | Some (p, [], [a; b]) =>
          if is_path p ["record"] then
            match zshape f a, zshape f b with Some k, Some v => Some (TsApp (L "Record") [] k [v]) | _, _ => None end
          else None
      | Some (p, [TyRef [n] []], [_]) =>
          if is_path p ["custom"] then Some (TsName n []) else None
      | _ => None
      end
  end end.

Definition zod_infer (text : str) : option tsty :=
  let toks := lex_module text in
  if has_err toks then None else
  match pexpr toks with Some (e, []) => zshape 64 e | _ => None end.

(* what a reader of the generated module sees at a site *)
Definition observe (is_type : bool) (text : str) : option tsty :=
  if is_type then ts_parse_str text else zod_infer text.

Definition opt_tsty_eqb (a : option tsty) (b : tsty) : bool :=
  match a with Some x => tsty_eqb x b | None => false end.

(* the oracle applied to the text the implementation printed *)
Definition c05_ok (s : site) (md : mode) (m : mapping) (t : rty) (text : str) : bool :=
  opt_tsty_eqb (observe (site_is_type s md) text) (expected s m t).

(* ---------------- domain: the documented type language ---------------- *)
Definition is_plain_b (c : ascii) : bool := is_idc c.      (* identifier characters *)
Definition ident_b (n : str) : bool := negb (Nat.eqb (List.length n) 0) && forallb is_idc n.
Definition table_names : list string :=
  ["Option"; "Vec"; "HashSet"; "BTreeSet"; "HashMap"; "BTreeMap"; "Result"].
Definition reserved (n : str) : bool := builtin n || one_of n ["types"; "Record"; "Map"; "Set"].

(* keys of a JSON object must serialise as strings: strings, numbers, bool, or a named type *)
Definition key_ok (k : rty) : bool :=
  match k with RPath _ [] => true | RRef (RPath _ []) => true | _ => false end.

(* C18: additionally, mapped named types may carry arguments (DateTime<Utc>) *)
Definition prim_of_b (n : str) : bool := match prim_of n with Some _ => true | None => false end.
Fixpoint dom_m (m : mapping) (t : rty) : bool :=
  match t with
  | RRef u => dom_m m u
  | RTuple l => forallb (dom_m m) l
  | RPath n args =>
      match lookup m (tts t) with
      | Some _ => ident_b n && negb (reserved n) && negb (one_of n table_names) && negb (prim_of_b n)
                  && forallb (fun a => match a with RPath x [] => ident_b x | _ => false end) args
      | None =>
        match args with
        | [] => ident_b n && negb (reserved n) && negb (one_of n table_names)
        | [a] =>
            (is_name n "Option" || is_name n "Vec" || is_name n "HashSet" || is_name n "BTreeSet" || is_name n "Result")
            && dom_m m a
        | [a; b] =>
            ((is_name n "HashMap" || is_name n "BTreeMap") && key_ok a || is_name n "Result") && dom_m m a && dom_m m b
        | _ => false
        end
      end
  end.

(* C05: no mapping table *)
Definition dom_b (t : rty) : bool := dom_m [] t.
